#!/usr/bin/env python
"""
Differential demonstration for the print() path of csvpath (property C16:
"print() emits its text verbatim with references replaced by current values").

Usage (cwd must be a scratch directory, never the source tree):

    cd /tmp/demo_dir && PYTHONPATH=<tree under test> /venv/bin/python demo.py > out.txt

The script is self-contained: it creates ./demo_work (config, data files),
runs everything inside it and prints a deterministic transcript of everything
observable: printouts (every printer, including stdout), returned lines,
variables, validity, collected errors (class, message, counts, json - but not
the traceback text or timestamp, which embed source line numbers and the
clock), WARNING+ log messages, results printouts and the contents of
./archive with the run-directory timestamps normalised.

The same script accompanies the three independent changes t1, t2 and t3:
  t1 (parser memo in Print / PrintParser)     - sections A, C, D, E; D is the
     one that re-points a Print at another csvpath, A re-points a PrintParser
  t2 (early returns in _ref_from_dict)        - section A (every kind of
     tracking value on dicts, stacks, scalars, None, subclasses), C, E
  t3 (indexing / truthiness / helper tidy-up) - section B (pending text,
     name() edge cases), C (trailing blanks, named printers, 2nd argument)

Sections
  A  PrintParser.transform() called directly, one parser instance reused for
     several hundred generated strings (text chunks x references in every
     arrangement), interleaved with strings that do not parse, and re-pointed
     at another CsvPath half way through
  B  LarkPrintParser / LarkPrintTransformer called directly (item lists)
  C  print() inside csvpaths run by a stand-alone CsvPath: qualifiers, named
     printers, second-argument functions, blank lines, ragged rows, empty
     values, zero, error strings (collected and raised), repeated runs
  D  a Print function moved from one CsvPath's matcher to another's, the way
     import() does it
  E  CsvPaths: references into other named-paths' results, import(),
     printouts in results and in the archive
"""
import os
import sys

if os.environ.get("PYTHONHASHSEED") != "0" and not os.environ.get("DEMO_KEEP_HASHSEED"):
    # lark builds the "Expected one of" part of its messages from a set
    os.environ["PYTHONHASHSEED"] = "0"
    os.execv(sys.executable, [sys.executable] + sys.argv)

import collections
import itertools
import json
import logging
import random
import re
import shutil

ROOT = os.path.join(os.getcwd(), "demo_work")
if os.path.exists(ROOT):
    shutil.rmtree(ROOT)
os.makedirs(os.path.join(ROOT, "config"))
os.chdir(ROOT)

CONFIG = """[csvpath_files]
extensions = txt, csvpath, csvpaths

[csv_files]
extensions = txt, csv, tsv, dat, tab, psv, ssv

[errors]
csvpath = collect, fail, print
csvpaths = collect

[logging]
csvpath = info
csvpaths = info
log_file = logs/csvpath.log
log_files_to_keep = 100
log_file_size = 52428800

[config]
path = config/config.ini

[cache]
path = cache

[listeners]
[marquez]
base_url = http://localhost:5000

[functions]
imports = config/functions.imports

[results]
archive = archive
transfers = transfers

[inputs]
files = inputs/named_files
csvpaths = inputs/named_paths
on_unmatched_file_fingerprints = halt
"""
with open("config/config.ini", "w") as fh:
    fh.write(CONFIG)
with open("config/functions.imports", "w") as fh:
    fh.write("")

FILES = {
    # blank line, empty value, short (ragged) row, long row, zero, dots+spaces
    "f.csv": "a,b,c\n1,2,3\n\n4,,6\n7,8\n9,10,11,12\n0,x y,z.w\n4,0,\n",
    "g.csv": 'first name,"last, name",n\nAda,Lovelace,0\nAlan,Turing,\n,,\n',
    "hdr_only.csv": "a,b,c\n",
    "empty.csv": "",
}
for name, content in FILES.items():
    with open(name, "w") as fh:
        fh.write(content)

from csvpath import CsvPath, CsvPaths  # noqa: E402
from csvpath.util.printer import Printer  # noqa: E402
from csvpath.matching.util.print_parser import PrintParser  # noqa: E402
from csvpath.matching.util.lark_print_parser import (  # noqa: E402
    LarkPrintParser,
    LarkPrintTransformer,
)
from csvpath.matching.functions.print.printf import Print  # noqa: E402


# ---------------------------------------------------------------- helpers
def norm_expected(s) -> str:
    # lark lists the expected terminals in set order
    def _sort_expected(m):
        items = sorted(x for x in m.group(2).split("\n") if x.strip() != "")
        return m.group(1) + "\n".join(items) + "\n"

    s = re.sub(r"(Expected one of: \n)((?:\t\* [A-Z_]+\n)+)", _sort_expected, s)

    # ... the same inside a repr() (escaped) and after whitespace was collapsed
    def _sort_escaped(m):
        items = sorted(x for x in m.group(2).split("\\n") if x.strip() != "")
        return m.group(1) + "\\n".join(items) + "\\n"

    s = re.sub(
        r"(Expected one of: \\n)((?:\\t\* [A-Z_]+\\n)+)", _sort_escaped, s
    )

    def _sort_collapsed(m):
        items = sorted(x for x in m.group(2).split("* ") if x.strip() != "")
        return m.group(1) + "".join("* " + x.strip() + " " for x in items)

    s = re.sub(r"(Expected one of: )((?:\* [A-Z_]+ ?)+)", _sort_collapsed, s)
    return s


def norm(s) -> str:
    """applied to the complete transcript just before it is written"""
    s = re.sub(r"0x[0-9a-fA-F]+", "0xADDR", s)
    s = re.sub(
        r"\d{4}-\d\d-\d\d[ T_]\d\d[:-]\d\d[:-]\d\d(\.\d+)?(\+00:00)?(_\d+)?", "TIME", s
    )
    s = s.replace(ROOT, "<ROOT>")
    # wall-clock measurements that show up in dumps of the runtime data
    s = re.sub(r"('(?:lines_time|last_line_time)': )[0-9.eE+-]+", r"\1ELAPSED", s)
    # cache keys are salted
    s = re.sub(r"cache/[0-9a-f]{64}", "cache/KEY", s)
    # tracebacks name source files and line numbers of the tree under test
    s = re.sub(
        r"Traceback \(most recent call last\):\n(?:  .*\n)+",
        "Traceback (most recent call last):\n  <frames>\n",
        s,
    )

    return norm_expected(s)


def out(*args) -> None:
    print(*args)


class Capture(Printer):
    """records everything sent to it, with the name of the target printer"""

    def __init__(self):
        self.got = []

    @property
    def last_line(self):
        return self.got[-1][1] if self.got else None

    @property
    def lines_printed(self) -> int:
        return len(self.got)

    def print(self, string: str) -> None:
        self.got.append((None, string))

    def print_to(self, name: str, string: str) -> None:
        self.got.append((name, string))


class LogCapture(logging.Handler):
    def emit(self, record):
        try:
            msg = record.getMessage()
        except Exception as e:  # pragma: no cover
            msg = f"unformattable log record: {e}"
        out(f"   LOG {record.levelname} {record.name}: {msg}")


def hook_logs():
    h = LogCapture(level=logging.WARNING)
    for n in ["csvpath", "csvpaths"]:
        lg = logging.getLogger(n)
        if not any(isinstance(_, LogCapture) for _ in lg.handlers):
            lg.addHandler(h)


def show_errors(errors) -> None:
    errors = errors or []
    out(f"   errors: {len(errors)}")
    for e in errors:
        out(
            f"     - class={e.error.__class__.__name__ if e.error is not None else None}"
            f" line={e.line_count} match={e.match_count} scan={e.scan_count}"
            f" file={e.filename} datum={e.datum!r} message={e.message!r}"
        )
        out(f"       error={str(e.error)!r}")
        out(f"       source={e.source}")
        out(f"       json={' '.join(str(e.json).split())}")


def show_path(p, cap, lines) -> None:
    out(f"   returned: {lines!r}")
    out(f"   captured: {len(cap.got)}")
    for name, s in cap.got:
        out(f"     [{name}] {s!r}")
    out(f"   variables: {p.variables!r}")
    out(f"   metadata: {p.metadata!r}")
    out(
        f"   is_valid={p.is_valid} stopped={p.stopped} match_count={p.match_count}"
        f" scan_count={p.scan_count}"
        f" lines={p.line_monitor.physical_line_count if p.line_monitor else None}"
        f" last_line={p.last_line!r}"
    )
    show_errors(p.errors)


def run_path(title, path, how="collect", again=False):
    out(f"--- {title}")
    out(f"   path: {path}")
    p = CsvPath()
    cap = Capture()
    p.add_printer(cap)
    hook_logs()
    lines = None
    try:
        p.parse(path)
        if how == "collect":
            lines = p.collect()
        elif how == "fast_forward":
            p.fast_forward()
        elif how == "next":
            lines = []
            for line in p.next():
                lines.append(list(line))
                out(f"   next() -> {line!r}; captured so far {len(cap.got)}")
    except Exception as e:  # pylint: disable=W0718
        out(f"   RAISED {type(e).__name__}: {e}")
    show_path(p, cap, lines)
    if again:
        out("   ... collect() a second time on the same instance")
        try:
            lines = p.collect()
        except Exception as e:  # pylint: disable=W0718
            out(f"   RAISED {type(e).__name__}: {e}")
        show_path(p, cap, lines)
        out("   ... parse() the same path again on the same instance and collect()")
        try:
            p.parse(path)
            lines = p.collect()
        except Exception as e:  # pylint: disable=W0718
            out(f"   RAISED {type(e).__name__}: {e}")
        show_path(p, cap, lines)
    return p


# ---------------------------------------------------------------- strings
TEXTS = [
    "",
    "x",
    " ",
    "  ",
    "abc def",
    ", ",
    ":",
    "..",
    ".. ",
    "(",
    ")",
    "#1",
    "'q'",
    "-",
    "a.b",
    "end.",
    " 100% & <ok> ",
    "\t",
    "[1]",
    "!",
]

LOCAL_REFS = [
    "$.variables.s",
    "$.variables.e",
    "$.variables.z",
    "$.variables.f",
    "$.variables.n",
    "$.variables.t",
    "$.variables.st",
    "$.variables.st.0",
    "$.variables.st.1",
    "$.variables.st.2",
    "$.variables.st.3",
    "$.variables.st.4",
    "$.variables.st.9",
    "$.variables.st.length",
    "$.variables.st.nope",
    "$.variables.es",
    "$.variables.es.0",
    "$.variables.es.length",
    "$.variables.d",
    "$.variables.d.k",
    "$.variables.d.zero",
    "$.variables.d.none",
    "$.variables.d.empty",
    "$.variables.d.missing",
    "$.variables.d.1",
    "$.variables.d.length",
    "$.variables.ed.k",
    "$.variables.s.k",
    "$.variables.z.0",
    "$.variables.tup.0",
    "$.variables.nested.k",
    "$.variables.missing",
    "$.variables.missing.k",
    "$.variables.'a name with spaces'",
    "$.variables.'a name with spaces'.k",
    "$.variables.length",
    "$.variables.0",
    "$.variables.st.01",
    "$.variables.st.1_0",
    "$.variables.st.\u00b2",
    "$.variables.tf.0",
    "$.variables.tf.1",
    "$.variables.dd.k",
    "$.variables.dd.zz",
    "$.variables.dd",
    "$.variables.od.k",
    "$.variables.od.n",
    "$.variables.loud.0",
    "$.variables.loud.length",
    "$.variables.d.'k'",
    "$.variables.'a.b'",
    "$.variables.'q'.'r'",
    "$.headers.a",
    "$.headers.b",
    "$.headers.c",
    "$.headers.0",
    "$.headers.2",
    "$.headers.7",
    "$.headers.missing",
    "$.headers.a.trk",
    "$.headers.'first name'",
    "$.headers.'last, name'",
    "$.metadata.id",
    "$.metadata.note",
    "$.metadata.missing",
    "$.csvpath.count_lines",
    "$.csvpath.line_number",
    "$.csvpath.count_matches",
    "$.csvpath.count_scans",
    "$.csvpath.total_lines",
    "$.csvpath.identity",
    "$.csvpath.delimiter",
    "$.csvpath.quotechar",
    "$.csvpath.scan_part",
    "$.csvpath.match_part",
    "$.csvpath.file_name",
    "$.csvpath.headers",
    "$.csvpath.valid",
    "$.csvpath.stopped",
    "$.csvpath.missing",
    "$nobody.variables.x",
    "$nobody.headers.a",
]

BAD = [
    "cost $5",
    "$",
    "$$",
    "$.",
    "$.variables",
    "$.variables.",
    "$.nothing.x",
    "$.variables.st.-1",
    "$.variables.a.b.c",
    "tail $",
    "$.variables.s$",
    "$.headers.'unterminated",
    "$.variables.'a..b'",
    "$.variables.''",
]

class Loud(list):
    """a stack whose items cannot be read"""

    def __getitem__(self, i):
        raise KeyError(f"loud {i}")


VARIABLES = {
    "tf": [False, True],
    "dd": collections.defaultdict(list, {"k": "dv"}),
    "od": collections.OrderedDict([("k", "ov"), ("n", None)]),
    "loud": Loud(["q"]),
    "'a": "quote-a",
    "q": {"r": "q-r", "'r'": "q-quoted-r"},
    "s": "text",
    "e": "",
    "z": 0,
    "f": 1.50,
    "n": None,
    "t": True,
    "st": ["a", "", 0, None, "last"],
    "es": [],
    "d": {
        "k": "v",
        "zero": 0,
        "none": None,
        "empty": "",
        "1": "one",
        "length": "L",
    },
    "ed": {},
    "tup": (1, 2),
    "nested": {"k": {"j": [1, 2]}},
    "a name with spaces": "spaced",
    "length": "len-var",
    "0": "zero-named",
}


def strings():
    """text chunks and references in every arrangement: lone, at the start,
    at the end, adjacent, separated by one or many characters"""
    ss = []
    # every reference alone, and wrapped
    for r in LOCAL_REFS:
        ss.append(r)
        ss.append(f"<{r}>")
        ss.append(f"{r}.. and {r}")
    # every text alone
    for t in TEXTS:
        ss.append(t)
    # every text after / before / between a small set of references
    few = [
        "$.variables.s",
        "$.variables.st.1",
        "$.variables.d.k",
        "$.headers.b",
        "$.headers.'last, name'",
        "$.csvpath.line_number",
        "$.metadata.id",
        "$.variables.z",
    ]
    for t in TEXTS:
        for r in few[:4]:
            ss.append(f"{r}{t}")
            ss.append(f"{t}{r}")
    for a, b in itertools.product(few, few[:5]):
        for t in ["", " ", "x", "..", ", ", " - ", "a.b", "$"]:
            ss.append(f"{a}{t}{b}")
    # generated
    rnd = random.Random(16)
    for _ in range(150):
        parts = []
        for _ in range(rnd.randint(1, 6)):
            if rnd.random() < 0.5:
                parts.append(rnd.choice(LOCAL_REFS))
            else:
                parts.append(rnd.choice(TEXTS))
        ss.append("".join(parts))
    # some that do not parse, spread through the list
    step = max(1, len(ss) // len(BAD))
    for i, b in enumerate(BAD):
        ss.insert(min(len(ss), (i + 1) * step), b)
    return ss


def finished_path(path, variables=None):
    p = CsvPath()
    p.add_printer(Capture())
    hook_logs()
    p.parse(path)
    p.fast_forward()
    if variables:
        for k, v in variables.items():
            p.variables[k] = v
    return p


def transform(parser, s):
    try:
        return repr(parser.transform(s))
    except Exception as e:  # pylint: disable=W0718
        return f"RAISED {type(e).__name__}: {' '.join(str(e).split())}"


# ---------------------------------------------------------------- section A
def section_a():
    out("=" * 20, "A: PrintParser.transform, one instance, many strings")
    p1 = finished_path('~ id: p-one note: "first" ~ $f.csv[*][ yes() ]', VARIABLES)
    p2 = finished_path(
        '~ id: p-two ~ $g.csv[1*][ @s = #0 #0 ]', {"st": ["only"], "d": {"k": 2}}
    )
    reused = PrintParser(p1)
    ss = strings()
    out(f"   {len(ss)} strings")
    for i, s in enumerate(ss):
        if i == len(ss) // 2:
            out("   ... the same parser is now pointed at the second csvpath")
            reused.csvpath = p2
        cur = reused.csvpath
        a = transform(reused, s)
        out(f"   {i:4d} {s!r} -> {a}")
        t = reused.parser.tree if reused.parser is not None else "no parser"
        if a.startswith("RAISED"):
            out(f"        tree after failure is None: {t is None}")
        b = transform(PrintParser(cur), s)
        if a != b:
            out(f"        A NEW PARSER GIVES A DIFFERENT ANSWER: {b}")
    out("   ... values changed between two transforms of the same string")
    for v in ["one", 0, "", None, [], ["x"], {"k": 1}]:
        p2.variables["chg"] = v
        out(
            f"   chg={v!r}: "
            + transform(reused, "[$.variables.chg|$.variables.chg.0|$.variables.chg.k]")
        )
    out("   ... no csvpath at all")
    for s in ["plain text", "", "$.variables.x", "bad $"]:
        out(f"   {s!r} -> {transform(PrintParser(), s)}")


# ---------------------------------------------------------------- section B
def section_b():
    out("=" * 20, "B: LarkPrintParser / LarkPrintTransformer")
    parser = LarkPrintParser()
    shared = LarkPrintTransformer()
    ss = [
        "",
        " ",
        "text only",
        "$.variables.a",
        "$.variables.a ",
        "$.variables.a..",
        "$.variables.a.b",
        "$.variables.a.b..c",
        "$.variables.'q r'.'s t'!",
        "$.headers.'x'$.headers.y",
        "$.headers.x,$.headers.y",
        "$.headers.x $.headers.y",
        "$.headers.x..$.headers.y",
        "$named.csvpath.count_lines:",
        "$.metadata.m)",
        "a  b\t$.variables.v\n next",
        "bad $",
        "after the failure $.variables.ok!",
        "$.variables.a.b.c",
        "and again $.variables.ok.. fine",
    ]
    for s in ss:
        for name, tr in [("shared", shared), ("fresh", LarkPrintTransformer())]:
            try:
                tree = parser.parse(s)
                items = tr.transform(tree)
                desc = [
                    (type(_).__name__, _ if not isinstance(_, dict) else sorted(_.items()))
                    for _ in items
                ]
                out(f"   {name:6} {s!r} -> {desc!r} pending={tr.pending_text!r}")
                out(f"          to_string={tr.to_string(*items)!r}")
            except Exception as e:  # pylint: disable=W0718
                out(
                    f"   {name:6} {s!r} -> RAISED {type(e).__name__}: {' '.join(str(e).split())}"
                    f" tree is None: {parser.tree is None} pending={tr.pending_text!r}"
                )


    out("   ... transformers that already hold pending text")
    for pending in [["<"], ["1", "2", "3"], [".", ""], []]:
        for s in ["text", " ", "a b", "  x", "$.variables.v.. y", "$.variables.v", "bad $"]:
            tr = LarkPrintTransformer()
            tr.pending_text = list(pending)
            try:
                tree = parser.parse(s)
                items = tr.transform(tree)
                toks = [
                    (str(_), getattr(_, "value", None))
                    for _ in tree.children
                    if not hasattr(_, "children")
                ]
                out(
                    f"   pending {pending!r} + {s!r} -> {list(items)!r}"
                    f" pending after={tr.pending_text!r} tokens={toks!r}"
                )
            except Exception as e:  # pylint: disable=W0718
                out(
                    f"   pending {pending!r} + {s!r} -> RAISED {type(e).__name__}:"
                    f" {' '.join(str(e).split())} pending after={tr.pending_text!r}"
                )
    out("   ... name() called directly")
    tr = LarkPrintTransformer()
    for args in [
        ("a",),
        ("'a'",),
        ("'",),
        ("''",),
        ("'a",),
        ("a'",),
        (".a",),
        (" 'a b' ",),
        ("'a.b'",),
        ("a", "t"),
        ("a", "'t'"),
        ("a", ""),
        ("a", "t", ""),
        ("",),
        ("a..b",),
    ]:
        try:
            out(f"   name{args!r} -> {tr.name(*args)!r}")
        except Exception as e:  # pylint: disable=W0718
            out(f"   name{args!r} -> RAISED {type(e).__name__}: {e}")


# ---------------------------------------------------------------- section C
SETUP = '@x=#a @z=0 @e="" push("st",#b) @t.k=#c tally(#a)'

IN_PATH_STRINGS = [
    "",
    " ",
    "plain text, no references.",
    "trailing space ",
    "trailing spaces  ",
    "  leading and trailing  ",
    "a=$.headers.a",
    "a=$.headers.a b=$.headers.b c=$.headers.c",
    "$.headers.a,$.headers.b,$.headers.c",
    "$.headers.a$.headers.b",
    "$.headers.0:$.headers.1:$.headers.2:$.headers.3",
    "<$.headers.b>..",
    "[$.headers.c..]",
    "x is $.variables.x.. z is $.variables.z, e is '$.variables.e'",
    "stack $.variables.st has $.variables.st.length, first $.variables.st.0 third $.variables.st.2!",
    "stack nine $.variables.st.9;",
    "tracked $.variables.t.k and $.variables.t.nope and $.variables.t",
    "tally $.variables.a.4 of $.variables.a",
    "missing $.variables.nope here",
    "line $.csvpath.line_number of $.csvpath.total_lines in $.csvpath.file_name: $.csvpath.count_matches/$.csvpath.count_scans",
    "id $.metadata.id note $.metadata.note none $.metadata.none",
    "identity $.csvpath.identity valid $.csvpath.valid stopped $.csvpath.stopped",
    "100% (sure) #1 & <b> 'single' a.b.c end.",
    "dots.. $.headers.a.. $.headers.a... x",
    "cost $5",
    "$.variables.st.-1",
    "$other.variables.x",
]


def section_c():
    out("=" * 20, "C: print() in csvpaths run by CsvPath")
    for i, s in enumerate(IN_PATH_STRINGS):
        run_path(
            f"C1.{i} string {s!r}",
            f'~ id: c1-{i} note: "a note" ~ $f.csv[*][ {SETUP} print("{s}") ]',
        )
    quals = [
        ('print.once("once: $.headers.a")', ""),
        ('print.onmatch("onmatch: $.headers.a/$.csvpath.count_matches")', '#a=="4"'),
        ('#a=="4"', 'print.onmatch("onmatch after: $.headers.b.. ")'),
        ('print.onmatch.once("first match: $.csvpath.line_number")', '#a=="4"'),
        ('print.onchange("b now $.headers.b")', ""),
        ('print.onchange.once("b once $.headers.b")', ""),
        ('print.once.onmatch("never: $.headers.a")', 'no()'),
        ('#a=="4" -> print("when: $.headers.a at $.csvpath.line_number")', ""),
        ('#a=="4" -> print.once("when once: $.headers.c..")', ""),
        ('print("to target $.headers.a", "tgt")', ""),
        ('print.once("to target once $.headers.a ", "tgt")', ""),
        ('print("to empty target $.headers.a", "")', ""),
        ('print("then fail $.csvpath.valid", fail())', ""),
        ('print.onmatch("then stop at $.headers.a", stop())', '#a=="4"'),
        ('print("then counts $.variables.n", @n=count())', ""),
        ('print("nested $.headers.a", print("inner $.headers.b"))', ""),
        ('print("one $.headers.a") print("two $.headers.a") print.once("three")', ""),
        ('print("bad $", "tgt")', ""),
        ('print.once("bad once $")', ""),
    ]
    for i, (a, b) in enumerate(quals):
        run_path(f"C2.{i}", f"~ id: c2-{i} ~ $f.csv[*][ {SETUP} {a} {b} ]")
    out("   ... scans, other files, other run methods")
    run_path("C3.0 scan subset", f'$f.csv[2-4][ print("$.csvpath.line_number: $.headers.a") ]')
    run_path("C3.1 header only", f'$hdr_only.csv[*][ print("h: $.headers.a|$.headers.2") ]')
    run_path("C3.2 empty file", f'$empty.csv[*][ print("e: $.headers.a") ]')
    run_path(
        "C3.3 quoted header names",
        "$g.csv[*][ print(\"$.headers.'first name' / $.headers.'last, name' / $.headers.n..\") ]",
    )
    run_path(
        "C3.4 fast_forward",
        '$f.csv[*][ push("st",#a) print("ff $.variables.st.length") ]',
        how="fast_forward",
    )
    run_path(
        "C3.5 next",
        '$f.csv[*][ #b print.onmatch("nx $.headers.b") ]',
        how="next",
    )
    run_path(
        "C3.6 OR logic",
        '~ logic-mode: OR ~ $f.csv[*][ #a=="4" print.onmatch("or: $.headers.a") ]',
    )
    run_path(
        "C3.7 no default printer",
        '~ print-mode: no-default ~ $f.csv[*][ print("quiet $.headers.a") ]',
    )
    out("   ... error handling modes")
    run_path(
        "C4.0 raise",
        '~ validation-mode: raise, no-print ~ $f.csv[*][ print("x $.headers.a") print("bad $") ]',
    )
    run_path(
        "C4.1 stop",
        '~ validation-mode: no-raise, stop, print ~ $f.csv[*][ print("x $.headers.a") print("bad $") ]',
    )
    run_path(
        "C4.2 no-fail no-print",
        '~ validation-mode: no-raise, no-stop, no-fail, no-print ~ $f.csv[*][ print("bad $") print("y $.headers.a") ]',
    )
    run_path("C4.3 print() without arguments", "$f.csv[*][ print() ]")
    run_path("C4.4 print(header)", "$f.csv[*][ print(#a) ]")
    run_path("C4.5 three arguments", '$f.csv[*][ print("a", "b", "c") ]')
    out("   ... repeated runs on one instance")
    run_path(
        "C5.0 again",
        f'~ id: again ~ $f.csv[*][ {SETUP} print.once("first $.headers.a") print("n $.csvpath.count_lines st $.variables.st.length") ]',
        again=True,
    )


# ---------------------------------------------------------------- section D
def find_prints(matchable, found):
    if isinstance(matchable, Print):
        found.append(matchable)
    for c in matchable.children:
        find_prints(c, found)
    return found


def repoint(f, p) -> None:
    # what import() does to the match components it adopts
    e = f.my_expression
    e.matcher = p.matcher
    stack = [e.children]
    while stack:
        for c in stack.pop():
            c.matcher = p.matcher
            stack.append(c.children)


def section_d():
    out("=" * 20, "D: a Print moved to another csvpath's matcher")
    p1 = CsvPath()
    c1 = Capture()
    p1.add_printer(c1)
    p1.parse(
        '~ id: d-one ~ $f.csv[*][ @v = #a print("I am $.csvpath.identity at $.csvpath.line_number v=$.variables.v h0=$.headers.0 a=$.headers.a n=$.headers.n") ]'
    )
    p2 = CsvPath()
    c2 = Capture()
    p2.add_printer(c2)
    p2.parse("~ id: d-two ~ $g.csv[*][ @v = #n yes() ]")
    g1 = p1.next()
    g2 = p2.next()

    def step():
        for name, g in [("d-one", g1), ("d-two", g2)]:
            try:
                out(f"   {name} next -> {next(g)!r}")
            except StopIteration:
                out(f"   {name} is finished")

    step()
    prints = []
    for e in p1.matcher.expressions:
        find_prints(e[0], prints)
    out(f"   prints found in d-one: {len(prints)}; captured by d-one so far: {len(c1.got)}")
    f = prints[0]
    for round_, p in enumerate([p2, p1, p2, p2, p1, p2]):
        repoint(f, p)
        f.my_expression.reset()
        r = f.matches(skip=[])
        out(
            f"   round {round_}: matcher of {p.identity}: matches={r} d-one captured {len(c1.got)}"
            f" last {c1.last_line!r}; d-two captured {len(c2.got)} last {c2.last_line!r}"
        )
        repoint(f, p1)
        step()
    out(f"   d-one variables {p1.variables!r}")
    out(f"   d-two variables {p2.variables!r}")
    show_errors(p1.errors)
    show_errors(p2.errors)


# ---------------------------------------------------------------- section E
def dump_archive():
    out("   archive:")
    for root, dirs, files in os.walk("archive"):
        dirs.sort()
        for name in sorted(files):
            path = os.path.join(root, name)
            out(f"     {path}")
            if name in ["printouts.txt", "vars.json", "data.csv", "unmatched.csv"]:
                with open(path) as fh:
                    for line in norm_expected(fh.read()).split("\n"):
                        out(f"        | {line}")
            elif name == "errors.json":
                with open(path) as fh:
                    errors = json.load(fh)
                for e in errors:
                    e.pop("trace", None)
                    e.pop("at", None)
                    out(f"        | {json.dumps(e, sort_keys=True)}")


def section_e():
    out("=" * 20, "E: CsvPaths")
    hook_logs()
    cp = CsvPaths()
    hook_logs()
    cp.file_manager.add_named_file(name="f", path="f.csv")
    cp.file_manager.add_named_file(name="g", path="g.csv")
    cp.paths_manager.add_named_paths(
        name="first",
        paths=[
            '~ id: one note: "n1" ~ $[*][ @x=#a push("st",#b) @t.k=#c print("one: $.csvpath.line_number $.headers.a") ]',
            '~ id: uno ~ $[*][ @x2=#b print.once("uno: $.headers.b", "side") ]',
        ],
    )
    cp.paths_manager.add_named_paths(
        name="imp",
        paths=[
            '~ id: imp ~ $[*][ print.once("imported print sees $.csvpath.identity, y=$.variables.y") print.onmatch("imp onmatch $.headers.a") ]'
        ],
    )
    cp.paths_manager.add_named_paths(
        name="p",
        paths=[
            '~ id: two ~ $[*][ @y=#c print("two: $first.variables.x / $first.variables.st.1 / $first.variables.st.length / $first.variables.t.k / $first.metadata.note / $first.headers.b / $first.csvpath.count_lines.. / $first.variables.nope") ]',
            '~ id: three ~ $[*][ @y=#b import("imp") print.onmatch("three $.headers.c") #a=="4" ]',
            '~ id: four ~ $[1][ print("bad $") ]',
            '~ id: five ~ $[1-2][ print("$nobody.variables.x and $first.variables.x2$first.variables.x") ]',
            '~ id: six ~ $[*][ print.once("six: $p.variables.y|$p.metadata.id|$p.csvpath.count_matches|$p.headers.a") ]',
        ],
    )
    for fname, pname, method in [
        ("f", "first", "collect_paths"),
        ("f", "p", "collect_paths"),
        ("g", "p", "fast_forward_paths"),
        ("f", "p", "collect_by_line"),
    ]:
        out(f"--- {method}({fname}, {pname})")
        try:
            getattr(cp, method)(filename=fname, pathsname=pname)
        except Exception as e:  # pylint: disable=W0718
            out(f"   RAISED {type(e).__name__}: {e}")
        for r in cp.results_manager.get_named_results(pname):
            out(f"   result {r.csvpath.identity}:")
            try:
                out(f"     lines: {list(r.lines.next())!r}")
            except Exception as e:  # pylint: disable=W0718
                out(f"     lines: n/a {type(e).__name__}")
            out(f"     printouts: {r.printouts!r}")
            try:
                out(f"     all printouts: {r.get_printouts()!r}")
            except Exception as e:  # pylint: disable=W0718
                out(f"     all printouts: n/a {type(e).__name__}")
            out(f"     variables: {r.csvpath.variables!r}")
            out(f"     valid: {r.csvpath.is_valid} stopped: {r.csvpath.stopped}")
            show_errors(r.errors)
        show_errors(getattr(cp, "errors", None))
    dump_archive()


if __name__ == "__main__":
    import io

    real = sys.stdout
    real_err = sys.stderr
    sys.stdout = io.StringIO()
    sys.stderr = sys.stdout
    try:
        try:
            section_a()
            section_b()
            section_c()
            section_d()
            section_e()
            out("done")
        except BaseException as e:  # pylint: disable=W0718
            out(f"DEMO ABORTED {type(e).__name__}: {e}")
            raise
    finally:
        text = sys.stdout.getvalue()
        sys.stdout = real
        sys.stderr = real_err
        sys.stdout.write(norm(text))
        sys.stdout.flush()
