#!/usr/bin/env python
"""Differential demonstration for property C02 ("the scan part selects exactly
the lines it denotes").

Run in an empty temp directory (NOT in the worktree):

    mkdir /tmp/demo && cd /tmp/demo && PYTHONPATH=<tree> /venv/bin/python demo.py > out.txt

The script is self-contained: it writes ./config/config.ini (offline, no
OpenLineage listeners), its own CSV files, and prints a deterministic
transcript of everything observable. Only features that exist at HEAD are used.
"""
import contextlib
import io
import itertools
import os
import re
import shutil
import sys

CONFIG = """[csvpath_files]
extensions = txt, csvpath, csvpaths

[csv_files]
extensions = txt, csv, tsv, dat, tab, psv, ssv

[errors]
csvpath = raise, collect, stop, fail, print
csvpaths = raise, collect

[logging]
csvpath = info
csvpaths = info
log_file = logs/csvpath.log
log_files_to_keep = 100
log_file_size = 52428800

[config]
path = config/config.ini

[cache]
path = cache

[listeners]
[marquez]
base_url = http://localhost:5000

[functions]
imports = config/functions.imports

[results]
archive = archive
transfers = transfers

[inputs]
files = inputs/named_files
csvpaths = inputs/named_paths
on_unmatched_file_fingerprints = halt
"""

for d in ("archive", "inputs", "cache", "logs", "transfers", "data", "config"):
    shutil.rmtree(d, ignore_errors=True)
os.makedirs("config")
with open("config/config.ini", "w", encoding="utf-8") as f:
    f.write(CONFIG)
with open("config/functions.imports", "w", encoding="utf-8") as f:
    f.write("")
os.makedirs("data")

from csvpath import CsvPath, CsvPaths  # noqa: E402  pylint: disable=C0413
from csvpath.scanning.scanner import Scanner  # noqa: E402  pylint: disable=C0413


def out(*a):
    print(*a)


def section(t):
    out("")
    out("=" * 70)
    out(t)
    out("=" * 70)


def captured(fn):
    """run fn, returning (result-or-exception-string, stdout)"""
    buf = io.StringIO()
    res = None
    with contextlib.redirect_stdout(buf):
        try:
            res = fn()
        except BaseException as e:  # pylint: disable=W0718
            res = f"EXC {type(e).__name__}: {e}"
    return res, buf.getvalue()


def write_file(name, records):
    """records: list of str (a CSV record as text) -- '' is a blank record"""
    path = os.path.join("data", name)
    with open(path, "w", encoding="utf-8", newline="") as fh:
        for r in records:
            fh.write(r + "\n")
    return path


def bits(fn, rng):
    """a string of 1/0 (or E for an exception) for fn(i) over rng"""
    r = []
    for i in rng:
        try:
            r.append("1" if fn(i) else "0")
        except Exception as e:  # pylint: disable=W0718
            r.append(f"E<{type(e).__name__}>")
    return "".join(r)


def raw(fn, i):
    try:
        return repr(fn(i))
    except Exception as e:  # pylint: disable=W0718
        return f"EXC {type(e).__name__}: {e}"


def scanner_state(s):
    return (
        f"from={s.from_line} to={s.to_line} all={s.all_lines} "
        f"these={s.these} filename={s.filename!r} path={s.path!r}"
    )


# ----------------------------------------------------------------------
section("1. Scanner state after parse, and includes()/is_last() truth tables")
# ----------------------------------------------------------------------

SCANS = [
    "*",
    "0*",
    "1*",
    "3*",
    "12*",
    "0",
    "1",
    "7",
    "0-0",
    "0-3",
    "1-3",
    "3-1",
    "5-2",
    "2-2",
    "0+1",
    "0+2",
    "2+0",
    "1+1",
    "1+3+5",
    "0+2-4",
    "1-2+4",
    "1-2+4-5",
    "0-1+3-4+6",
    "0+1-2+4+6-8",
    "1-3-5",
    "1+2-4-6",
    "2*+5",
    "5+2*",
    "1-3+2*",
    "*+3",
    "3+*",
    " 1 - 3 ",
    "1 + 3",
    "0+1+2+3+4+5+6+7+8+9+10",
    "10-12",
    "12-10",
    "11+12",
]


class _LM:  # a stand-in line monitor for is_last() with all_lines
    physical_end_line_number = 6


class _Host:  # a stand-in csvpath for a bare Scanner
    line_monitor = _LM()

    class logger:  # pylint: disable=C0103
        @staticmethod
        def info(*a, **k):
            pass


for scan in SCANS:
    def _do(scan=scan):
        s = Scanner(csvpath=_Host())
        s.parse(f"$data/x.csv[{scan}]")
        return s

    s, so = captured(_do)
    if isinstance(s, str):
        out(f"[{scan}] -> {s} stdout={so!r}")
        continue
    inc = bits(s.includes, range(0, 15))
    last = bits(s.is_last, range(0, 15))
    out(f"[{scan}] {scanner_state(s)}")
    out(f"     includes(0..14)={inc} is_last(0..14)={last} "
        f"includes(None)={raw(s.includes, None)} is_last(None)={raw(s.is_last, None)} stdout={so!r}")

out("")
out("-- keyword overrides on a bare scanner (from/to/all/these given explicitly)")
base = Scanner(csvpath=_Host())
OVERRIDES = [
    dict(from_line=None, to_line=None, all_lines=True, these=[]),
    dict(from_line=2, to_line=None, all_lines=True, these=[]),
    dict(from_line=0, to_line=None, all_lines=True, these=[]),
    dict(from_line=2, to_line=5, all_lines=False, these=[]),
    dict(from_line=5, to_line=2, all_lines=False, these=[]),
    dict(from_line=3, to_line=3, all_lines=False, these=[]),
    dict(from_line=None, to_line=None, all_lines=False, these=[1, 4, 2]),
    dict(from_line=None, to_line=None, all_lines=False, these=[]),
    dict(from_line=None, to_line=4, all_lines=False, these=[]),
    dict(from_line=None, to_line=4, all_lines=False, these=[7]),
    dict(from_line=3, to_line=None, all_lines=False, these=[]),
    dict(from_line=3, to_line=None, all_lines=False, these=[0, 6]),
    dict(from_line=0, to_line=0, all_lines=False, these=[]),
    dict(from_line=0, to_line=None, all_lines=False, these=[0]),
    dict(from_line=2, to_line=5, all_lines=False, these=[9]),
    dict(from_line=2, to_line=5, all_lines=True, these=[9]),
    dict(from_line=None, to_line=None, all_lines=False, these=[None, 3]),
    dict(from_line=None, to_line=None, all_lines=None, these=None),
    dict(),
    dict(from_line=-1, to_line=-1),
    dict(these=(2, 3)),
    dict(all_lines=0, these=[1]),
    dict(all_lines=1, these=[1]),
]
for kw in OVERRIDES:
    inc = bits(lambda i, kw=kw: base.includes(i, **kw), range(0, 11))
    last = bits(lambda i, kw=kw: base.is_last(i, **kw), range(0, 11))
    rinc = [raw(lambda i, kw=kw: base.includes(i, **kw), i) for i in (None, 0, 3)]
    rlast = [raw(lambda i, kw=kw: base.is_last(i, **kw), i) for i in (None, 0, 3)]
    out(f"{kw} -> includes={inc} is_last={last} raw_includes={rinc} raw_is_last={rlast}")
out(f"base scanner untouched: {scanner_state(base)}")

out("")


def _mk(scan):
    s = Scanner(csvpath=_Host())
    s.parse(f"$f[{scan}]")
    return s


out("-- odd arguments: the same exception (or answer) is expected")
for label, fn in [
    ("includes('2') on 1-3", lambda: _mk("1-3").includes("2")),
    ("includes(2.0) on 1-3", lambda: _mk("1-3").includes(2.0)),
    ("includes(True) on 1+3", lambda: _mk("1+3").includes(True)),
    ("is_last('3') on 1-3", lambda: _mk("1-3").is_last("3")),
    ("is_last(3.0) on 1+3", lambda: _mk("1+3").is_last(3.0)),
    ("includes(1, these=None-able) ", lambda: _mk("1+3").includes(1, these=None)),
    ("includes(1, these=5)", lambda: _mk("7").includes(1, these=5, from_line=None, to_line=None, all_lines=False)),
    ("is_last(1, these=5)", lambda: _mk("7").is_last(1, these=5, to_line=None, all_lines=False)),
    ("is_last(1) no host, all lines", lambda: Scanner().is_last(1, all_lines=True)),
    ("includes(-1) on *", lambda: _mk("*").includes(-1)),
    ("includes(-1) on 0-3", lambda: _mk("0-3").includes(-1)),
]:
    r, so = captured(fn)
    out(f"{label}: {r!r} stdout={so!r}")

# ----------------------------------------------------------------------
section("2. Scan parts the grammar rejects (printouts and exceptions)")
# ----------------------------------------------------------------------
BAD = ["", "-", "+", "1-", "-3", "1+", "+1", "1--3", "1++3", "a", "1.5", "*-3", "3-*",
       "1-2*", "**", "1 2", "1,2", "1-3-", "[1]", "1]", "-1"]
for scan in BAD:
    def _do(scan=scan):
        s = Scanner(csvpath=_Host())
        s.parse(f"$data/x.csv[{scan}]")
        return s

    s, so = captured(_do)
    if isinstance(s, str):
        out(f"[{scan}] -> {s}")
    else:
        out(f"[{scan}] -> parsed: {scanner_state(s)}")
    out("     stdout=" + repr(so))

for whole in ["data/x.csv[1]", "$data/x.csv[1", "$data/x.csv 1]", "$[2]", "$a b#c&d.csv[3-4]", "$x[1]\n", "$x[\n1\n+\n2]"]:
    def _do(whole=whole):
        s = Scanner(csvpath=_Host())
        s.parse(whole)
        return s

    s, so = captured(_do)
    out(f"{whole!r} -> {s if isinstance(s, str) else scanner_state(s)} stdout={so!r}")

# ----------------------------------------------------------------------
section("3. End-to-end: every blank pattern of small files x scan parts")
# ----------------------------------------------------------------------


def make_records(n, blanks):
    """n records; positions in blanks are blank records. record i is
    ragged and may hold empty values and zeros, by position."""
    recs = []
    for i in range(n):
        if i in blanks:
            recs.append("")
        elif i == 0:
            recs.append("a,b,c")
        elif i % 4 == 1:
            recs.append(f"{i},0,")
        elif i % 4 == 2:
            recs.append(f"{i}")
        elif i % 4 == 3:
            recs.append(f"{i},,x,extra")
        else:
            recs.append(f"{i},\"q,q\",z")
    return recs


def scans_for(n):
    """'*', 'N*', every a-b in either order, and '+' lists of numbers and
    forward ranges (ascending, non overlapping) with bounds 0..n+2"""
    top = n + 2
    res = ["*"]
    res += [f"{a}*" for a in range(0, top + 1)]
    res += [f"{a}" for a in range(0, top + 1)]
    res += [f"{a}-{b}" for a in range(0, top + 1) for b in range(0, top + 1)]
    # '+' lists: choose split points deterministically
    nums = list(range(0, top + 1))
    for k in (2, 3):
        for combo in itertools.combinations(nums, k):
            res.append("+".join(str(c) for c in combo))
    for a, b, c in itertools.combinations(nums, 3):
        res.append(f"{a}+{b}-{c}")
        res.append(f"{a}-{b}+{c}")
    for a, b, c, d in itertools.combinations(nums, 4):
        res.append(f"{a}-{b}+{c}-{d}")
        res.append(f"{a}+{b}-{c}+{d}")
    return res


MATCH = '[ @n = count_scans() @l = line_number() push("seen", line_number()) last() -> print("last at $.csvpath.line_number scans $.csvpath.scan_count") ]'


def run_one(path, scan, match="[yes()]", method="collect"):
    p = CsvPath()
    def _do():
        p.parse(f"${path}[{scan}]{match}")
        if method == "collect":
            return p.collect()
        if method == "next":
            return [list(_) for _ in p.next()]
        p.fast_forward()
        return None

    lines, so = captured(_do)
    lm = p.line_monitor
    return (
        f"lines={lines} scan_count={p.scan_count} match_count={p.match_count} "
        f"stopped={p.stopped} valid={p.is_valid} completed={p.completed} "
        f"pln={lm.physical_line_number if lm else None} "
        f"vars={dict(p.variables)} errors={len(p.errors) if p.errors else 0} "
        f"line_numbers={p.collect_line_numbers() if p.scanner else None} stdout={so!r}"
    )


count = 0
for n in range(0, 5):
    for k in range(0, n + 1):
        for blanks in itertools.combinations(range(n), k):
            if n == 4 and k in (2, 3) and blanks not in ((0, 3), (1, 2), (0, 1, 2), (1, 2, 3)):
                continue  # keep the transcript to a reasonable size
            name = f"n{n}_" + ("".join(str(b) for b in blanks) or "none") + ".csv"
            path = write_file(name, make_records(n, set(blanks)))
            out(f"--- file {name}: {make_records(n, set(blanks))}")
            for scan in scans_for(n):
                out(f"{name}[{scan}] " + run_one(path, scan))
                count += 1
out(f"runs: {count}")

# ----------------------------------------------------------------------
section("4. End-to-end: larger files, variables, last(), next(), fast_forward(), repeated runs")
# ----------------------------------------------------------------------
BIG = [
    ("ten_none.csv", set()),
    ("ten_first_last.csv", {0, 9}),
    ("ten_mid.csv", {3, 4, 5}),
    ("ten_alt.csv", {1, 3, 5, 7, 9}),
    ("ten_tail.csv", {7, 8, 9}),
    ("ten_all.csv", set(range(10))),
    ("seven_head.csv", {0, 1}),
]
BIG_SCANS = ["*", "0*", "4*", "9*", "10*", "12*", "0", "9", "10", "0-9", "9-0", "3-5", "5-3", "8-12",
             "12-8", "10-12", "0+9", "1+3+5", "0-2+4-6+8", "0+2-3+5+7-9", "2+4-12", "3-4+11-12",
             "0-1+3+5-6+8+10-12"]
for name, blanks in BIG:
    n = 7 if name.startswith("seven") else 10
    recs = make_records(n, blanks)
    path = write_file(name, recs)
    out(f"--- file {name}: {recs}")
    for scan in BIG_SCANS:
        out(f"{name}[{scan}] yes/collect: " + run_one(path, scan))
        out(f"{name}[{scan}] vars/collect: " + run_one(path, scan, MATCH))
        out(f"{name}[{scan}] vars/next: " + run_one(path, scan, MATCH, "next"))
        out(f"{name}[{scan}] vars/ff: " + run_one(path, scan, MATCH, "ff"))

out("")
out("-- file with no trailing newline, CRLF file, quoted multi-line record, whitespace-only record")
with open("data/nonl.csv", "w", encoding="utf-8", newline="") as fh:
    fh.write("a,b\n1,2\n\n3,4")
with open("data/crlf.csv", "w", encoding="utf-8", newline="") as fh:
    fh.write("a,b\r\n1,2\r\n\r\n3,4\r\n\r\n")
with open("data/multi.csv", "w", encoding="utf-8", newline="") as fh:
    fh.write('a,b\n"1\n\nx",2\n\n3,4\n')
with open("data/ws.csv", "w", encoding="utf-8", newline="") as fh:
    fh.write("a,b\n  \n,\n3,4\n")
with open("data/empty.csv", "w", encoding="utf-8", newline="") as fh:
    fh.write("")
for name in ("nonl.csv", "crlf.csv", "multi.csv", "ws.csv", "empty.csv"):
    for scan in ["*", "1*", "2", "3", "1-3", "3-1", "0+2", "0+2-3", "2-4", "4"]:
        out(f"{name}[{scan}] " + run_one(f"data/{name}", scan, MATCH))

out("")
out("-- other match-part features that consult the scanner: collect_when_not_matched, advance, skip, stop, nexts")
path = write_file("feat.csv", make_records(10, {2, 6}))
for scan in ["*", "2*", "1-7", "7-1", "0+3-5+8", "1+2+6+9"]:
    p = CsvPath()
    def _do():
        p.parse(f"${path}[{scan}][#0 == \"3\"]")
        p.collect_when_not_matched = True
        return p.collect()
    r, so = captured(_do)
    out(f"feat[{scan}] not-matched: {r} scans={p.scan_count} matches={p.match_count} stdout={so!r}")
    out(f"feat[{scan}] advance: " + run_one(path, scan, '[ push("l", line_number()) line_number() == 3 -> advance(2) ]'))
    out(f"feat[{scan}] skip: " + run_one(path, scan, '[ skip(line_number() == 4) push("l", line_number()) ]'))
    out(f"feat[{scan}] stop: " + run_one(path, scan, '[ push("l", line_number()) stop(line_number() == 4) ]'))
    out(f"feat[{scan}] firstscan/firstline: " + run_one(path, scan, '[ firstscan() -> @fs = line_number() firstline() -> @fl = line_number() @t = total_lines() @c = count_lines() ]'))
    p = CsvPath()
    def _do2():
        p.parse(f"${path}[{scan}][yes()]")
        return p.collect(nexts=2)
    r, so = captured(_do2)
    out(f"feat[{scan}] nexts=2: {r} scans={p.scan_count} stdout={so!r}")

out("")
out("-- the same CsvPath object asked twice, and parse-only inspection")
p = CsvPath()
p.parse("$data/feat.csv[1-3+7][yes()]")
out(f"str(scanner)={re.sub(r'0x[0-9a-f]+', '0x', str(p.scanner))}")
out(f"line_numbers={list(p.line_numbers())} collect_line_numbers={p.collect_line_numbers()}")
out(f"from_line={p.from_line} to_line={p.to_line} all_lines={p.all_lines} these={p.these} path={p.path}")
r1, so1 = captured(p.collect)
r2, so2 = captured(p.collect)
out(f"first={r1} second={r2} stdout={so1!r}/{so2!r} scans={p.scan_count}")
out(f"_collect_line_numbers variants: "
    f"{p._collect_line_numbers(these=[3,1])} {p._collect_line_numbers(from_line=4, to_line=2)} "
    f"{p._collect_line_numbers(from_line=2, to_line=4)} {p._collect_line_numbers(from_line=2, all_lines=True)} "
    f"{p._collect_line_numbers(from_line=2)} {p._collect_line_numbers(to_line=2)} {p._collect_line_numbers()}")
q = CsvPath()
r, so = captured(q.collect_line_numbers)
out(f"no scanner: {r} stdout={so!r}")

# ----------------------------------------------------------------------
section("5. Long scan parts (range expansion)")
# ----------------------------------------------------------------------
LONG = [
    "0-3000+4000",
    "5+10-2500+2600-2700",
    "0-1500-3000",
    "7+0-2000",
    "100-2000+50-150",
    "3+5+3-6+4-9",
    "2-4+3-5",
    "5-3+1",
    "5-3+4-6",
    "1-3+3-1",
]
recs = ["h1,h2"] + [f"{i},v{i}" for i in range(1, 40)]
recs[5] = ""
recs[20] = ""
path = write_file("forty.csv", recs)
for scan in LONG:
    s = Scanner(csvpath=_Host())
    r, so = captured(lambda: s.parse(f"$f[{scan}]") and None)
    t = s.these
    out(f"[{scan}] from={s.from_line} to={s.to_line} all={s.all_lines} len(these)={len(t)} "
        f"head={t[:8]} tail={t[-4:]} sum={sum(x for x in t if x is not None)} "
        f"dups={len(t) - len(set(t))} sorted={t == sorted(t)} exc={r} stdout={so!r}")
    out(f"   run: " + re.sub(r"line_numbers=\[[^\]]*\]", "line_numbers=[..]", run_one(path, scan, '[ push("l", line_number()) ]')))

# ----------------------------------------------------------------------
section("5b. Every scan expression of 1..4 terms over {0, 1, 3, 2*, *} joined by + or -")
# ----------------------------------------------------------------------
TERMS = ["0", "1", "3", "2*", "*"]
n_parsed = 0
for nterms in (1, 2, 3, 4):
    for terms in itertools.product(TERMS, repeat=nterms):
        for ops in itertools.product("+-", repeat=nterms - 1):
            scan = terms[0] + "".join(o + t for o, t in zip(ops, terms[1:]))
            s = Scanner(csvpath=_Host())
            r, so = captured(lambda s=s, scan=scan: s.parse(f"$f[{scan}]") and None)
            n_parsed += 1
            out(
                f"[{scan}] from={s.from_line} to={s.to_line} all={s.all_lines} these={s.these} "
                f"inc={bits(s.includes, range(0, 8))} last={bits(s.is_last, range(0, 8))} "
                f"exc={r} stdout={so!r}"
            )
out(f"parsed: {n_parsed}")

# ----------------------------------------------------------------------
section("6. CsvPaths: named paths over a named file; results and the archive")
# ----------------------------------------------------------------------
recs = make_records(10, {2, 9})
fpath = write_file("group.csv", recs)
out(f"group.csv: {recs}")
cp = CsvPaths()
cp.file_manager.add_named_file(name="g", path=fpath)
cp.paths_manager.add_named_paths(
    name="scans",
    paths=[
        "~id:all~ $[*][yes()]",
        "~id:from3~ $[3*][yes()]",
        "~id:one~ $[4][yes()]",
        "~id:range~ $[1-5][yes()]",
        "~id:rev~ $[5-1][yes()]",
        "~id:union~ $[0+2-4+8-11][ @n = count_scans() last() -> print(\"union last $.csvpath.line_number\") ]",
        "~id:beyond~ $[15-20][yes()]",
        "~id:blankonly~ $[2+9][yes()]",
    ],
)


for method in ("collect_paths", "fast_forward_paths", "collect_by_line"):
    def _do(method=method):
        if method == "collect_by_line":
            return [list(_) for _ in cp.collect_by_line(filename="g", pathsname="scans")]
        return getattr(cp, method)(filename="g", pathsname="scans")

    r, so = captured(_do)
    out(f"-- {method}: returned={r} stdout={so!r}")
    for res in cp.results_manager.get_named_results("scans"):
        c = res.csvpath
        out(
            f"   {c.identity}: lines={res.lines if isinstance(res.lines, list) else list(res.lines.next())} "
            f"scans={c.scan_count} matches={c.match_count} valid={c.is_valid} stopped={c.stopped} "
            f"vars={dict(c.variables)} errors={len(res.errors) if res.errors else 0} "
            f"printouts={res.get_printouts()}"
        )

out("-- archive listing (run dirs renamed RUN1.. in chronological order); contents of data.csv, unmatched.csv, printouts.txt, vars.json, errors.json")
RUN_RE = re.compile(r"^(\d{4}-\d{2}-\d{2}_\d{2}-\d{2}-\d{2})(?:[._](\d+))?$")


def run_key(name):
    m = RUN_RE.match(name)
    return (m.group(1), -1 if m.group(2) is None else int(m.group(2)))


def show_tree(top, label):
    for root, dirs, files in os.walk(top):
        dirs.sort()
        for fn in sorted(files):
            full = os.path.join(root, fn)
            rel = label + full[len(top):]
            out(f"   {rel} size={os.path.getsize(full) if fn.endswith('.csv') else '-'}")
            if fn in ("data.csv", "unmatched.csv", "printouts.txt", "vars.json", "errors.json"):
                with open(full, "r", encoding="utf-8") as fh:
                    out("      | " + repr(fh.read()))


out(f"   archive: {sorted(os.listdir('archive'))}")
rundirs = sorted((d for d in os.listdir("archive/scans") if RUN_RE.match(d)), key=run_key)
out(f"   archive/scans: {len(rundirs)} run dirs; other entries: {sorted(d for d in os.listdir('archive/scans') if not RUN_RE.match(d))}")
for n, d in enumerate(rundirs, start=1):
    show_tree(os.path.join("archive", "scans", d), f"archive/scans/RUN{n}")
out("done")
