#!/usr/bin/env python
"""Differential demonstration for property C07:
    "collect(), next() and fast_forward() are the same run".

Run it with cwd set to an (otherwise unimportant) scratch directory and with
PYTHONPATH pointing at the csvpath tree under test:

    mkdir -p /tmp/demo_TYC07_1 && cd /tmp/demo_TYC07_1
    PYTHONPATH=/tmp/wt/TYC07 /venv/bin/python demo.py > out.txt 2>err.txt

The script is self-contained: it writes its own offline ./config/config.ini
and its own data files, wipes ./archive ./inputs ./cache ./logs ./transfers
left behind by a previous run, and prints a deterministic transcript of
everything observable: returned lines, variables, counters, validity, stop
state, errors, printouts, line-monitor position, unmatched lines, and for the
CsvPaths part the listing and (normalised) contents of ./archive.
"""
import json
import os
import re
import shutil
import sys
import time

CONFIG = """[csvpath_files]
extensions = txt, csvpath, csvpaths

[csv_files]
extensions = txt, csv, tsv, dat, tab, psv, ssv

[errors]
csvpath = raise, collect, stop, fail, print
csvpaths = raise, collect

[logging]
csvpath = info
csvpaths = info
log_file = logs/csvpath.log
log_files_to_keep = 100
log_file_size = 52428800

[config]
path = config/config.ini

[cache]
path = cache

[listeners]
[marquez]
base_url = http://localhost:5000

[functions]
imports = config/functions.imports

[results]
archive = archive
transfers = transfers

[inputs]
files = inputs/named_files
csvpaths = inputs/named_paths
on_unmatched_file_fingerprints = halt
"""

FILES = {
    # ordinary file with an empty value and zeros
    "plain.csv": "a,b,c\n1,2,3\n4,,6\n0,0,0\n7,8,9\n1,5,3\n",
    # blank lines in the middle and a blank physical last line
    "blanks.csv": "a,b,c\n1,2,3\n\n4,,6\n\n\n0,0,0\n7,8,9\n\n",
    # ragged rows: short, long, single value
    "ragged.csv": "a,b,c\n1,2\n4,5,6,7\n8\n,,\n0,0,0\n",
    # header only
    "header_only.csv": "a,b,c\n",
    # no trailing newline, quoted values holding the delimiter and a newline
    "quoted.csv": 'a,b,c\n"1","x,y","3"\n"4","line\nbreak",""\n1,"""q""",0',
    # one physical line, blank
    "one_blank.csv": "\n",
    # nothing at all
    "empty.csv": "",
}

# {F} is replaced by the file name
PATHS = [
    "${F}[*][yes()]",
    "${F}[*][no()]",
    '${F}[1*][@n=count() print("n=$.variables.n line=$.csvpath.line_number") stop(@n==2)]',
    '${F}[*][skip(#0=="1") @c=count_lines() push("seen", #0)]',
    '${F}[1*][@t=count_scans() count()==1 -> advance(2) print("at $.csvpath.line_number")]',
    '${F}[*][last() -> print("last: $.csvpath.count_matches") @l=line_number()]',
    "${F}[1*][empty(#1) -> fail() @e=count_lines()]",
    '${F}[*][collect("a","c")]',
    "${F}[*][collect(0, 1) @k=count()]",
    "${F}[*][collect(3)]",
    '~ return-mode: no-matches ~ ${F}[*][#0=="1"]',
    '~ unmatched-mode: keep ~ ${F}[*][#0=="1"]',
    '~ unmatched-mode: keep ~ ${F}[*][collect(0) #0=="1"]',
    '~ validation-mode: no-raise, no-stop, print, collect ~ ${F}[1*][@x=add(#0,"q") @y=count()]',
    '~ id: raiser ~ ${F}[1*][@x=add(#0,"q")]',
    "~ run-mode: no-run ~ ${F}[*][yes()]",
    "${F}[2-4][@c=count()]",
    "${F}[1+3+5][@c=count() @ln=line_number()]",
    "${F}[3][yes()]",
    '${F}[0-3][stop(#0=="4")]',
    '~ logic-mode: OR ~ ${F}[*][#0=="1" #0=="4"]',
    '${F}[*][@c.onmatch=count() #0=="0" print.onmatch("zero at $.csvpath.line_number")]',
    '${F}[*][stop(count_lines()==3) last() -> print("never")]',
    '${F}[1*][tally(#0) @first.notnone=#1 last.nocontrib() -> print("end")]',
    '${F}[*][print_line() collect("c","a")]',
]


def norm(o):
    """json-able, order-stable rendering of anything we print"""
    if isinstance(o, dict):
        # insertion order is kept on purpose: it is observable
        return {str(k): norm(v) for k, v in o.items()}
    if isinstance(o, (list, tuple)):
        return [norm(v) for v in o]
    if isinstance(o, (str, int, float, bool)) or o is None:
        return o
    return f"<{type(o).__name__}>"


def j(o):
    return json.dumps(norm(o))


def errs(errors):
    out = []
    for e in errors or []:
        out.append(
            [
                e.message,
                e.line_count,
                e.match_count,
                e.scan_count,
                type(e.error).__name__,
                str(e.datum),
                e.filename,
            ]
        )
    return out


def state(p, tp):
    lm = p._line_monitor  # do not trigger the lazy loader
    lms = None
    if lm is not None:
        lms = [
            lm.physical_line_number,
            lm.physical_line_count,
            lm.data_line_number,
            lm.data_line_count,
            lm.physical_end_line_number,
            lm.physical_end_line_count,
            lm.data_end_line_number,
            lm.data_end_line_count,
        ]
    lines_attr = None
    if p.lines is not None:
        lines_attr = [type(p.lines).__name__, len(p.lines)]
    return {
        "variables": p.variables,
        "is_valid": p.is_valid,
        "stopped": p.stopped,
        "scan_count": p.scan_count,
        "match_count": p.match_count,
        "advance_count": p.advance_count,
        "frozen": p.is_frozen,
        "collecting": p.collecting,
        "limit": p.limit_collection_to,
        "unmatched": p.unmatched,
        "lines_attr": lines_attr,
        "printouts": tp.lines,
        "printer_last": tp.last_line,
        "errors": errs(p.errors),
        "has_errors": p.has_errors(),
        "line_monitor": lms,
        "completed": p.completed if p.scanner else None,
        "metadata": p.metadata,
        "headers": p._headers,
        "matcher": p.matcher is not None,
    }


class Bag:
    """anything with append() can be handed to collect(lines=...)"""

    def __init__(self):
        self.got = []

    def append(self, line):
        self.got.append(line)

    def __len__(self):
        return len(self.got)


def new_path():
    from csvpath import CsvPath
    from csvpath.util.printer import TestPrinter

    p = CsvPath(print_default=False)
    tp = TestPrinter()
    p.add_printer(tp)
    return p, tp


def show(label, ret, p, tp):
    print(f"  {label}")
    print(f"    returned: {j(ret)}")
    for k, v in sorted(state(p, tp).items()):
        print(f"    {k}: {j(v)}")


def run_one(path, how, **kw):
    """one fresh CsvPath, one method. returns what the method returned"""
    p, tp = new_path()
    ret = None
    try:
        p.parse(path)
        if how == "collect":
            ret = p.collect(**kw)
        elif how == "next":
            ret = []
            for line in p.next():
                # next() hands out the live line; copy it like collect() does
                ret.append(line[:])
        elif how == "fast_forward":
            ret = p.fast_forward()
    except Exception as e:  # pylint: disable=W0718
        ret = f"EXCEPTION {type(e).__name__}: {e}"
    label = how if not kw else f"{how}({', '.join(f'{k}={v}' for k, v in kw.items())})"
    show(label, ret, p, tp)
    return ret


def standalone():
    print("=" * 70)
    print("PART 1: standalone CsvPath, fresh instance per method")
    print("=" * 70)
    for fname in FILES:
        for tmpl in PATHS:
            path = tmpl.replace("{F}", fname)
            print(f"--- {path}")
            full = run_one(path, "collect")
            run_one(path, "next")
            run_one(path, "fast_forward")
            n = len(full) if isinstance(full, list) else 1
            for k in range(0, n + 2):
                run_one(path, "collect", nexts=k)


def api_edges():
    from csvpath.util.line_spooler import ListLineSpooler

    print("=" * 70)
    print("PART 2: API edges: csvpath passed to the method, bad nexts, lines=,")
    print("        early break from next(), repeated runs on one instance")
    print("=" * 70)
    path = '$plain.csv[1*][@n=count() print("n=$.variables.n") #0=="1"]'
    limited = '$ragged.csv[*][collect("a","b") @n=count()]'

    for label, pth in [("plain", path), ("limited", limited)]:
        print(f"--- {label}: {pth}")
        # csvpath string given to the method instead of parse()
        for how in ["collect", "next", "fast_forward"]:
            p, tp = new_path()
            try:
                if how == "collect":
                    ret = p.collect(pth)
                elif how == "next":
                    ret = [line[:] for line in p.next(pth)]
                else:
                    ret = p.fast_forward(pth)
            except Exception as e:  # pylint: disable=W0718
                ret = f"EXCEPTION {type(e).__name__}: {e}"
            show(f"{how}(csvpath)", ret, p, tp)
        # invalid nexts
        for bad in [-2, -100]:
            p, tp = new_path()
            try:
                ret = p.collect(pth, nexts=bad)
            except Exception as e:  # pylint: disable=W0718
                ret = f"EXCEPTION {type(e).__name__}: {e}"
            show(f"collect(csvpath, nexts={bad})", ret, p, tp)
        # nexts given but nothing parsed
        p, tp = new_path()
        try:
            ret = p.collect(nexts=1)
        except Exception as e:  # pylint: disable=W0718
            ret = f"EXCEPTION {type(e).__name__}"
        print(f"  collect(nexts=1) with nothing parsed -> {ret}")
        # caller-supplied sinks
        for sink_name in ["Bag", "ListLineSpooler", "list"]:
            p, tp = new_path()
            backing = []
            if sink_name == "Bag":
                sink = Bag()
            elif sink_name == "ListLineSpooler":
                sink = ListLineSpooler(lines=backing)
            else:
                sink = backing
            try:
                ret = p.collect(pth, lines=sink)
                same = ret is sink
                got = sink.got if sink_name == "Bag" else backing
            except Exception as e:  # pylint: disable=W0718
                ret, same, got = f"EXCEPTION {type(e).__name__}: {e}", None, backing
            show(f"collect(lines={sink_name})", got, p, tp)
            print(f"    returned_is_sink: {same}")
        # the consumer of next() walks away after the first line
        p, tp = new_path()
        ret = []
        try:
            for line in p.next(pth):
                ret.append(line[:])
                break
        except Exception as e:  # pylint: disable=W0718
            ret = f"EXCEPTION {type(e).__name__}: {e}"
        show("next() abandoned after one line", ret, p, tp)
        # mutate what collect() returned, then look again: no aliasing with the run
        p, tp = new_path()
        try:
            ret = p.collect(pth)
            for line in ret:
                line.append("MUTATED")
            ret2 = p.matcher.line if p.matcher else None
        except Exception as e:  # pylint: disable=W0718
            ret2 = f"EXCEPTION {type(e).__name__}: {e}"
        print(f"  matcher.line after mutating returned lines: {j(ret2)}")
        # repeated runs on the same instance
        for first, second in [
            ("collect", "collect"),
            ("fast_forward", "collect"),
            ("next", "fast_forward"),
            ("collect1", "collect"),
        ]:
            p, tp = new_path()
            rets = []
            try:
                p.parse(pth)
                for how in (first, second):
                    if how == "collect":
                        rets.append(p.collect())
                    elif how == "collect1":
                        rets.append(p.collect(nexts=1))
                    elif how == "next":
                        rets.append([line[:] for line in p.next()])
                    else:
                        rets.append(p.fast_forward())
            except Exception as e:  # pylint: disable=W0718
                rets.append(f"EXCEPTION {type(e).__name__}: {e}")
            show(f"same instance: {first} then {second}", rets, p, tp)


TS = re.compile(r"\d{4}-\d\d-\d\d[ T_]\d\d[-:]\d\d[-:]\d\d(\.\d+)?(\+00:00)?")
VOLATILE = {
    "time",
    "uuid",
    "named_paths_uuid",
    "run_time",
    "lines_time",
    "last_line_time",
    "run_started_at",
    "time_completed",
    "named_file_last_change",
    "at",
    "trace",
    "source",
}
# these fingerprints cover files that hold timestamps
VOLATILE_PRINTS = {"meta.json", "manifest.json", "errors.json"}


def scrub(o, runs):
    if isinstance(o, dict):
        out = {}
        for k, v in o.items():
            if k in VOLATILE:
                out[k] = "<volatile>" if v is not None else None
            elif k == "file_fingerprints" and isinstance(v, dict):
                out[k] = {
                    kk: ("<volatile>" if kk in VOLATILE_PRINTS else vv)
                    for kk, vv in v.items()
                }
            else:
                out[k] = scrub(v, runs)
        return out
    if isinstance(o, list):
        return [scrub(v, runs) for v in o]
    if isinstance(o, str):
        for real, alias in runs.items():
            o = o.replace(real, alias)
        return TS.sub("<ts>", o)
    return o


def run_key(name):
    base, _, suffix = name.partition(".")
    return (base, int(suffix) if suffix.isdigit() else -1)


def dump_archive(pathsname):
    home = os.path.join("archive", pathsname)
    if not os.path.isdir(home):
        print(f"  no archive for {pathsname}")
        return
    # longest names first so that 'X.0' is not clobbered by the alias of 'X'
    ordered = sorted(os.listdir(home), key=run_key)
    runs = {}
    for i, r in enumerate(ordered):
        runs[r] = f"<run-{i}>"
    runs = dict(sorted(runs.items(), key=lambda kv: -len(kv[0])))
    for r in ordered:
        for root, dirs, files in os.walk(os.path.join(home, r)):
            dirs.sort()
            for f in sorted(files):
                full = os.path.join(root, f)
                shown = scrub(full, runs)
                with open(full, "r", encoding="utf-8") as fh:
                    text = fh.read()
                if f.endswith(".json"):
                    text = json.dumps(scrub(json.loads(text), runs), indent=1)
                else:
                    text = scrub(text, runs)
                print(f"  FILE {shown} ({len(text)} chars)")
                for line in text.split("\n"):
                    print(f"    |{line}")


GROUPS = {
    "basic": [
        "$[*][yes()]",
        '~ id: ones ~ $[*][#a=="1" print("hit $.csvpath.line_number")]',
        '~ id: pick unmatched-mode: keep ~ $[1*][collect("c","a") @n=count() #a=="1"]',
    ],
    "control": [
        '~ id: stopper ~ $[1*][@n=count() stop(@n==2) print("n=$.variables.n")]',
        '~ id: skipper ~ $[*][skip(#a=="4") @c=count_lines()]',
        '~ id: lastly ~ $[*][last() -> print("last at $.csvpath.line_number") @l=line_number()]',
        '~ id: failer ~ $[1*][empty(#b) -> fail()]',
        '~ id: adv ~ $[1*][count()==1 -> advance(2) @s=count_scans()]',
    ],
    "nomatch": [
        "~ id: none ~ $[*][no()]",
        "~ id: off run-mode: no-run ~ $[*][yes()]",
    ],
    "errors": [
        '~ id: quiet validation-mode: no-raise, no-stop, print, collect ~ $[1*][@x=add(#a,"q") @y=count()]',
        "~ id: fine ~ $[*][@c=count()]",
    ],
}


def group_run(cp, method, pathsname, filename):
    ret = None
    try:
        if method == "collect_paths":
            ret = cp.collect_paths(pathsname=pathsname, filename=filename)
        elif method == "fast_forward_paths":
            ret = cp.fast_forward_paths(pathsname=pathsname, filename=filename)
        elif method == "next_paths":
            ret = [l[:] for l in cp.next_paths(pathsname=pathsname, filename=filename)]
        elif method == "next_paths_collect":
            ret = [
                l[:]
                for l in cp.next_paths(
                    pathsname=pathsname, filename=filename, collect=True
                )
            ]
        elif method == "collect_by_line":
            ret = cp.collect_by_line(pathsname=pathsname, filename=filename)
        elif method == "fast_forward_by_line":
            ret = cp.fast_forward_by_line(pathsname=pathsname, filename=filename)
        elif method == "next_by_line":
            ret = [
                l[:]
                for l in cp.next_by_line(
                    pathsname=pathsname, filename=filename, collect=True
                )
            ]
    except Exception as e:  # pylint: disable=W0718
        ret = f"EXCEPTION {type(e).__name__}: {e}"
    return ret


def groups():
    from csvpath import CsvPaths

    print("=" * 70)
    print("PART 3: CsvPaths runs; results and ./archive")
    print("=" * 70)
    methods = [
        "collect_paths",
        "fast_forward_paths",
        "next_paths",
        "next_paths_collect",
        "collect_by_line",
        "fast_forward_by_line",
        "next_by_line",
    ]
    for fname in ["plain.csv", "blanks.csv", "ragged.csv", "header_only.csv"]:
        for gname, paths in GROUPS.items():
            for method in methods:
                pathsname = f"{gname}_{fname.split('.')[0]}_{method}"
                print(f"--- {method} file={fname} group={gname}")
                sys.stdout.flush()
                cp = CsvPaths()
                cp.file_manager.add_named_file(name="f", path=fname)
                cp.paths_manager.add_named_paths(name=pathsname, paths=paths)
                ret = group_run(cp, method, pathsname, "f")
                print(f"  returned: {j(ret)}")
                try:
                    results = cp.results_manager.get_named_results(pathsname)
                except Exception as e:  # pylint: disable=W0718
                    results = []
                    print(f"  no results: {type(e).__name__}")
                for r in results or []:
                    p = r.csvpath
                    try:
                        lines = list(r.lines.next()) if hasattr(r.lines, "next") else r.lines
                    except Exception as e:  # pylint: disable=W0718
                        lines = f"EXCEPTION {type(e).__name__}: {e}"
                    lm = p._line_monitor
                    print(f"  result {p.identity!r}")
                    print(f"    lines: {j(lines)}")
                    print(f"    len(lines): {len(r.lines) if r.lines is not None else None}")
                    print(f"    unmatched: {j(r.unmatched)}")
                    print(f"    variables: {j(r.variables)}")
                    print(f"    printouts: {j(r.printouts)}")
                    print(f"    errors: {j(errs(r.errors))}")
                    print(f"    is_valid: {r.is_valid} stopped: {p.stopped}")
                    print(
                        f"    counts: scan={p.scan_count} match={p.match_count}"
                        f" advance={p.advance_count} frozen={p.is_frozen}"
                        f" line={lm.physical_line_number if lm else None}"
                    )
                dump_archive(pathsname)
    # the same group run twice by one CsvPaths: two run directories
    print("--- repeated: collect_paths then fast_forward_paths, same names")
    cp = CsvPaths()
    cp.file_manager.add_named_file(name="f", path="plain.csv")
    cp.paths_manager.add_named_paths(name="again", paths=GROUPS["basic"])
    print(f"  returned: {j(group_run(cp, 'collect_paths', 'again', 'f'))}")
    # run directories are named by the second; keep the two runs apart so the
    # transcript does not depend on whether they share a wall-clock second
    time.sleep(1.2)
    print(f"  returned: {j(group_run(cp, 'fast_forward_paths', 'again', 'f'))}")
    dump_archive("again")


def main():
    for d in ["archive", "inputs", "cache", "logs", "transfers", "config"]:
        shutil.rmtree(d, ignore_errors=True)
    os.makedirs("config")
    with open("config/config.ini", "w", encoding="utf-8") as f:
        f.write(CONFIG)
    with open("config/functions.imports", "w", encoding="utf-8") as f:
        f.write("")
    for name, content in FILES.items():
        with open(name, "w", encoding="utf-8", newline="") as f:
            f.write(content)
    standalone()
    api_edges()
    groups()
    print("DONE")


if __name__ == "__main__":
    main()
