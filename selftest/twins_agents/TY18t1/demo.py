"""Differential demonstration for property C18 (aborted runs leave a truthful record).

Run it in an empty scratch directory:

    mkdir /tmp/demo && cd /tmp/demo && PYTHONPATH=<csvpath tree> python demo.py

It writes ./config/config.ini itself (offline: no OpenLineage listeners), then
drives every CsvPaths run method through a matrix of abort points
(member index x line number), prints everything observable and dumps the
archive and the named-files / named-paths stores with volatile values
(timestamps, uuids, object addresses, traceback line numbers) normalised.
"""
import hashlib
import json
import os
import re
import sys

CONFIG = """[csvpath_files]
extensions = txt, csvpath, csvpaths

[csv_files]
extensions = txt, csv, tsv, dat, tab, psv, ssv

[errors]
csvpath = raise, collect, stop, fail, print
csvpaths = raise, collect

[logging]
csvpath = info
csvpaths = info
log_file = logs/csvpath.log
log_files_to_keep = 100
log_file_size = 52428800

[config]
path = config/config.ini

[cache]
path = cache

[listeners]
[marquez]
base_url = http://localhost:5000

[functions]
imports = config/functions.imports

[results]
archive = archive
transfers = transfers

[inputs]
files = inputs/named_files
csvpaths = inputs/named_paths
on_unmatched_file_fingerprints = halt
"""

if os.path.exists("archive") or os.path.exists("inputs"):
    sys.exit("run me in an empty directory")
os.makedirs("config", exist_ok=True)
with open("config/config.ini", "w", encoding="utf-8") as f:
    f.write(CONFIG)
with open("config/functions.imports", "w", encoding="utf-8") as f:
    f.write("")

from csvpath import CsvPaths  # noqa: E402  pylint: disable=C0413

# ----------------------------------------------------------------------------
# inputs
# ----------------------------------------------------------------------------

# 7 physical lines: plain, plain, blank, ragged-short, ragged-long with a zero,
# empty values, plain. No header line: headers are addressed by index.
BASE_ROWS = ["1,2,3", "4,5,6", "", "7,8", "9,0,1,2", "6,,", "5,6,7"]
POISONABLE = [0, 1, 3, 4, 5, 6]


def write_file(name, poison_line=None):
    rows = list(BASE_ROWS)
    if poison_line is not None:
        cells = rows[poison_line].split(",")
        cells[1] = "x"
        rows[poison_line] = ",".join(cells)
    with open(name, "w", encoding="utf-8") as fh:
        fh.write("\n".join(rows) + "\n")
    return name


ADDER = '~id:adder~ $[*][ @s = add(#1, 1) print("adder saw line $.csvpath.line_number") ]'
OTHERS = [
    "~id:all~ $[*][ yes() ]",
    '~ name: counter ~ $[*][ @n = count() #0 == "9" -> print("nine at $.csvpath.line_number") ]',
    "$[*][ no() ]",
]


def group(size, adder_at):
    others = list(OTHERS)
    paths = []
    for i in range(size):
        paths.append(ADDER if i == adder_at else others.pop(0))
    return paths


# ----------------------------------------------------------------------------
# normalisation
# ----------------------------------------------------------------------------

TS = r"\d{4}-\d\d-\d\d_\d\d-\d\d-\d\d(?:\.\d+)?"
VOLATILE_KEYS = {
    "time",
    "time_completed",
    "time_started",
    "uuid",
    "named_paths_uuid",
    "at",
    "run_time",
    "run",
    "named_file_last_change",
    "last_change",
    "from",
}
VOLATILE_FINGERPRINTS = {"meta.json", "errors.json"}


def run_key(name):
    t, dot, n = name.partition(".")
    return (t, int(n) if dot else -1)


def run_labels(pathsname):
    d = os.path.join("archive", pathsname)
    if not os.path.isdir(d):
        return {}
    names = sorted([n for n in os.listdir(d) if re.fullmatch(TS, n)], key=run_key)
    return {n: f"RUN{i}" for i, n in enumerate(names)}


def scrub_text(s):
    def _sub(m):
        labels = run_labels(m.group(1))
        return f"archive/{m.group(1)}/{labels.get(m.group(2), '<run?>')}"

    s = re.sub(rf"archive/(\w+)/({TS})", _sub, s)
    s = re.sub(r"0x[0-9a-fA-F]+", "0xADDR", s)
    s = s.replace(os.getcwd(), "<cwd>")
    return s


def scrub_trace(t):
    # tracebacks name source files and line numbers: keep the frames' function
    # names and the final exception line only.
    if not isinstance(t, str):
        return t
    keep = []
    for ln in t.splitlines():
        m = re.match(r'\s*File ".*[/\\]([^/\\"]+)", line \d+, in (\S+)', ln)
        if m:
            keep.append(f"{m.group(1)}:{m.group(2)}")
    last = [ln for ln in t.splitlines() if ln.strip()]
    return {"frames": len(keep) > 0, "last": last[-1] if last else ""}


def scrub(o, key=None):
    if isinstance(o, dict):
        out = {}
        for k, v in o.items():
            if k in VOLATILE_KEYS and v is not None:
                out[k] = f"<{k}>"
            elif k == "trace":
                out[k] = scrub_trace(v)
            elif k == "file_fingerprints" and isinstance(v, dict):
                out[k] = {
                    fk: ("<sha>" if fk in VOLATILE_FINGERPRINTS else fv)
                    for fk, fv in v.items()
                }
            else:
                out[k] = scrub(v, k)
        return out
    if isinstance(o, list):
        return [scrub(_, key) for _ in o]
    if isinstance(o, str):
        return scrub_text(o)
    return o


def show_file(path):
    shown = scrub_text(path)
    if path.endswith(".json"):
        try:
            with open(path, "r", encoding="utf-8") as fh:
                j = json.load(fh)
        except Exception as ex:  # pylint: disable=W0718
            print(f"    {shown}: UNREADABLE {type(ex).__name__}: {ex}")
            return
        if path.endswith("meta.json") and isinstance(j, dict):
            rd = j.get("runtime_data")
            if isinstance(rd, dict):
                for k in list(rd.keys()):
                    if "time" in k or k.endswith("_at"):
                        rd[k] = f"<{k}>"
        txt = json.dumps(scrub(j), indent=1, sort_keys=False)
        print(f"    {shown}:")
        for ln in txt.splitlines():
            print(f"      {ln}")
    else:
        with open(path, "r", encoding="utf-8") as fh:
            txt = fh.read()
        print(f"    {shown}: {txt!r}")


def dump_tree(root):
    if not os.path.exists(root):
        print(f"    {root}: <absent>")
        return
    if os.path.isfile(root):
        show_file(root)
        return
    entries = []
    for r, dirs, files in os.walk(root):
        for fn in files:
            p = os.path.join(r, fn)
            entries.append((scrub_text(p), p))
        if not dirs and not files:
            entries.append((scrub_text(r) + "/", None))
    for shown, p in sorted(entries):
        if p is None:
            print(f"    {shown} <empty dir>")
        else:
            show_file(p)


def store_digest():
    h = hashlib.sha256()
    listing = []
    for r, dirs, files in os.walk("inputs"):
        dirs.sort()
        for fn in sorted(files):
            p = os.path.join(r, fn)
            with open(p, "rb") as fh:
                b = fh.read()
            h.update(p.encode())
            h.update(b)
            listing.append(p)
    return h.hexdigest(), listing


# ----------------------------------------------------------------------------
# observation
# ----------------------------------------------------------------------------


def describe_exception(ex):
    chain = []
    e = ex
    while e is not None and len(chain) < 5:
        chain.append(f"{type(e).__name__}: {scrub_text(str(e))}")
        e = e.__cause__
    return " <- ".join(chain)


def show_results(cp, pathsname):
    try:
        results = cp.results_manager.get_named_results(pathsname)
    except Exception as ex:  # pylint: disable=W0718
        print(f"  named results: {type(ex).__name__}")
        return
    print(f"  named results: {len(results)}")
    for r in results:
        p = r.csvpath
        try:
            lines = list(r.lines.next()) if hasattr(r.lines, "next") else list(r.lines)
        except Exception as ex:  # pylint: disable=W0718
            lines = f"{type(ex).__name__}: {ex}"
        errs = [
            (e.line_count, e.match_count, e.scan_count, scrub_text(f"{e.error}"))
            for e in r.errors
        ]
        print(
            f"   - {r.identity_or_index}: valid={r.is_valid} stopped={p.stopped} "
            f"completed={p.completed} by_line={r.by_line} "
            f"line={p.line_monitor.physical_line_number if p.line_monitor else None} "
            f"matches={p.match_count} scans={p.scan_count}"
        )
        print(f"     vars={json.dumps(p.variables, sort_keys=True)}")
        print(f"     errors={errs}")
        print(f"     printouts={r.get_printouts()}")
        print(f"     lines={lines}")
        print(f"     unmatched={r.unmatched}")
    for fn in ("is_valid", "has_errors", "get_number_of_errors", "get_variables"):
        try:
            print(f"  results_manager.{fn}: {getattr(cp.results_manager, fn)(pathsname)}")
        except Exception as ex:  # pylint: disable=W0718
            print(f"  results_manager.{fn}: {type(ex).__name__}")
    print(f"  csvpaths.errors: {len(cp.errors)}")


METHODS = [
    "collect_paths",
    "fast_forward_paths",
    "next_paths",
    "next_paths_collect",
    "collect_by_line",
    "collect_by_line_agree",
    "fast_forward_by_line",
    "next_by_line",
]


def invoke(cp, method, pathsname, filename):
    """returns (returned, exception)"""
    got = []
    try:
        if method == "collect_paths":
            return cp.collect_paths(pathsname=pathsname, filename=filename), None
        if method == "fast_forward_paths":
            return cp.fast_forward_paths(pathsname=pathsname, filename=filename), None
        if method == "next_paths":
            for line in cp.next_paths(pathsname=pathsname, filename=filename):
                got.append(list(line))
            return got, None
        if method == "next_paths_collect":
            for line in cp.next_paths(
                pathsname=pathsname, filename=filename, collect=True
            ):
                got.append(list(line))
            return got, None
        if method == "collect_by_line":
            return cp.collect_by_line(pathsname=pathsname, filename=filename), None
        if method == "collect_by_line_agree":
            return (
                cp.collect_by_line(
                    pathsname=pathsname,
                    filename=filename,
                    if_all_agree=True,
                    collect_when_not_matched=True,
                ),
                None,
            )
        if method == "fast_forward_by_line":
            return (
                cp.fast_forward_by_line(pathsname=pathsname, filename=filename),
                None,
            )
        if method == "next_by_line":
            for line in cp.next_by_line(
                pathsname=pathsname, filename=filename, collect=True
            ):
                got.append(list(line))
            return got, None
        raise ValueError(method)
    except Exception as ex:  # pylint: disable=W0718
        return got, ex


COUNTER = [0]


def scenario(title, method, paths, poison_line, *, followup=True, cp=None):
    COUNTER[0] += 1
    n = COUNTER[0]
    pathsname = f"s{n}"
    print("=" * 78)
    print(f"SCENARIO {n}: {title}")
    print(f"  method={method} members={len(paths)} poison_line={poison_line}")
    for i, p in enumerate(paths):
        print(f"  path[{i}]: {p}")
    cp = CsvPaths() if cp is None else cp
    bad = write_file(f"bad{n}.csv", poison_line)
    good = write_file(f"good{n}.csv", None)
    cp.file_manager.add_named_file(name=f"bad{n}", path=bad)
    cp.file_manager.add_named_file(name=f"good{n}", path=good)
    cp.paths_manager.add_named_paths(name=pathsname, paths=paths)
    before = store_digest()
    print("  -- run 1")
    returned, ex = invoke(cp, method, pathsname, f"bad{n}")
    print(f"  returned: {returned}")
    print(f"  exception: {describe_exception(ex) if ex else None}")
    show_results(cp, pathsname)
    after = store_digest()
    print(f"  stores unchanged by run 1: {before == after}")
    if followup:
        print("  -- run 2 (same instance, clean file)")
        returned, ex = invoke(cp, method, pathsname, f"good{n}")
        print(f"  returned: {returned}")
        print(f"  exception: {describe_exception(ex) if ex else None}")
        show_results(cp, pathsname)
        print(f"  stores unchanged by run 2: {before == store_digest()}")
    print("  -- archive")
    dump_tree(os.path.join("archive", pathsname))
    return cp


def extras(methods):
    # ---- members that stop() at different lines; in breadth-first runs the
    # run ends when every member has stopped
    stoppers = [
        '~id:stop4~ $[*][ #0 == "4" -> stop() ]',
        '~id:stop7~ $[*][ @seen = count_lines() #0 == "7" -> stop() ]',
        '~id:stop4too~ $[*][ yes() #0 == "4" -> stop() ]',
    ]
    for method in methods:
        scenario("members stop at lines 1, 3, 1", method, stoppers, None, followup=False)
        scenario(
            "one member stops, one aborts later",
            method,
            [stoppers[0], ADDER],
            4,
            followup=False,
        )
        scenario(
            "all members stop on the first line",
            method,
            ["~id:a~ $[*][ stop() ]", "~id:b~ $[*][ yes() stop() ]"],
            None,
            followup=False,
        )
    # ---- run coordination: one member signals its siblings
    coordinators = [
        ('stop_all at "7"', '~id:boss~ $[*][ #0 == "7" -> stop_all() ]'),
        ('fail_all at "4"', '~id:boss~ $[*][ #0 == "4" -> fail_all() ]'),
        ('skip_all at "4"', '~id:boss~ $[*][ #0 == "4" -> skip_all() ]'),
        ('advance_all(2) at "4"', '~id:boss~ $[*][ #0 == "4" -> advance_all(2) ]'),
    ]
    for title, boss in coordinators:
        for method in methods:
            scenario(title, method, [boss, ADDER, OTHERS[0]], None, followup=False)
            scenario(
                f"{title}, then abort at line 6",
                method,
                [OTHERS[0], boss, ADDER],
                6,
                followup=False,
            )
    # ---- stand-alone CsvPath: the same error handler without a CsvPaths
    from csvpath import CsvPath  # pylint: disable=C0415

    for poison in (None, 0, 3, 6):
        for how in ("collect", "fast_forward", "next"):
            COUNTER[0] += 1
            n = COUNTER[0]
            print("=" * 78)
            print(f"SCENARIO {n}: stand-alone CsvPath.{how}, poison_line={poison}")
            fn = write_file(f"alone{n}.csv", poison)
            p = CsvPath()
            got = []
            ex = None
            try:
                p.parse(f"~id:alone~ ${fn}[*][ @s = add(#1, 1) ]")
                if how == "collect":
                    got = p.collect()
                elif how == "fast_forward":
                    p.fast_forward()
                else:
                    for line in p.next():
                        got.append(line)
            except Exception as e:  # pylint: disable=W0718
                ex = e
            print(f"  returned: {got}")
            print(f"  exception: {describe_exception(ex) if ex else None}")
            print(
                f"  valid={p.is_valid} stopped={p.stopped} completed={p.completed} "
                f"line={p.line_monitor.physical_line_number} vars={p.variables}"
            )
            for e in p.errors or []:
                print(
                    f"  error: line={e.line_count} match={e.match_count} "
                    f"scan={e.scan_count} file={e.filename} "
                    f"class={getattr(e, 'exception_class', None)} "
                    f"match_part={getattr(e, 'match', None)!r} msg={e.error}"
                )


def main(methods=None, extra=None):
    methods = METHODS if methods is None else methods
    # ---- the abort matrix: every member position in groups of 1..4, with the
    # poison line rotating through the poisonable lines so that every
    # (method, line) pair and every (size, member) pair is covered.
    k = 0
    for method in methods:
        for size in (1, 2, 3, 4):
            for member in range(size):
                line = POISONABLE[k % len(POISONABLE)]
                k += 1
                scenario(
                    f"abort at member {member} of {size}, line {line}",
                    method,
                    group(size, member),
                    line,
                    followup=(member in (0, size - 1)),
                )
        k += 1
    # ---- no abort at all: clean file, every method
    for method in methods:
        scenario("no abort", method, group(3, 1), None, followup=False)
    # ---- the error is collected but the member opts out of raising
    quiet = ADDER.replace("~id:adder~", "~id:adder validation-mode: no-raise, no-stop~")
    for method in methods:
        scenario(
            "error collected, not raised (validation-mode: no-raise, no-stop)",
            method,
            [OTHERS[0], quiet, OTHERS[1]],
            4,
            followup=False,
        )
    # ---- a member that does not parse: the abort happens while loading
    for method in methods:
        scenario(
            "member 1 of 3 does not parse",
            method,
            [OTHERS[0], "~id:broken~ $[*][ frobnicate() ]", OTHERS[1]],
            None,
            followup=True,
        )
    # ---- a member whose scan part is rejected by parse(): abort before the
    # member has started
    for method in methods:
        scenario(
            "member 1 of 3 has a bad scan part",
            method,
            [OTHERS[0], "~id:noscan~ $[x][ yes() ]", OTHERS[1]],
            None,
            followup=True,
        )
    # ---- one instance, many runs: abort, abort, clean, abort
    cp = None
    for method, line in (
        ("collect_paths", 1),
        ("next_by_line", 3),
        ("fast_forward_paths", None),
        ("collect_by_line", 6),
    ):
        cp = scenario(
            "repeated runs on one CsvPaths instance",
            method,
            group(2, 1),
            line,
            followup=True,
            cp=cp,
        )
    extras(methods)
    if extra is not None:
        extra()
    print("=" * 78)
    print("  -- archive/manifest.json entries (central run record)")
    try:
        with open("archive/manifest.json", "r", encoding="utf-8") as fh:
            j = json.load(fh)
        print(f"    entries: {len(j)}")
        for e in j[:12] + j[-4:]:
            print(f"    {json.dumps(scrub(e), sort_keys=True)}")
    except Exception as ex:  # pylint: disable=W0718
        print(f"    {type(ex).__name__}: {ex}")
    print("  -- stores")
    for p in store_digest()[1]:
        print(f"    {p}")
    print("DONE")


if __name__ == "__main__":
    main()
