#!/venv/bin/python
"""Differential demonstration for property C15 (comment metadata + mode settings;
matched/unmatched partition the file).

Usage:   PYTHONPATH=<csvpath tree> /venv/bin/python demo.py > transcript.txt
         (run it from a scratch directory, not from the source tree)

The same script serves the three changes t1, t2 and t3: it only uses features
that exist at HEAD and between them its four sections drive every function the
three changes touch --
  A: MetadataParser.extract_metadata / extract_csvpath_and_comment /
     collect_metadata on hand-written, random and property-style comments
  B: standalone CsvPath runs for every combination of return-mode,
     unmatched-mode, run-mode, print-mode and logic-mode, other files, scans,
     run methods, odd and unknown mode values, repeated runs, printer line-ups
  C: ModeController.get/set and the programmatic mode setters and getters
  D: CsvPaths runs (collect_paths, fast_forward_paths, collect_by_line) with
     the resulting ./archive listed and printed

The script is standalone: it creates a fresh temporary working directory with an
offline config/config.ini and its own data files, chdirs into it, runs everything
there and prints a deterministic transcript of everything observable (returned
lines, unmatched lines, metadata, variables, validity, errors, scan/match parts,
standard-out printouts, exceptions, archive listings and file contents with the
volatile parts -- timestamps, uuids, timings -- normalised).
"""
import contextlib
import io
import itertools
import json
import os
import random
import re
import shutil
import sys
import tempfile

ORIG_STDOUT = sys.stdout
WORK = tempfile.mkdtemp(prefix="demo_TYC15_")
os.chdir(WORK)

CONFIG = """[csvpath_files]
extensions = txt, csvpath, csvpaths

[csv_files]
extensions = txt, csv, tsv, dat, tab, psv, ssv

[errors]
csvpath = raise, collect, stop, fail, print
csvpaths = raise, collect

[logging]
csvpath = info
csvpaths = info
log_file = logs/csvpath.log
log_files_to_keep = 100
log_file_size = 52428800

[config]
path = config/config.ini

[cache]
path = cache

[listeners]
[marquez]
base_url = http://localhost:5000

[functions]
imports = config/functions.imports

[results]
archive = archive
transfers = transfers

[inputs]
files = inputs/named_files
csvpaths = inputs/named_paths
on_unmatched_file_fingerprints = halt
"""
os.makedirs("config", exist_ok=True)
with open("config/config.ini", "w", encoding="utf-8") as f:
    f.write(CONFIG)
with open("config/functions.imports", "w", encoding="utf-8") as f:
    f.write("")

FILES = {
    # blank lines, ragged rows, empty values, zeros, a trailing blank line
    "mixed.csv": "a,b,c\n1,2,3\n\n4,,6\n7,8\n0,0,0,0\n,,\n9,9,9\n\n",
    # header only
    "header.csv": "a,b,c\n",
    # no trailing newline, quoted values, a value containing the delimiter
    "quoted.csv": 'a,b,c\n"x,y",0,""\n1,"2",3\n1,2,3',
    # an empty file
    "empty.csv": "",
    # only blank lines
    "blanks.csv": "\n\n\n",
}
for name, content in FILES.items():
    with open(name, "w", encoding="utf-8") as f:
        f.write(content)

from csvpath import CsvPath, CsvPaths  # noqa: E402  pylint: disable=C0413
from csvpath.util.metadata_parser import MetadataParser  # noqa: E402
from csvpath.modes.mode_controller import ModeController  # noqa: E402


def out(*args):
    print(*args, file=ORIG_STDOUT)


def exc_str(e):
    return f"{type(e).__name__}: {e}"


def errors_str(errors):
    if errors is None:
        return None
    ret = []
    for e in errors:
        ret.append(
            (
                type(getattr(e, "error", None)).__name__,
                str(getattr(e, "error", None)),
                getattr(e, "line_count", None),
                getattr(e, "source", None).__class__.__name__,
            )
        )
    return ret


def describe_path(p):
    out("   scan      :", repr(p.scan))
    out("   match     :", repr(p.match))
    out("   metadata  :", json.dumps(p.metadata, sort_keys=False, default=str))
    out("   variables :", json.dumps(p.variables, sort_keys=False, default=str))
    out("   is_valid  :", p.is_valid, " stopped:", p.stopped)
    out("   counts    :", p.scan_count, p.match_count)
    out("   errors    :", errors_str(p.errors))
    out("   printers  :", [type(_).__name__ for _ in p.printers])
    out(
        "   settings  :",
        p.collect_when_not_matched,
        p.unmatched_available,
        p.will_run,
        p.AND,
        p.OR,
        p.explain,
        p.data_from_preceding,
        p.has_default_printer,
    )
    out(
        "   mode strs :",
        p.return_mode,
        p.unmatched_mode,
        p.run_mode,
        p.print_mode,
        p.logic_mode,
        p.explain_mode,
        p.validation_mode,
        p.source_mode,
        p.files_mode,
        p.transfer_mode,
    )
    out(
        "   validation:",
        p.print_validation_errors,
        p.raise_validation_errors,
        p.match_validation_errors,
        p.stop_on_validation_errors,
        p.fail_on_validation_errors,
        p.log_validation_errors,
    )
    out("   expected  :", p.all_expected_files)


def read_records(filename):
    """the records of the file exactly as CsvPath reads them"""
    from csvpath.util.file_readers import DataFileReader

    return [list(_) for _ in DataFileReader(filename, delimiter=",", quotechar='"').next()]


def run_standalone(csvpath, *, method="collect", verbose=True):
    """runs one csvpath in a new CsvPath and prints everything observable"""
    out(f"-- {method}: {csvpath!r}")
    p = CsvPath()
    buf = io.StringIO()
    lines = None
    try:
        with contextlib.redirect_stdout(buf):
            p.parse(csvpath)
            if method == "collect":
                lines = p.collect()
            elif method == "next":
                lines = [list(_) for _ in p.next()]
            elif method == "fast_forward":
                p.fast_forward()
            elif method == "collect3":
                lines = p.collect(nexts=3)
    except Exception as e:  # pylint: disable=W0718
        out("   EXCEPTION :", exc_str(e))
    out("   lines     :", lines)
    out("   unmatched :", p.unmatched)
    out("   stdout    :", repr(buf.getvalue()))
    if verbose:
        try:
            describe_path(p)
        except Exception as e:  # pylint: disable=W0718
            out("   DESCRIBE EXCEPTION :", exc_str(e))
    return p, lines


# =====================================================================
out("=" * 70)
out("SECTION A: MetadataParser on hand-written and generated csvpaths")
out("=" * 70)

HAND = [
    "$mixed.csv[*][yes()]",
    "~ name: one ~ $mixed.csv[*][yes()]",
    "~name:one~$mixed.csv[*][yes()]",
    "~ id: first description: a test\n of things date: 1/1/2022 ~\n$mixed.csv[1*][#a]",
    "~ When in the course of human events title: Declaration : DRAFT ~ $mixed.csv[*][yes()]",
    "~ return-mode: no-matches unmatched-mode: keep run-mode: no-run print-mode: no-default logic-mode: OR ~ $mixed.csv[*][yes()]",
    "~ free text only, no fields! (really) 100% ~ $mixed.csv[*][yes()]",
    "~~ $mixed.csv[*][yes()]",
    "~ ~ $mixed.csv[*][yes()]",
    "~ above: 1 ~ $mixed.csv[*][yes()] ~ below: 2 ~",
    "~ above: 1 ~ $mixed.csv[*][ ~ inner: comment ~ yes() ] ~ below: 2 : trailing ~",
    "$mixed.csv[*][yes()] ~ id: after ~",
    "~ a: b ~ ~ c: d ~ $mixed.csv[*][yes()]",
    "~ cost: $5 id: dollar ~ $mixed.csv[*][@x = \"$\" yes()]",
    "~ url: http://example.com/x?y=1&z=2 ~ $mixed.csv[*][yes()]",
    "~ time: 10:30:15 ~ $mixed.csv[*][yes()]",
    "~ k-1: v_1 k_2: v-2 3: three ~ $mixed.csv[*][yes()]",
    "~ key : spaced ~ $mixed.csv[*][yes()]",
    "~ key:\tvalue\twith\ttabs\r\n next:\n\nline ~ $mixed.csv[*][yes()]",
    "~ dup: 1 dup: 2 ~ $mixed.csv[*][yes()]",
    "~ unicode: café 中文: 值 ~ $mixed.csv[*][yes()]",
    "~ empty: ~ $mixed.csv[*][yes()]",
    "~ empty: next: x ~ $mixed.csv[*][yes()]",
    "~ trailing: x : ~ $mixed.csv[*][yes()]",
    "~ a:: ~ $mixed.csv[*][yes()]",
    "~ a: : ~ $mixed.csv[*][yes()]",
    "~ : lead ~ $mixed.csv[*][yes()]",
    "~ original_comment: mine ~ $mixed.csv[*][yes()]",
    "   \n ~ ws: around ~   $mixed.csv[*][yes()]   \n",
    "$mixed.csv[*][#a == \"]\" ]",
    "$mixed.csv[1-3][regex(#a, /[0-9]/)]",
    "$mixed.csv[*]",
    "$[*][yes()]",
    "~ unterminated: comment $mixed.csv[*][yes()]",
    "~ x: y ~",
    "~",
    "$",
    "",
    "   ",
    "mixed.csv[*][yes()]",
    "[*][yes()]",
    "~ id: x ~ $mixed.csv[*][yes()] trailing words",
    "~ id: x ~ $mixed.csv[*][yes()] ] extra ~ k: v ~",
]

ALPHABET = ["~", "[", "]", "$", ":", " ", "\n", "\t", "a", "b", "-", "_", "1", "0", ".", "#", "(", ")", '"', "=", "*"]


def generated(n, seed):
    r = random.Random(seed)
    ret = []
    for _ in range(n):
        k = r.randint(1, 40)
        s = "".join(r.choice(ALPHABET) for _ in range(k))
        # most have to start legally or they are rejected up front
        if r.random() < 0.8:
            s = r.choice(["~", "$"]) + s
        ret.append(s)
    return ret


def safe_comment(r):
    """free comment text and fields using any characters except ~ [ ] $"""
    chars = "abcXYZ019 -_.,;!?/\\'\"(){}<>@#%^&*+=|\n\té"
    parts = []
    for _ in range(r.randint(0, 4)):
        kind = r.random()
        if kind < 0.5:
            key = "".join(r.choice("abcXYZ019-_") for _ in range(r.randint(1, 6)))
            val = "".join(r.choice(chars) for _ in range(r.randint(0, 12)))
            parts.append(f"{key}: {val}")
        elif kind < 0.8:
            parts.append("".join(r.choice(chars) for _ in range(r.randint(0, 15))))
        else:
            parts.append(" : ")
    return " ".join(parts)


class Holder:
    """the minimum a MetadataParser instance argument needs: a metadata attribute"""

    def __init__(self, metadata=None):
        self.metadata = metadata


LOGGER_HOLDER = CsvPath()


def parser_case(s):
    out(f"-- {s!r}")
    mp = MetadataParser(LOGGER_HOLDER)
    try:
        out("   split     :", mp.extract_csvpath_and_comment(s))
    except Exception as e:  # pylint: disable=W0718
        out("   split EXC :", exc_str(e))
    for start in (None, {}, {"pre": "existing", "id": "old"}):
        h = Holder(start)
        try:
            ret = mp.extract_metadata(instance=h, csvpath=s)
            out("   extract   :", repr(ret), "|", json.dumps(h.metadata))
        except Exception as e:  # pylint: disable=W0718
            out("   extract EXC:", exc_str(e), "|", json.dumps(h.metadata))


for s in HAND:
    parser_case(s)
for s in generated(250, 15):
    parser_case(s)
r = random.Random(1515)
for _ in range(120):
    c = safe_comment(r)
    below = safe_comment(r) if r.random() < 0.3 else None
    s = f"~{c}~ $mixed.csv[*][yes()]"
    if below is not None:
        s = f"{s} ~{below}~"
    parser_case(s)
# a long comment and a csvpath with many brackets
parser_case("~ " + " ".join(f"k{i}: value {i}" for i in range(200)) + " ~ $mixed.csv[*][yes()]")
parser_case("$mixed.csv[*][" + " ".join("regex(#a, /[0-9][a-z]/)" for i in range(50)) + "]")

out("-- collect_metadata directly")
for comment in [
    "",
    " ",
    "a: b",
    "a:b c:d",
    "a: b : c",
    "no fields",
    ":",
    "a:",
    "a: 0",
    "0: a",
    "a: b\nc: d\r\ne:\tf",
    "a: b!? c-d: e_f (g) h: 'i'",
]:
    for start in (None, {}, {"a": "old", "z": "kept"}):
        h = Holder(start)
        try:
            MetadataParser(LOGGER_HOLDER).collect_metadata(h, comment)
            out(f"   {comment!r} from {start!r} ->", json.dumps(h.metadata))
        except Exception as e:  # pylint: disable=W0718
            out(f"   {comment!r} from {start!r} EXC", exc_str(e), json.dumps(h.metadata))
try:
    MetadataParser(object())
except Exception as e:  # pylint: disable=W0718
    out("   MetadataParser(object()):", exc_str(e))

# =====================================================================
out("=" * 70)
out("SECTION B: standalone CsvPath, mode settings in comments")
out("=" * 70)

BODIES = [
    '[#a=="1" print("saw $.csvpath.line_number")]',
    '[#0 #1 @n = count()]',
]
MODE_VALUES = {
    "return-mode": [None, "matches", "no-matches"],
    "unmatched-mode": [None, "keep", "no-keep"],
    "run-mode": [None, "run", "no-run"],
    "print-mode": [None, "default", "no-default"],
    "logic-mode": [None, "AND", "OR"],
}


def comment_for(combo, extra=""):
    fields = [f"{k}: {v}" for k, v in combo if v is not None]
    return " ".join(fields) + extra


def check_partition(filename, p, lines):
    """with unmatched-mode keep: collected + unmatched == the records read (a run
    may stop before the end of the file), each once, in file order"""
    if not (p.unmatched_available and p.will_run):
        return "n/a"
    records = read_records(filename)
    collected = list(lines or [])
    unmatched = list(p.unmatched or [])
    n = len(collected) + len(unmatched)
    if n > len(records):
        return f"VIOLATED: {n} lines from {len(records)} records"
    ci = ui = 0
    for rec in records[:n]:
        if ci < len(collected) and collected[ci] == rec:
            ci += 1
        elif ui < len(unmatched) and unmatched[ui] == rec:
            ui += 1
        else:
            return f"VIOLATED at record {rec}"
    return f"holds ({n} of {len(records)} records read)"


out("-- every combination of the five modes, two match parts, scan [*] on mixed.csv")
baseline = {}
for body in BODIES:
    p, lines = run_standalone(f"$mixed.csv[*]{body}", verbose=False)
    baseline[body] = (p.scan, p.match, lines)
names = list(MODE_VALUES.keys())
rr = random.Random(99)
for values in itertools.product(*[MODE_VALUES[n] for n in names]):
    combo = list(zip(names, values))
    for body in BODIES:
        extra = ""
        if rr.random() < 0.5:
            # a stand-alone colon ends the last mode field; then arbitrary
            # further fields and free text follow
            extra = " : " + safe_comment(rr)
        # HEAD raises a TypeError for two colons with no word character between
        # them (see section A); keep these comments clear of that
        c = re.sub(r":(?=[^\w\-]*:)", "", comment_for(combo, extra))
        s = f"~ {c} ~ $mixed.csv[*]{body}"
        p = CsvPath()
        buf = io.StringIO()
        lines = None
        err = None
        try:
            with contextlib.redirect_stdout(buf):
                p.parse(s)
                lines = p.collect()
        except Exception as e:  # pylint: disable=W0718
            err = exc_str(e)
        out(f"-- {s!r}")
        out("   lines     :", lines)
        out("   unmatched :", p.unmatched)
        out("   stdout    :", repr(buf.getvalue()))
        out("   metadata  :", json.dumps(p.metadata, default=str))
        out("   variables :", json.dumps(p.variables, default=str))
        out("   valid/err :", p.is_valid, p.stopped, p.scan_count, p.match_count, errors_str(p.errors), err)
        out("   parts same:", (p.scan, p.match) == baseline[body][:2])
        if err is None:
            out("   partition :", check_partition("mixed.csv", p, lines))

out("-- other files, scans and methods")
for fname in FILES:
    for scan in ["*", "1*", "0", "1-3", "2+4", "3*"]:
        for c in [
            "",
            "~ unmatched-mode: keep ~ ",
            "~ return-mode: no-matches unmatched-mode: keep id: nm ~ ",
        ]:
            p, lines = run_standalone(f'{c}${fname}[{scan}][#a=="1"]', verbose=(scan == "1*"))
            if p.scanner is not None and p.unmatched_available:
                out("   partition :", check_partition(fname, p, lines))
for method in ["next", "fast_forward", "collect3"]:
    for c in [
        "",
        "~ unmatched-mode: keep print-mode: no-default ~ ",
        "~ return-mode: no-matches unmatched-mode: keep ~ ",
        "~ run-mode: no-run unmatched-mode: keep ~ ",
    ]:
        run_standalone(f'{c}$mixed.csv[*][#b print("b is $.headers.b") last() -> print("last")]', method=method)

out("-- collect() header limiting and stop() with unmatched kept")
run_standalone('~ unmatched-mode: keep ~ $mixed.csv[*][collect(#a, #c) #a=="1"]')
run_standalone('~ unmatched-mode: keep ~ $mixed.csv[*][#a=="4" -> stop()]')
run_standalone('~ unmatched-mode: keep return-mode: no-matches ~ $mixed.csv[*][#a=="4" -> skip() #a=="7" -> fail()]')
run_standalone('~ unmatched-mode: keep ~ $mixed.csv[*][#a=="1" -> advance(2) yes()]')
run_standalone('~ validation-mode: no-raise, no-print, fail logic-mode: or ~ $mixed.csv[*][add("a", #b) #a=="1"]')
run_standalone('~ validation-mode: raise, print, stop explain-mode: explain ~ $mixed.csv[*][add("a", #b)]')
run_standalone('~ print-mode: no-default validation-mode: print, no-raise ~ $mixed.csv[*][add("a", #b)]')
run_standalone('~ id: meta-ref title: T ~ $mixed.csv[0][print("$.metadata.title/$.metadata.id/$.csvpath.identity")]')

out("-- unknown and odd mode values")
for c in [
    "return-mode: bogus",
    "return-mode: no-matches, please",
    "return-mode: Matches",
    "run-mode: never",
    "run-mode: NO-RUN",
    "print-mode: quiet",
    "print-mode:   no-default   ",
    "logic-mode: xor",
    "logic-mode: or",
    "logic-mode: And",
    "unmatched-mode: whatever",
    "unmatched-mode: no-keep thanks",
    "unmatched-mode: KEEP",
    "explain-mode: maybe",
    "source-mode: preceding",
    "files-mode: all",
    "files-mode: data, unmatched",
    "files-mode: bogus",
    "transfer-mode: data > x",
    "validation-mode: nothing",
    "return-mode: no-matches return-mode: matches",
    "Return-Mode: no-matches",
    "return-mode: unmatched-mode: keep",
]:
    run_standalone(f'~ {c} ~ $mixed.csv[*][#a=="1" print("p")]')

out("-- repeated runs of one instance and re-parse")
p = CsvPath()
for i in range(3):
    buf = io.StringIO()
    try:
        with contextlib.redirect_stdout(buf):
            if i == 0:
                p.parse('~ unmatched-mode: keep ~ $mixed.csv[*][#a=="1" print("again")]')
            lines = p.collect()
        out(f"   run {i}:", lines, p.unmatched, repr(buf.getvalue()), p.scan_count, p.match_count)
    except Exception as e:  # pylint: disable=W0718
        out(f"   run {i} EXC:", exc_str(e))
p = CsvPath()
with contextlib.redirect_stdout(io.StringIO()):
    p.parse('~ return-mode: no-matches print-mode: no-default id: first ~ $mixed.csv[*][#a=="1"]')
out("   after parse 1:", json.dumps(p.metadata), [type(_).__name__ for _ in p.printers], p.collect_when_not_matched)
with contextlib.redirect_stdout(io.StringIO()):
    p.parse('~ print-mode: default ~ $mixed.csv[*][#a=="1"]')
out("   after parse 2:", json.dumps(p.metadata), [type(_).__name__ for _ in p.printers], p.collect_when_not_matched)
with contextlib.redirect_stdout(io.StringIO()):
    p.parse('$mixed.csv[*][#a=="1"]')
out("   after parse 3:", json.dumps(p.metadata), [type(_).__name__ for _ in p.printers], p.collect_when_not_matched)
for kw in [dict(print_default=False), dict(skip_blank_lines=False), dict(delimiter=";")]:
    p = CsvPath(**kw)
    buf = io.StringIO()
    try:
        with contextlib.redirect_stdout(buf):
            p.parse('~ unmatched-mode: keep print-mode: default ~ $mixed.csv[*][#0=="1" print("kw")]')
            lines = p.collect()
        out(f"   {kw}:", lines, p.unmatched, repr(buf.getvalue()), [type(_).__name__ for _ in p.printers])
    except Exception as e:  # pylint: disable=W0718
        out(f"   {kw} EXC:", exc_str(e), [type(_).__name__ for _ in p.printers])

out("-- print-mode against different printer line-ups")
from csvpath.util.printer import Printer, StdOutPrinter  # noqa: E402  pylint: disable=C0413


class ListPrinter(Printer):
    """a non-standard-out printer that keeps what it is given"""

    def __init__(self):
        self.said = []
        self._last_line = None
        self._count = 0

    @property
    def last_line(self):
        return self._last_line

    @property
    def lines_printed(self):
        return self._count

    def print(self, string):
        self.print_to(None, string)

    def print_to(self, name, string):
        self.said.append((name, string))
        self._last_line = string
        self._count += 1


for lineup in ["none", "std", "std,std", "list", "list,std", "std,list,std"]:
    for pm in [None, "default", "no-default", " no-default", "bogus"]:
        p = CsvPath(print_default=False)
        mine = []
        for kind in lineup.split(","):
            if kind == "std":
                p.printers.append(StdOutPrinter())
            elif kind == "list":
                mine.append(ListPrinter())
                p.printers.append(mine[-1])
        c = "" if pm is None else f"~ print-mode:{pm} ~"
        buf = io.StringIO()
        try:
            with contextlib.redirect_stdout(buf):
                p.parse(f'{c} $mixed.csv[1-3][print("line $.csvpath.line_number")]')
                lines = p.collect()
            out(f"   {lineup} / {pm!r}:", [type(_).__name__ for _ in p.printers], repr(buf.getvalue()), [m.said for m in mine], len(lines), p.has_default_printer, p.last_line)
        except Exception as e:  # pylint: disable=W0718
            out(f"   {lineup} / {pm!r} EXC:", exc_str(e), [type(_).__name__ for _ in p.printers])

# =====================================================================
out("=" * 70)
out("SECTION C: programmatic mode getters and setters")
out("=" * 70)

out("   MODES:", ModeController.MODES)
p = CsvPath()
out("   fresh metadata:", json.dumps(p.metadata))
for m in ModeController.MODES + [None, "bogus-mode", "", "RETURN-MODE"]:
    try:
        out(f"   get({m!r}):", p.modes.get(m))
    except Exception as e:  # pylint: disable=W0718
        out(f"   get({m!r}) EXC:", exc_str(e))
    try:
        p2 = CsvPath()
        p2.modes.set(m, "xyz")
        out(f"   set({m!r}):", json.dumps(p2.metadata))
    except Exception as e:  # pylint: disable=W0718
        out(f"   set({m!r}) EXC:", exc_str(e))


def setter_case(label, fn):
    p = CsvPath()
    try:
        fn(p)
    except Exception as e:  # pylint: disable=W0718
        out(f"   {label} EXC:", exc_str(e))
    try:
        out(f"   {label}:", json.dumps(p.metadata, default=str), [type(_).__name__ for _ in p.printers])
        out(
            "      ->",
            p.collect_when_not_matched,
            p.unmatched_available,
            p.will_run,
            p.AND,
            p.OR,
            p.explain,
            p.data_from_preceding,
        )
    except Exception as e:  # pylint: disable=W0718
        out(f"   {label} READ EXC:", exc_str(e))


for v in [True, False, None, 0, 1, "", "yes"]:
    setter_case(f"collect_when_not_matched={v!r}", lambda p, v=v: setattr(p, "collect_when_not_matched", v))
    setter_case(f"return_mode.value={v!r}", lambda p, v=v: setattr(p.modes.return_mode, "value", v))
    setter_case(f"unmatched_available={v!r}", lambda p, v=v: setattr(p, "unmatched_available", v))
    setter_case(f"AND={v!r}", lambda p, v=v: setattr(p, "AND", v))
    setter_case(f"OR={v!r}", lambda p, v=v: setattr(p, "OR", v))
    setter_case(f"explain={v!r}", lambda p, v=v: setattr(p, "explain", v))
    setter_case(f"run_mode.value={v!r}", lambda p, v=v: setattr(p.modes.run_mode, "value", v))
    setter_case(f"print_mode.value={v!r}", lambda p, v=v: setattr(p.modes.print_mode, "value", v))
    setter_case(f"data_from_preceding={v!r}", lambda p, v=v: setattr(p, "data_from_preceding", v))
    setter_case(f"validation_mode.value={v!r}", lambda p, v=v: setattr(p.modes.validation_mode, "value", v))
    setter_case(f"will_run={v!r}", lambda p, v=v: setattr(p, "will_run", v))


def raw_metadata_case(mode, value):
    """a value put straight into the metadata and then update()d, as parse() does"""
    p = CsvPath()
    p.metadata[mode] = value
    try:
        p.update_settings_from_metadata()
        setter_case(f"metadata[{mode!r}]={value!r} update ok", lambda p2: (p2.metadata.update(p.metadata), p2.modes.update()))
    except Exception as e:  # pylint: disable=W0718
        out(f"   metadata[{mode!r}]={value!r} update EXC:", exc_str(e), json.dumps(p.metadata, default=str))


for mode in ModeController.MODES:
    for value in ["", " ", "no-matches", " no-matches ", "no-run", "no-default", "default", "or", "OR ", "keep", "no-keep", "explain", "preceding", "all", "data>x", None]:
        raw_metadata_case(mode, value)

out("-- setters used before a run")
for label, fn in [
    ("collect_when_not_matched", lambda p: setattr(p, "collect_when_not_matched", True)),
    ("unmatched_available", lambda p: setattr(p, "unmatched_available", True)),
    ("both", lambda p: (setattr(p, "collect_when_not_matched", True), setattr(p, "unmatched_available", True))),
    ("OR", lambda p: (setattr(p, "OR", True), setattr(p, "unmatched_available", True))),
    ("no-run", lambda p: setattr(p.modes.run_mode, "value", False)),
    ("no print", lambda p: setattr(p.modes.print_mode, "value", False)),
]:
    p = CsvPath()
    buf = io.StringIO()
    with contextlib.redirect_stdout(buf):
        p.parse('$mixed.csv[*][#a=="1" #b=="8" print("line $.csvpath.line_number")]')
        fn(p)
        lines = p.collect()
    out(f"   {label}:", lines, p.unmatched, repr(buf.getvalue()), json.dumps(p.metadata))

# =====================================================================
out("=" * 70)
out("SECTION D: CsvPaths runs and the archive")
out("=" * 70)

TS = re.compile(r"\d{4}-\d\d-\d\d[ T_]\d\d[:-]\d\d[:-]\d\d(\.\d+)?(\+00:00)?(_\d+)?")
UUID = re.compile(r"[0-9a-f]{8}-[0-9a-f]{4}-[0-9a-f]{4}-[0-9a-f]{4}-[0-9a-f]{12}")
TIMING = re.compile(r'"(lines_time|last_line_time)": [-0-9.e]+')
ADDRESS = re.compile(r" at 0x[0-9a-f]+>")
CTIME = re.compile(r'"named_file_last_change": "[^"]*"')
VOLATILE_PRINT = re.compile(r'"(meta\.json|manifest\.json|errors\.json)": "[0-9a-f]{64}"')


TRACE = re.compile(r'"trace": ("(?:[^"\\]|\\.)*")')


def _last_line_of_trace(m):
    # a traceback names source files and line numbers, which are not behaviour:
    # keep only its last line, the exception type and message
    trace = json.loads(m.group(1))
    last = [_ for _ in trace.splitlines() if _.strip() != ""][-1:]
    return '"trace": ' + json.dumps("<traceback> " + "".join(last))


def normalise(text):
    text = TRACE.sub(_last_line_of_trace, text)
    text = TIMING.sub(r'"\1": <t>', text)
    text = VOLATILE_PRINT.sub(r'"\1": "<fingerprint>"', text)
    text = UUID.sub("<uuid>", text)
    text = ADDRESS.sub(" at 0x<addr>>", text)
    text = CTIME.sub('"named_file_last_change": "<ctime>"', text)
    text = TS.sub("<ts>", text)
    return text.replace(WORK, "<work>")


def run_dir_key(name):
    m = re.match(r"(.*?\d\d-\d\d-\d\d)(?:_(\d+))?$", name)
    return (m.group(1), int(m.group(2) or -1)) if m else (name, -1)


def dump_tree(top):
    if not os.path.exists(top):
        out(f"   {top}: (absent)")
        return
    for root, dirs, files in os.walk(top):
        dirs.sort(key=run_dir_key)
        for fn in sorted(files):
            path = os.path.join(root, fn)
            out(f"   FILE {normalise(path)}")
            with open(path, "r", encoding="utf-8") as fh:
                for line in fh.read().splitlines():
                    out("      | " + normalise(line))


def results_summary(cp, name):
    try:
        results = cp.results_manager.get_named_results(name)
    except Exception as e:  # pylint: disable=W0718
        out("   results EXC:", exc_str(e))
        return
    for res in results:
        lines = res.lines
        try:
            lines = [list(_) for _ in lines.next()] if hasattr(lines, "next") else lines
        except Exception as e:  # pylint: disable=W0718
            lines = exc_str(e)
        out(
            "   RESULT",
            res.csvpath.identity,
            "| lines:",
            lines,
            "| unmatched:",
            res.unmatched,
            "| printouts:",
            res.printouts,
            "| valid:",
            res.is_valid,
            "| errors:",
            errors_str(res.errors),
            "| vars:",
            json.dumps(res.variables, default=str),
        )
        out("      metadata:", normalise(json.dumps(res.csvpath.metadata, default=str)))
        out("      printers:", [type(_).__name__ for _ in res.csvpath.printers], "expected:", res.csvpath.all_expected_files)


GROUPS = {
    "plain": ['$[*][yes()]', '~id:two~ $[*][#a=="4"]'],
    "modes": [
        '~ id: keepers unmatched-mode: keep ~ $[*][#a=="1" print("keepers $.csvpath.line_number")]',
        '~ id: inverse return-mode: no-matches unmatched-mode: keep files-mode: all ~ $[1*][#a=="1"]',
        '~ id: silent print-mode: no-default ~ $[*][#a=="1" print("silent")]',
        '~ id: off run-mode: no-run unmatched-mode: keep ~ $[*][#a=="1" print("off")]',
        '~ id: either logic-mode: OR description: a or b : note ~ $[*][#a=="1" #b=="8"]',
    ],
    "below": ['~ id: top ~ $[*][#a=="0"] ~ unmatched-mode: keep note: set below ~'],
    "bad": ['~ id: ok ~ $[*][yes()]', '~ id: broken return-mode: sideways ~ $[*][yes()]'],
}

for method in ["collect_paths", "fast_forward_paths", "collect_by_line"]:
    for gname, paths in GROUPS.items():
        name = f"{gname}_{method}"
        out(f"-- {method} {name}")
        cp = CsvPaths()
        buf = io.StringIO()
        try:
            with contextlib.redirect_stdout(buf):
                cp.file_manager.add_named_file(name="mixed", path="mixed.csv")
                cp.paths_manager.add_named_paths(name=name, paths=paths)
                if method == "collect_by_line":
                    cp.collect_by_line(filename="mixed", pathsname=name)
                else:
                    getattr(cp, method)(filename="mixed", pathsname=name)
        except Exception as e:  # pylint: disable=W0718
            out("   EXCEPTION :", exc_str(e))
        out("   stdout    :", repr(buf.getvalue()))
        results_summary(cp, name)
        dump_tree(os.path.join("archive", name))

out("-- a repeated run of the same named-paths")
cp = CsvPaths()
with contextlib.redirect_stdout(io.StringIO()):
    cp.file_manager.add_named_file(name="quoted", path="quoted.csv")
    cp.paths_manager.add_named_paths(
        name="twice",
        paths=['~ id: q unmatched-mode: keep return-mode: no-matches ~ $[*][#a=="1" print("q")]'],
    )
    cp.collect_paths(filename="quoted", pathsname="twice")
    cp.collect_paths(filename="quoted", pathsname="twice")
results_summary(cp, "twice")
dump_tree(os.path.join("archive", "twice"))
out("-- named paths as stored")
dump_tree(os.path.join("inputs", "named_paths"))

os.chdir("/")
shutil.rmtree(WORK, ignore_errors=True)
out("done")
