# ---------------------------------------------------------------------------
# shared demo scaffolding (inlined into every demo.py so each is standalone)
# ---------------------------------------------------------------------------
import contextlib
import io
import json
import os
import random
import re
import shutil
import sys
import traceback

CONFIG_INI = """[csvpath_files]
extensions = txt, csvpath, csvpaths

[csv_files]
extensions = txt, csv, tsv, dat, tab, psv, ssv

[errors]
csvpath = raise, collect, stop, fail, print
csvpaths = raise, collect

[logging]
csvpath = info
csvpaths = info
log_file = logs/csvpath.log
log_files_to_keep = 100
log_file_size = 52428800

[config]
path = config/config.ini

[cache]
path = cache

[listeners]
[marquez]
base_url = http://localhost:5000

[functions]
imports = config/functions.imports

[results]
archive = archive
transfers = transfers

[inputs]
files = inputs/named_files
csvpaths = inputs/named_paths
on_unmatched_file_fingerprints = halt
"""

DATA = {
    # blank line in the middle, ragged rows, empty values, zero, blank last line
    "f.csv": 'a,b,c\n1,2,3\n\n4,,6\n7,8\n0,0,0\n"x y", z ,\n9,10,11,12\n\n',
    # header names with spaces and dots need quoting in a csvpath
    "g.csv": "First Name,Last.Name,n\nAda,Lovelace,1\nAlan,Turing,0\n,,\nGrace,Hopper,-2.5\n",
    # only a header line
    "h.csv": "a,b,c\n",
    # no lines at all
    "e.csv": "",
}

CWD = os.getcwd()


def prepare_workdir():
    """the demo runs in the current directory, which must be a scratch dir"""
    #
    # lark reports the terminals it expected in set order. pin the string hash
    # seed so that such messages (which also end up in printouts and their
    # fingerprints) are the same in every process.
    #
    if os.environ.get("PYTHONHASHSEED") != "0":
        env = dict(os.environ)
        env["PYTHONHASHSEED"] = "0"
        sys.stdout.flush()
        os.execve(sys.executable, [sys.executable] + sys.argv, env)
    if os.path.exists(os.path.join(CWD, "csvpath", "__init__.py")):
        raise SystemExit("run this demo in a scratch directory, not in a source tree")
    for d in ["archive", "inputs", "cache", "logs", "transfers", "config", "saved"]:
        shutil.rmtree(os.path.join(CWD, d), ignore_errors=True)
    os.makedirs("config")
    with open("config/config.ini", "w", encoding="utf-8") as f:
        f.write(CONFIG_INI)
    with open("config/functions.imports", "w", encoding="utf-8") as f:
        f.write("")
    for name, text in DATA.items():
        with open(name, "w", encoding="utf-8", newline="") as f:
            f.write(text)


_TRANSCRIPT = sys.stdout


def out(*args):
    # always to the transcript, also while the library's own printing is captured
    _TRANSCRIPT.write(" ".join(f"{a}" for a in args) + "\n")


_TS = [
    (re.compile(r"\d{4}-\d{2}-\d{2}[ T_]\d{2}[:-]\d{2}[:-]\d{2}(\.\d+)?(\+00:00)?(_\d+)?"), "<TIME>"),
    (re.compile(r"[0-9a-f]{8}-[0-9a-f]{4}-[0-9a-f]{4}-[0-9a-f]{4}-[0-9a-f]{12}"), "<UUID>"),
]


def _sort_expected(s: str) -> str:
    """lark lists the terminals it expected in set order, which changes from
    process to process. sort each run of such lines."""
    lines = s.split("\n")
    ret = []
    run = []
    for line in lines:
        if line.startswith("\t* "):
            run.append(line)
            continue
        ret += sorted(run)
        run = []
        ret.append(line)
    ret += sorted(run)
    return "\n".join(ret)


def norm(s) -> str:
    s = f"{s}"
    s = s.replace(CWD, "<CWD>")
    for rx, rep in _TS:
        s = rx.sub(rep, s)
    s = re.sub(r" at 0x[0-9a-fA-F]+", " at 0x<ADDR>", s)
    if "\t* " in s:
        s = _sort_expected(s)
    return s


def show_exception(e) -> str:
    msg = norm(e)
    # lark messages are long and multi-line. keep them whole, they are deterministic.
    return f"{type(e).__name__}: {msg}"


def dump_node(n, depth=0, lines=None):
    """prints everything the property talks about: kind, name, qualifiers,
    operator, argument order and literal values (with their python type)"""
    if lines is None:
        lines = []
    pad = "  " * depth
    if n is None:
        lines.append(f"{pad}None")
        return lines
    kind = type(n).__name__
    bits = [kind]
    if getattr(n, "name", None) is not None:
        bits.append(f"name={n.name!r}")
    if getattr(n, "qualified_name", None) is not None:
        bits.append(f"qname={n.qualified_name!r}")
    if getattr(n, "qualifiers", None):
        bits.append(f"quals={n.qualifiers!r}")
    if getattr(n, "qualifier", None) is not None:
        bits.append(f"qual={n.qualifier!r}")
    if hasattr(n, "op"):
        bits.append(f"op={n.op!r}")
    if kind == "Term":
        bits.append(f"value={type(n.value).__name__}:{n.value!r}")
    if kind == "Reference":
        bits.append(f"parts={n.name_parts!r}")
    par = n.parent
    bits.append(f"parent={type(par).__name__ if par is not None else None}")
    lines.append(pad + " ".join(bits))
    for c in n.children:
        dump_node(c, depth + 1, lines)
    return lines


def dump_matcher(m) -> str:
    lines = []
    if m is None:
        return "  <no matcher>"
    for i, et in enumerate(m.expressions):
        lines.append(f"  expression[{i}] vote={et[1]!r}")
        dump_node(et[0], 2, lines)
    return "\n".join(lines)


def show_errors(errors) -> str:
    if not errors:
        return f"{errors!r}"
    ret = []
    for e in errors:
        ret.append(
            norm(
                f"(line={e.line_count} scan={e.scan_count} match={e.match_count} "
                f"error={type(e.error).__name__}:{e.error} message={e.message!r} source={e.source})"
            )
        )
    return "[" + ", ".join(ret) + "]"


def sorted_vars(v):
    try:
        return json.dumps(v, sort_keys=True, default=str)
    except TypeError:
        return repr(v)


def run_standalone(label, csvpath, how="collect", tree=True, **kwargs):
    """parse + run one csvpath with a standalone CsvPath and print all that
    can be observed afterwards"""
    from csvpath import CsvPath

    out(f"--- {label} [{how}]")
    out("csvpath:", repr(csvpath))
    buf = io.StringIO()
    p = None
    lines = None
    exc = None
    with contextlib.redirect_stdout(buf):
        try:
            p = CsvPath(**kwargs)
            p.parse(csvpath)
            if how == "collect":
                lines = p.collect()
            elif how == "fast_forward":
                p.fast_forward()
            elif how == "next":
                lines = []
                for line in p.next():
                    lines.append(list(line))
            elif how == "collect2":
                lines = p.collect(nexts=2)
            elif how == "parse":
                pass
        except Exception as e:  # pylint: disable=W0718
            exc = e
    if exc is not None:
        out("raised:", show_exception(exc))
    if p is not None:
        out("scan:", repr(p.scan), "match:", repr(p.match))
        out("metadata:", sorted_vars(p.metadata))
        out("lines:", repr(lines))
        out("variables:", norm(sorted_vars(p.variables)))
        out(
            "is_valid:", p.is_valid, "stopped:", p.stopped,
            "scan_count:", p.scan_count, "match_count:", p.match_count,
        )
        out("errors:", show_errors(p.errors))
        if p.unmatched is not None:
            out("unmatched:", repr(p.unmatched))
        if tree and p.matcher is not None:
            out("tree after run:")
            out(dump_matcher(p.matcher))
    printed = buf.getvalue()
    out("printed:", repr(norm(printed)))
    return p


def parse_tree(label, csvpath):
    """the component tree only, no run"""
    from csvpath import CsvPath

    out(f"--- {label} [tree]")
    out("csvpath:", repr(csvpath))
    buf = io.StringIO()
    with contextlib.redirect_stdout(buf):
        try:
            p = CsvPath()
            m = p.parse(csvpath, disposably=True)
            res = dump_matcher(m)
            meta = sorted_vars(p.metadata)
            parts = f"scan: {p.scan!r} match: {p.match!r}"
        except Exception as e:  # pylint: disable=W0718
            res = "raised: " + show_exception(e)
            meta = None
            parts = None
    out(res)
    if parts is not None:
        out(parts)
        out("metadata:", meta)
    if buf.getvalue():
        out("printed:", repr(norm(buf.getvalue())))
    return res


_REDACT_KEYS = {
    "time", "uuid", "named_paths_uuid", "time_completed", "run_time", "run_started_at",
    "lines_time", "last_line_time", "trace", "at", "run", "named_file_last_change",
}
_TIME_DEPENDENT_FILES = {"meta.json", "errors.json", "manifest.json"}


def _redact(o, parent_key=None):
    if isinstance(o, dict):
        ret = {}
        for k, v in o.items():
            if k in _REDACT_KEYS:
                ret[k] = "<REDACTED>" if v is not None else None
            elif parent_key == "file_fingerprints" and k in _TIME_DEPENDENT_FILES:
                ret[k] = "<REDACTED>"
            else:
                ret[k] = _redact(v, k)
        return ret
    if isinstance(o, list):
        return [_redact(_, parent_key) for _ in o]
    if isinstance(o, str):
        return norm(o)
    return o


def dump_dir(root):
    """lists and prints every file under root with run-directory timestamps,
    uuids and timings normalised"""
    if not os.path.exists(root):
        out(f"<{root} does not exist>")
        return
    entries = []
    for base, dirs, files in os.walk(root):
        dirs.sort()
        for f in sorted(files):
            entries.append(os.path.join(base, f))
    named = sorted((norm(e), e) for e in entries)
    for shown, real in named:
        out(f"== {shown}")
        with open(real, "r", encoding="utf-8") as fh:
            text = fh.read()
        if real.endswith(".json"):
            try:
                j = json.loads(text)
                out(json.dumps(_redact(j), indent=1, sort_keys=True))
                continue
            except ValueError:
                pass
        out(norm(text))


def run_group(label, paths, filename="f", datafile="f.csv", how="collect", pathsname=None):
    from csvpath import CsvPaths

    pathsname = pathsname or re.sub(r"\W", "_", label)
    out(f"--- {label} [group {how}] paths={paths!r}")
    buf = io.StringIO()
    exc = None
    cp = None
    with contextlib.redirect_stdout(buf):
        try:
            cp = CsvPaths()
            cp.file_manager.add_named_file(name=filename, path=datafile)
            cp.paths_manager.add_named_paths(name=pathsname, paths=paths)
            if how == "collect":
                cp.collect_paths(filename=filename, pathsname=pathsname)
            elif how == "fast_forward":
                cp.fast_forward_paths(filename=filename, pathsname=pathsname)
            elif how == "by_line":
                cp.collect_by_line(filename=filename, pathsname=pathsname)
        except Exception as e:  # pylint: disable=W0718
            exc = e
    if exc is not None:
        out("raised:", show_exception(exc))
    if cp is not None:
        try:
            rs = cp.results_manager.get_named_results(pathsname)
        except Exception as e:  # pylint: disable=W0718
            rs = None
            out("no results:", show_exception(e))
        for r in rs or []:
            c = r.csvpath
            out(" result identity:", repr(c.identity))
            out("  scan:", norm(repr(c.scan)), "match:", repr(c.match))
            out("  metadata:", sorted_vars(c.metadata))
            try:
                ls = r.lines
                ls = list(ls.next()) if hasattr(ls, "next") else ls
            except Exception as e:  # pylint: disable=W0718
                ls = show_exception(e)
            out("  lines:", repr(ls))
            out("  variables:", sorted_vars(r.variables))
            out("  is_valid:", c.is_valid, "stopped:", c.stopped, "errors:", show_errors(r.errors))
            out("  printouts:", repr(r.printouts if hasattr(r, "printouts") else None))
    out("printed:", repr(norm(buf.getvalue())))
    return cp


# ---------------------------------------------------------------------------
# t2 demo: CsvPath.parse (disposable and regular) and
# CsvPath._find_scan_and_match_parts, and what is built on them
# ---------------------------------------------------------------------------
def state_of(p) -> str:
    sc = p.scanner
    scanner = None
    if sc is not None:
        scanner = (
            f"filename={sc.filename!r} from={sc.from_line!r} to={sc.to_line!r} "
            f"all={sc.all_lines!r} these={sc.these!r} path={sc.path!r}"
        )
    lm = p._line_monitor  # pylint: disable=W0212
    lms = None
    if lm is not None:
        lms = f"end={lm.physical_end_line_number!r} data_end={lm.data_end_line_number!r}"
    return (
        f"scan={p.scan!r} match={p.match!r} scanner=({scanner}) matcher={'set' if p.matcher else None} "
        f"headers={p._headers!r} line_monitor=({lms}) metadata={sorted_vars(p.metadata)}"  # pylint: disable=W0212
    )


SPLIT_CASES = [
    None,
    0,
    17,
    b"$f.csv[*][yes()]",
    ["$f.csv[*][yes()]"],
    "",
    " ",
    "\n",
    "$f.csv[*][yes()]",
    "  $f.csv[*][yes()]  ",
    "\n$f.csv[*]\n[yes()]\n",
    "$f.csv[*] \t [ yes() ] ",
    "$f.csv[*][]",
    "$f.csv[*][ ]",
    "$f.csv[*]",
    "$f.csv[*] ",
    "$f.csv[*]]",
    "$f.csv[*]x",
    "$f.csv[*] yes()]",
    "$f.csv[*][",
    "$f.csv[*][yes()",
    "$f.csv[*][yes()] x",
    "$f.csv[*][yes()]]",
    "$f.csv[*][yes()][no()]",
    "$f.csv[*][print(\"]\")]",
    "$f.csv[*][regex(#a, /[a-z]/)]",
    "$f.csv",
    "$f.csv[",
    "]",
    "][",
    "][]",
    "] [ ]",
    "]]",
    "[]",
    "[][]",
    "$[1][~ c ~]",
    "~ c ~ $f.csv[*][yes()]",
    "$f.csv[1+2+3][#a]",
    "$f.csv[1-3][#a]\n\n",
]


def section_split():
    from csvpath import CsvPath

    out("##### 1. _find_scan_and_match_parts on hand-written inputs")
    for c in SPLIT_CASES:
        p = CsvPath()
        try:
            r = p._find_scan_and_match_parts(c)  # pylint: disable=W0212
        except Exception as e:  # pylint: disable=W0718
            r = show_exception(e)
        out(repr(c), "=>", repr(r), "| scan/match attrs untouched:", repr(p.scan), repr(p.match))

    out("##### 2. the same on 3000 generated strings (fixed seed)")
    rnd = random.Random(2717)
    alphabet = ["[", "]", "$", "a", " ", "\n", "*", "]", "[", "y", "(", ")"]
    p = CsvPath()
    for i in range(3000):
        n = rnd.randint(0, 16)
        s = "".join(rnd.choice(alphabet) for _ in range(n))
        try:
            r = p._find_scan_and_match_parts(s)  # pylint: disable=W0212
        except Exception as e:  # pylint: disable=W0718
            r = show_exception(e)
        out(i, repr(s), "=>", repr(r))

    out("##### 3. saving the parts: _save_scan_dir, _save_match_dir, _run_name")
    os.makedirs("saved/scan", exist_ok=True)
    os.makedirs("saved/match", exist_ok=True)
    combos = [
        ("saved/scan", "saved/match", "both"),
        ("saved/scan", None, "scanonly"),
        (None, "saved/match", "matchonly"),
        ("saved/scan", "saved/match", None),
        ("saved/nowhere", "saved/match", "baddir"),
    ]
    for sd, md, rn in combos:
        p = CsvPath()
        p._save_scan_dir = sd  # pylint: disable=W0212
        p._save_match_dir = md  # pylint: disable=W0212
        p._run_name = rn  # pylint: disable=W0212
        for text in ["  $f.csv[1*]  [ yes()\n no() ] ", "$f.csv[*]", "$f.csv[*][x", "~ c ~ $f.csv[2][ #a ]"]:
            try:
                r = p._find_scan_and_match_parts(text)  # pylint: disable=W0212
            except Exception as e:  # pylint: disable=W0718
                r = show_exception(e)
            out((sd, md, rn), repr(text), "=>", repr(r))
        # the whole parse also saves
        try:
            p.parse("~ id: s ~ $f.csv[0-1][ @a = #a ]")
            out((sd, md, rn), "parse ok:", state_of(p))
        except Exception as e:  # pylint: disable=W0718
            out((sd, md, rn), "parse raised:", show_exception(e), state_of(p))
    dump_dir("saved")


PARSE_CASES = [
    "$f.csv[*][yes()]",
    "  $f.csv[1*]\n[\n  @a = #a\n  #b\n]\n",
    "~ name: n description: d ~ $f.csv[1-3][ ~ inner ~ @a.onmatch = count() not(#b == \"\") ]",
    "$f.csv[2+4+6][ above(#a, 3) -> print(\"$.csvpath.line_number\") ] ~ trailing: yes ~",
    "$g.csv[1*][ #\"First Name\" @ln = #\"Last.Name\" ]",
    "$[*][yes()]",
    "$missing.csv[*][yes()]",
    "$e.csv[*][yes()]",
    "$h.csv[*][yes()]",
    "$f.csv[*][nosuchfunction()]",
    "$f.csv[*][yes() ~ unterminated ]",
    "$f.csv[*][@a = ]",
    "$f.csv[*][]",
    "$f.csv[*][ ]",
    "$f.csv[*][ ~ only a comment ~ ]",
    "$f.csv[nonsense][yes()]",
    "$f.csv[*]",
    "$f.csv[*][",
    "$f.csv[*][yes()] x",
    "f.csv[*][yes()]",
    "",
    None,
    "$f.csv[*][ add(\"five\") ]",
    "$f.csv[*][ import(\"nothing\") ]",
    "~ validation-mode: no-raise, print ~ $f.csv[*][ add(\"five\") ]",
]


def section_parse():
    from csvpath import CsvPath
    from csvpath.matching.matcher import Matcher

    out("##### 4. parse(csvpath) and parse(csvpath, disposably=True): return value and instance state")
    for c in PARSE_CASES:
        for disposably in [False, True, 0, 1, None, "yes"]:
            out(f"--- parse({c!r}, disposably={disposably!r})")
            p = CsvPath()
            buf = io.StringIO()
            r = None
            with contextlib.redirect_stdout(buf):
                try:
                    r = p.parse(c, disposably=disposably)
                    ret = (
                        "self" if r is p else "Matcher" if isinstance(r, Matcher) else repr(r)
                    )
                except Exception as e:  # pylint: disable=W0718
                    ret = "raised " + show_exception(e)
            out("returned:", ret)
            out("state:", norm(state_of(p)))
            out("errors:", show_errors(p.errors), "is_valid:", p.is_valid)
            if isinstance(r, Matcher):
                out(dump_matcher(r))
                out("matcher.csvpath is p:", r.csvpath is p, "line:", r.line, "path:", repr(r.path))
            if buf.getvalue():
                out("printed:", repr(norm(buf.getvalue())))

    out("##### 5. a disposable parse in the middle of the life of an instance")
    p = CsvPath()
    buf = io.StringIO()
    with contextlib.redirect_stdout(buf):
        p.parse("~ id: real ~ $f.csv[1*][ @n = count() #b ]")
        out("after parse:", state_of(p))
        m = p.parse("~ id: other ~ $g.csv[2][ @zz = #n ]", disposably=True)
        out("after disposable parse:", state_of(p))
        out(dump_matcher(m))
        try:
            lines = p.collect()
        except Exception as e:  # pylint: disable=W0718
            lines = show_exception(e)
        out("collect after disposable parse:", lines, sorted_vars(p.variables))
        out("state:", state_of(p))
        # and a regular parse again, then a second run
        p2 = CsvPath()
        p2.parse("$f.csv[1-2][ #a ]")
        l1 = p2.collect()
        p2.parse("$g.csv[1*][ #n ]")
        out("second parse on one instance:", l1, state_of(p2))
        try:
            l2 = p2.collect()
        except Exception as e:  # pylint: disable=W0718
            l2 = show_exception(e)
        out("second run:", l2)
    out("printed:", repr(norm(buf.getvalue())))


RUN_PATHS = [
    ("$f.csv[*]", ["yes()"]),
    ("$f.csv[1*]", ["@n.onmatch = count()", 'not(#b == "")']),
    ("$f.csv[1*]", ['above(#0, 3) -> print("big: $.headers.a in $.csvpath.line_number")', "@z = 0"]),
    ("$g.csv[1*]", ['#"First Name"', '@ln = #"Last.Name"', "@n = add(#n, -2.5)"]),
    ("$f.csv[*]", ['last() -> print("done $.csvpath.count_lines")', "@c = count_lines()"]),
    ("$f.csv[1*]", ["regex(#a, /^[0-9]+$/)", 'or(empty(#b), in(#c, "6|11"))']),
]


def section_runs():
    out("##### 6. runs of csvpaths in different layouts")
    rnd = random.Random(7)
    for i, (scan, comps) in enumerate(RUN_PATHS):
        variants = [
            f"{scan}[{' '.join(comps)}]",
            f"\n  {scan}\n  [\n    " + "\n    ".join(comps) + "\n  ]\n",
            f"{scan} [ ~ one ~ " + " ~ two ~ ".join(comps) + " ]",
            f"~ outer comment ~ {scan}[" + "\t".join(comps) + "] ~ and after ~",
        ]
        seps = [rnd.choice([" ", "\n", "  ", " ~ c ~ "]) for _ in comps]
        variants.append(f"{scan}[" + "".join(s + c for s, c in zip(seps, comps)) + "]")
        for j, v in enumerate(variants):
            how = ["collect", "next", "fast_forward", "collect2"][j % 4]
            parse_tree(f"run/{i}/{j}", v)
            run_standalone(f"run/{i}/{j}", v, how=how, tree=False)
        # not skipping blank lines, other delimiter
        run_standalone(f"run/{i}/noskip", variants[0], how="collect", tree=False, skip_blank_lines=False)
        run_standalone(f"run/{i}/pipes", variants[1], how="collect", tree=False, delimiter="|")


def section_group():
    out("##### 7. CsvPaths: import() parses the imported csvpath disposably")
    from csvpath import CsvPaths

    buf = io.StringIO()
    with contextlib.redirect_stdout(buf):
        cp = CsvPaths()
        cp.file_manager.add_named_file(name="f", path="f.csv")
        cp.paths_manager.add_named_paths(
            name="lib",
            paths=['~ id: checks ~ $[*][ @imported = "yes" print("imported rule on $.csvpath.line_number") ]'],
        )
        cp.paths_manager.add_named_paths(
            name="main",
            paths=[
                '~ id: importer ~ $[1-2][ import("lib") @own = #a ]',
                '~ id: plain ~\n$[1*][\n  ~ c ~ #b\n  @b = #b ]',
                '$[0][ yes() ] ~ id: trailing ~',
            ],
        )
        try:
            cp.collect_paths(filename="f", pathsname="main")
        except Exception as e:  # pylint: disable=W0718
            out("raised:", show_exception(e))
        for r in cp.results_manager.get_named_results("main"):
            c = r.csvpath
            out(" result identity:", repr(c.identity))
            out("  scan:", norm(repr(c.scan)), "match:", repr(c.match))
            out("  lines:", repr(list(r.lines.next()) if hasattr(r.lines, "next") else r.lines))
            out("  variables:", sorted_vars(r.variables))
            out("  is_valid:", c.is_valid, "errors:", show_errors(r.errors), "printouts:", r.printouts)
            out(dump_matcher(c.matcher))
        # parse_named_path directly
        c = cp.csvpath()
        try:
            m = c.parse_named_path("lib", disposably=True)
            out("parse_named_path disposably:", type(m).__name__)
            out(dump_matcher(m))
            out("owner state:", state_of(c))
            out("parse_named_path regular:", c.parse_named_path("main", disposably=False, specific="plain"))
        except Exception as e:  # pylint: disable=W0718
            out("parse_named_path raised:", show_exception(e))
    out("printed:", repr(norm(buf.getvalue())))
    run_group("grp bad scan", ["~ id: nomatch ~ $[*]", "$[*][yes()]"])
    run_group("grp by line", ['~ id: a ~ $[*][ @c = count() ]', '$[1*][ #b ] ~ id: b ~'], how="by_line")
    dump_dir("archive")


if __name__ == "__main__":
    prepare_workdir()
    section_split()
    section_parse()
    section_runs()
    section_group()
    out("##### done")
