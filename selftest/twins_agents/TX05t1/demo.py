#!/usr/bin/env python
"""Differential demonstration for property C05 (error policy handling).

Run with cwd = an empty scratch directory and PYTHONPATH = the csvpath tree
under test.  The script is self-contained: it (re)creates ./config/config.ini,
the CSV inputs and wipes ./archive ./inputs ./cache ./logs ./transfers before it
starts, then prints a deterministic transcript of everything observable.

Normalisations (things that are not behaviour of the library under study):
  * run directory names / timestamps / uuids / fingerprints in the archive
  * the `at` timestamp of Error objects
  * Error.trace: the text produced by traceback.format_exc() embeds absolute
    source paths and source line numbers of the csvpath package itself, which
    change with *any* edit of a file on the traceback path.  We keep the frames,
    the function names, the source text of each frame and the final exception
    line, and only rewrite `File "<abs>/csvpath/...", line <n>` to
    `File "csvpath/...", line N`.
"""
import io
import itertools
import json
import os
import re
import shutil
import sys
import types

CONFIG_TMPL = """[csvpath_files]
extensions = txt, csvpath, csvpaths

[csv_files]
extensions = txt, csv, tsv, dat, tab, psv, ssv

[errors]
csvpath = {csvpath}
csvpaths = {csvpaths}

[logging]
csvpath = info
csvpaths = info
log_file = logs/csvpath.log
log_files_to_keep = 100
log_file_size = 52428800

[config]
path = config/config.ini

[cache]
path = cache

[listeners]
[marquez]
base_url = http://localhost:5000

[functions]
imports = config/functions.imports

[results]
archive = archive
transfers = transfers

[inputs]
files = inputs/named_files
csvpaths = inputs/named_paths
on_unmatched_file_fingerprints = halt
"""

F_CSV = "a,b,c\n1,2,3\n4,0,x\n\n7,,9\n10,5\n0,0,0\n"
# error on the first data line, ragged + empty values, blank LAST line
G_CSV = "a,b,c\nx,0,1\n2,1,\n3,3,3\n\n"
# header only / empty-ish
H_CSV = "a,b,c\n"


def write_config(csvpath="raise, collect, stop, fail, print", csvpaths="raise, collect"):
    os.makedirs("config", exist_ok=True)
    with open("config/config.ini", "w", encoding="utf-8") as f:
        f.write(CONFIG_TMPL.format(csvpath=csvpath, csvpaths=csvpaths))
    with open("config/functions.imports", "w", encoding="utf-8") as f:
        f.write("")


def setup():
    for d in ("archive", "inputs", "cache", "logs", "transfers", "config"):
        shutil.rmtree(d, ignore_errors=True)
    write_config()
    for name, text in (("f.csv", F_CSV), ("g.csv", G_CSV), ("h.csv", H_CSV)):
        with open(name, "w", encoding="utf-8") as f:
            f.write(text)


setup()

from csvpath import CsvPath, CsvPaths  # noqa: E402
from csvpath.util.config import Config, OnError  # noqa: E402
from csvpath.util.error import (  # noqa: E402
    Error,
    ErrorHandler,
    ErrorCommsManager,
    ErrorHandlingException,
)
from csvpath.util.exceptions import InputException  # noqa: E402
from csvpath.matching.util.exceptions import MatchException  # noqa: E402

FLAGS = ["raise", "collect", "stop", "fail", "print", "quiet"]
ALL_POLICIES = [
    [f for i, f in enumerate(FLAGS) if mask & (1 << i)] for mask in range(64)
]

_RE_FILE = re.compile(r'File "[^"]*?/(csvpath/[^"]*)", line \d+')
_RE_RUN = re.compile(r"\d{4}-\d\d-\d\d_\d\d-\d\d-\d\d(_\d+)?")


def norm_trace(t):
    if t is None:
        return None
    return _RE_FILE.sub(r'File "\1", line N', t)


_RE_ADDR = re.compile(r" at 0x[0-9a-fA-F]+")


def out(*a):
    # object reprs embed memory addresses; they are not behaviour
    print(_RE_ADDR.sub(" at 0xADDR", " ".join(str(_) for _ in a)))


class CapturePrinter:
    """a Printer that records everything sent to it"""

    def __init__(self):
        self.lines = []
        self.last_line = None

    def print(self, s):
        self.lines.append(("default", s))
        self.last_line = s

    def print_to(self, name, s):
        self.lines.append((name, s))
        self.last_line = s

    @property
    def lines_printed(self):
        return len(self.lines)


def show_exception(ex):
    chain = []
    e = ex
    seen = 0
    while e is not None and seen < 5:
        chain.append(f"{type(e).__module__}.{type(e).__name__}: {e}")
        e = e.__cause__
        seen += 1
    out("  EXCEPTION reached caller:", " <- caused by ".join(chain))


def show_error(e, full=True):
    out(
        "    error: line=%r match=%r scan=%r class=%r err=%s: %s"
        % (
            e.line_count,
            e.match_count,
            e.scan_count,
            getattr(e, "exception_class", "<unset>"),
            type(e.error).__name__,
            e.error,
        )
    )
    out(
        "           message=%r datum=%r filename=%r source=%s %s"
        % (e.message, e.datum, e.filename, type(e.source).__name__, e.source)
    )
    if full:
        out("           match_part=%r" % (getattr(e, "match", "<unset>"),))
        out("           json=%r" % (e.json,))
        out("           trace=%r" % (norm_trace(e.trace),))
        tj = e.to_json()
        tj.pop("at", None)
        tj["trace"] = norm_trace(tj.get("trace"))
        out("           to_json=%s" % json.dumps(tj, sort_keys=True))


def show_state(p, printer, full=True):
    out(
        "  is_valid=%r stopped=%r has_errors=%r match_count=%r scan_count=%r line_number=%r"
        % (
            p.is_valid,
            p.stopped,
            p.has_errors(),
            p.match_count,
            p.scan_count,
            p.line_monitor.physical_line_number if p.line_monitor else None,
        )
    )
    out("  variables=%s" % json.dumps(p.variables, sort_keys=True, default=str))
    errs = p.errors or []
    out("  errors collected: %d" % len(errs))
    for e in errs:
        show_error(e, full=full)
    out("  printed: %r" % (printer.lines,))


def make_path(policy, *, preconfigured=False):
    if preconfigured:
        cfg = Config()
        cfg.csvpath_errors_policy = list(policy)
        p = CsvPath(print_default=False, config=cfg)
    else:
        p = CsvPath(print_default=False)
        p.config.csvpath_errors_policy = list(policy)
    pr = CapturePrinter()
    p.add_printer(pr)
    return p, pr


def run_collect(path, policy, *, preconfigured=False, full=True, method="collect"):
    p, pr = make_path(policy, preconfigured=preconfigured)
    try:
        p.parse(path)
        if method == "collect":
            lines = p.collect()
            out("  returned lines: %r" % (lines,))
        elif method == "fast_forward":
            p.fast_forward()
            out("  fast_forward done")
        elif method == "next":
            got = []
            try:
                for line in p.next():
                    got.append(
                        (p.line_monitor.physical_line_number, list(line), p.is_valid)
                    )
            finally:
                out("  next() yielded: %r" % (got,))
    except Exception as ex:  # pylint: disable=W0718
        show_exception(ex)
    show_state(p, pr, full=full)
    return p


# --------------------------------------------------------------------------
# Section A: all 64 policies x error kinds
# --------------------------------------------------------------------------
PATHS_A = [
    ("py-exception (ZeroDivision/ValueError) lines 2,4,6", "$f.csv[1*][@m = mod(#a, #b)]"),
    ("arg value mismatch line 2", "$f.csv[1*][@x = int(#c)]"),
    ("function rule via raise_if lines 1,5", "$f.csv[1*][boolean(#b)]"),
    ("function rule DataException + ragged mismatch", "$f.csv[1*][@t = substring(#c, -1)]"),
    ("right-hand side, 2nd expression", "$f.csv[1*][yes() #a == int(#c)]"),
    ("nested function", "$f.csv[1*][@y = add(1, mod(#a, #b))]"),
    ("when/do right-hand", '$f.csv[1*][#b == "0" -> @w = mod(#a, #b)]'),
    ("structure invalid + or() raise_if", "$f.csv[1*][or(integer(#c), none(#c))]"),
    ("source is Between", "$f.csv[1*][between(#c, 1, 5)]"),
    ("wrong number of args (pre-run check_valid)", "$f.csv[1*][add()]"),
    ("error at first line + blank last line", "$g.csv[1*][@x = int(#a) last() -> @z = int(\"x\")]"),
    ("no error at all", "$f.csv[1*][@n = add(#a, 1)]"),
    ("header only file", "$h.csv[1*][@x = int(#c)]"),
]


def section_a():
    out("=" * 78)
    out("SECTION A: 64 policies x error kinds (policy set after construction)")
    out("=" * 78)
    for label, path in PATHS_A:
        for policy in ALL_POLICIES:
            out("--- A | %s | %s | policy=%r" % (label, path, policy))
            # full details only for a subset to keep the transcript manageable,
            # but the short form still shows every observable outcome
            full = policy in (["collect"], ["raise", "collect", "stop", "fail", "print"])
            run_collect(path, policy, full=full)


# --------------------------------------------------------------------------
# Section B: validation-mode overrides
# --------------------------------------------------------------------------
MODES_B = [
    None,
    "raise",
    "no-raise",
    "print",
    "no-print",
    "stop",
    "no-stop",
    "fail",
    "no-fail",
    "match",
    "no-match",
    "raise, print, stop, fail",
    "no-raise, no-print, no-stop, no-fail",
    "no-raise, print, match",
    "no-raise, no-print, match, fail",
    "no-raise, stop, no-match",
    "collect",
    "",
]
POLICIES_B = [
    [],
    ["raise"],
    ["collect", "print"],
    ["stop", "fail", "collect"],
    ["raise", "collect", "stop", "fail", "print"],
    ["quiet", "collect", "print"],
    ["quiet", "raise"],
]
PATHS_B = [
    "[1*][@m = mod(#a, #b)]",
    "[1*][@x = int(#c)]",
    "[1*][boolean(#b)]",
    "[1*][yes() #a == int(#c)]",
    "[1*][@y = add(1, mod(#a, #b))]",
]


def section_b():
    out("=" * 78)
    out("SECTION B: validation-mode overrides")
    out("=" * 78)
    for body in PATHS_B:
        for mode in MODES_B:
            for policy in POLICIES_B:
                if mode is None:
                    path = f"$f.csv{body}"
                else:
                    path = f"~ id: b validation-mode: {mode} ~ $f.csv{body}"
                out("--- B | %s | policy=%r" % (path, policy))
                for pre in (False, True):
                    out("  (preconfigured Config=%r)" % pre)
                    run_collect(path, policy, preconfigured=pre, full=False)


# --------------------------------------------------------------------------
# Section C: other run methods, logic mode, repeated runs
# --------------------------------------------------------------------------
def section_c():
    out("=" * 78)
    out("SECTION C: next()/fast_forward(), OR logic, repeated runs, preconfigured")
    out("=" * 78)
    paths = [
        "$f.csv[1*][@m = mod(#a, #b)]",
        "$f.csv[*][@x = int(#c)]",
        "~ logic-mode: OR ~ $f.csv[1*][@m = mod(#a, #b) #a == \"1\"]",
        "~ logic-mode: OR validation-mode: no-raise, match ~ $f.csv[1*][boolean(#b) #a == \"7\"]",
        "$g.csv[*][@x = int(#a) last() -> @z = mod(1, 0)]",
        "$f.csv[3][@x = int(#c)]",
        "$f.csv[2][@x = int(#c)]",
        "$f.csv[6][@m = mod(#a, #b)]",
    ]
    policies = [
        ["collect"],
        ["raise"],
        ["stop", "collect"],
        ["fail", "print"],
        ["raise", "collect", "stop", "fail", "print"],
        ["quiet"],
    ]
    for path in paths:
        for policy in policies:
            for method in ("next", "fast_forward", "collect"):
                for pre in (False, True):
                    out(
                        "--- C | %s | policy=%r | %s | preconfigured=%r"
                        % (path, policy, method, pre)
                    )
                    run_collect(
                        path, policy, preconfigured=pre, full=False, method=method
                    )
    out("--- C | repeated identical runs give identical results")
    for i in range(3):
        out("  run %d" % i)
        run_collect("$f.csv[1*][@m = mod(#a, #b)]", ["collect", "print", "fail"], full=True)


# --------------------------------------------------------------------------
# Section D: CsvPaths
# --------------------------------------------------------------------------
def norm_run(s):
    return _RE_RUN.sub("RUN", s)


def dump_archive():
    if not os.path.exists("archive"):
        out("  (no archive)")
        return
    listing = []
    for root, dirs, files in os.walk("archive"):
        dirs.sort()
        for f in sorted(files):
            listing.append(os.path.join(root, f))
    # map run dirs to stable ordinal names
    runs = sorted({m.group(0) for p in listing for m in [_RE_RUN.search(p)] if m})
    runmap = {r: "RUN%d" % i for i, r in enumerate(runs)}

    def nr(s):
        return _RE_RUN.sub(lambda m: runmap.get(m.group(0), "RUN?"), s)

    for p in listing:
        out("  file:", nr(p))
    for p in listing:
        base = os.path.basename(p)
        if base in ("errors.json",):
            with open(p, encoding="utf-8") as f:
                data = json.load(f)
            for e in data:
                e.pop("at", None)
                e["trace"] = norm_trace(e.get("trace"))
                if e.get("filename"):
                    e["filename"] = re.sub(r"[0-9a-f]{64}", "HASH", e["filename"])
            out("  content %s: %s" % (nr(p), json.dumps(data, sort_keys=True)))
        elif base in ("printouts.txt", "data.csv", "unmatched.csv", "vars.json"):
            with open(p, encoding="utf-8") as f:
                out("  content %s: %r" % (nr(p), f.read()))
        elif base == "meta.json" and "/" in p:
            with open(p, encoding="utf-8") as f:
                data = json.load(f)
            rd = data.get("runtime_data", {})
            keep = {
                k: rd.get(k)
                for k in (
                    "valid",
                    "stopped",
                    "count_matches",
                    "count_scans",
                    "count_lines",
                    "line_number",
                    "validation-mode",
                    "lines_collected",
                )
            }
            out(
                "  content %s: metadata=%s runtime=%s"
                % (
                    nr(p),
                    json.dumps(data.get("metadata"), sort_keys=True),
                    json.dumps(keep, sort_keys=True),
                )
            )
        elif base == "manifest.json" and p.count("/") >= 4:
            with open(p, encoding="utf-8") as f:
                data = json.load(f)
            keep = {
                k: data.get(k)
                for k in ("valid", "completed", "file_count", "files_expected")
            }
            keep["files"] = sorted((data.get("file_fingerprints") or {}).keys())
            out("  content %s: %s" % (nr(p), json.dumps(keep, sort_keys=True)))


NAMED_PATHS = [
    "~ id: one ~ $[1*][@m = mod(#a, #b)]",
    "~ id: two validation-mode: no-raise, no-print, no-stop, fail ~ $[1*][@x = int(#c)]",
    "~ id: three validation-mode: no-raise, print, match ~ $[1*][boolean(#b)]",
    "~ id: four ~ $[1*][yes()]",
]


def run_paths(csvpath_policy, csvpaths_policy, method):
    for d in ("archive", "inputs", "cache"):
        shutil.rmtree(d, ignore_errors=True)
    write_config(csvpath=csvpath_policy, csvpaths=csvpaths_policy)
    out(
        "--- D | csvpath policy=%r csvpaths policy=%r method=%s"
        % (csvpath_policy, csvpaths_policy, method)
    )
    cp = CsvPaths(print_default=False)
    cp.file_manager.add_named_file(name="f", path="f.csv")
    cp.paths_manager.add_named_paths(name="p", paths=NAMED_PATHS)
    try:
        if method == "collect_paths":
            cp.collect_paths(filename="f", pathsname="p")
        elif method == "fast_forward_paths":
            cp.fast_forward_paths(filename="f", pathsname="p")
        elif method == "next_paths":
            got = []
            try:
                for line in cp.next_paths(filename="f", pathsname="p"):
                    got.append(list(line))
            finally:
                out("  next_paths yielded: %r" % (got,))
        elif method == "collect_by_line":
            lines = cp.collect_by_line(filename="f", pathsname="p")
            out("  collect_by_line returned: %r" % (lines,))
        elif method == "fast_forward_by_line":
            cp.fast_forward_by_line(filename="f", pathsname="p")
    except Exception as ex:  # pylint: disable=W0718
        show_exception(ex)
    try:
        results = cp.results_manager.get_named_results("p")
    except Exception as ex:  # pylint: disable=W0718
        out("  get_named_results raised %s: %s" % (type(ex).__name__, norm_run(str(ex))))
        results = []
    for r in results or []:
        try:
            if isinstance(r.lines, list):
                rlines = [list(_) for _ in r.lines]
            else:
                rlines = [list(_) for _ in r.lines.next()]
        except Exception as ex:  # pylint: disable=W0718
            rlines = "raised %s" % type(ex).__name__
        out(
            "  result id=%r is_valid=%r stopped=%r errors=%d lines=%r"
            % (
                r.csvpath.identity,
                r.csvpath.is_valid,
                r.csvpath.stopped,
                len(r.errors or []),
                rlines,
            )
        )
        out("    variables=%s" % json.dumps(r.csvpath.variables, sort_keys=True, default=str))
        for e in r.errors or []:
            show_error(e, full=False)
        try:
            out("    printouts=%r all=%r" % (r.printouts, r.get_printouts()))
        except Exception as ex:  # pylint: disable=W0718
            out("    printouts raised %s" % type(ex).__name__)
    out("  csvpaths-level errors: %r" % (getattr(cp, "errors", None),))
    dump_archive()


def section_d():
    out("=" * 78)
    out("SECTION D: CsvPaths runs + archive")
    out("=" * 78)
    combos = [
        ("collect, print", "collect, print"),
        ("raise, collect, print", "raise, collect"),
        ("raise, collect, print", "collect, print"),
        ("stop, fail, collect", "collect"),
        ("quiet, collect, fail", "quiet, collect"),
        ("print", "print"),
    ]
    for csvpath_policy, csvpaths_policy in combos:
        for method in (
            "collect_paths",
            "fast_forward_paths",
            "next_paths",
            "collect_by_line",
            "fast_forward_by_line",
        ):
            run_paths(csvpath_policy, csvpaths_policy, method)
    write_config()


# --------------------------------------------------------------------------
# Section E: unit-level checks of ErrorCommsManager / ErrorHandler
# --------------------------------------------------------------------------
class StubLogger:
    def __init__(self, log):
        self._log = log

    def _rec(self, level, msg, *args):
        try:
            text = msg % args if args else msg
        except Exception:  # pylint: disable=W0718
            text = f"{msg} {args}"
        text = re.sub(r"datetime: .*", "datetime: T", text)
        self._log.append((level, norm_trace(text)))

    def debug(self, msg, *a):
        self._rec("debug", msg, *a)

    def info(self, msg, *a):
        self._rec("info", msg, *a)

    def warning(self, msg, *a):
        self._rec("warning", msg, *a)

    def error(self, msg, *a):
        self._rec("error", msg, *a)


def stub_csvpath(policy, overrides, log):
    s = types.SimpleNamespace()
    s.config = types.SimpleNamespace(csvpath_errors_policy=policy)
    s.raise_validation_errors = overrides.get("raise")
    s.print_validation_errors = overrides.get("print")
    s.stop_on_validation_errors = overrides.get("stop")
    s.fail_on_validation_errors = overrides.get("fail")
    s.match_validation_errors = overrides.get("match")
    s.logger = StubLogger(log)
    s.stopped = False
    s.is_valid = True
    s.printed = []
    s.print = s.printed.append
    s.collected = []
    s.collect_error = s.collected.append
    s.line_monitor = types.SimpleNamespace(physical_line_number=7)
    s.match_count = 3
    s.scan_count = 0
    s.scanner = types.SimpleNamespace(filename="stub.csv")
    s.match = "[stub()]"
    return s


def stub_csvpaths(policy, log):
    s = types.SimpleNamespace()
    s.config = types.SimpleNamespace(csvpaths_errors_policy=policy)
    s.logger = StubLogger(log)
    s.collected = []
    s.collect_error = s.collected.append
    return s


class RichError(Exception):
    def __init__(self, msg):
        super().__init__(msg)
        self.json = "{j}"
        self.datum = "d"
        self.message = "m"
        self.trace = "t"
        self.source = "s"


def section_e():
    out("=" * 78)
    out("SECTION E: ErrorCommsManager / ErrorHandler unit level")
    out("=" * 78)
    # E1: exhaustive ErrorCommsManager decisions
    tri = (None, True, False)
    for policy in ALL_POLICIES:
        rows = []
        for ov in tri:
            log = []
            cs = stub_csvpath(
                policy, {"raise": ov, "print": ov, "stop": ov, "fail": ov}, log
            )
            ecm = ErrorCommsManager(csvpath=cs)
            rows.append(
                (ov, ecm.do_i_raise(), ecm.do_i_print(), ecm.do_i_stop(), ecm.do_i_fail())
            )
        log = []
        ecm = ErrorCommsManager(csvpaths=stub_csvpaths(policy, log))
        rows.append(
            ("csvpaths", ecm.do_i_raise(), ecm.do_i_print(), ecm.do_i_stop(), ecm.do_i_fail())
        )
        out("E1 policy=%r (override, raise, print, stop, fail): %r" % (policy, rows))
    # mixed overrides
    for combo in itertools.product(tri, repeat=4):
        ov = dict(zip(("raise", "print", "stop", "fail"), combo))
        for policy in ([], ["raise", "stop"], ["print", "fail"], FLAGS):
            ecm = ErrorCommsManager(csvpath=stub_csvpath(policy, ov, []))
            out(
                "E1b overrides=%r policy=%r -> raise=%r print=%r stop=%r fail=%r"
                % (
                    combo,
                    policy,
                    ecm.do_i_raise(),
                    ecm.do_i_print(),
                    ecm.do_i_stop(),
                    ecm.do_i_fail(),
                )
            )
    # the captured policy is the list object seen at construction time
    cs = stub_csvpath(["raise"], {}, [])
    ecm = ErrorCommsManager(csvpath=cs)
    cs.config.csvpath_errors_policy = ["print"]
    out("E1c after replacing policy list: raise=%r print=%r" % (ecm.do_i_raise(), ecm.do_i_print()))
    cs = stub_csvpath(["raise"], {}, [])
    ecm = ErrorCommsManager(csvpath=cs)
    cs.config.csvpath_errors_policy.append("print")
    out("E1d after mutating policy list: raise=%r print=%r" % (ecm.do_i_raise(), ecm.do_i_print()))
    for kw in ({}, {"csvpath": None, "csvpaths": None}, {"csvpath": 0, "csvpaths": ""}):
        try:
            ErrorCommsManager(**kw)
            out("E1e %r: constructed" % (kw,))
        except Exception as ex:  # pylint: disable=W0718
            out("E1e %r: %s: %s" % (kw, type(ex).__name__, ex))
    # both given: csvpath wins
    ecm = ErrorCommsManager(
        csvpath=stub_csvpath(["raise"], {}, []), csvpaths=stub_csvpaths(["print"], [])
    )
    out("E1f both: raise=%r print=%r" % (ecm.do_i_raise(), ecm.do_i_print()))

    # E2: ErrorHandler over stubs, every policy x a few overrides
    for policy in ALL_POLICIES:
        for ov in ({}, {"raise": False, "print": True}, {"stop": True, "fail": False, "raise": True}):
            for exc in (ValueError("boom"), RichError("rich")):
                log = []
                cs = stub_csvpath(policy, ov, log)
                raised = None
                try:
                    ret = ErrorHandler(csvpath=cs, error_collector=cs).handle_error(exc)
                except Exception as ex:  # pylint: disable=W0718
                    raised = ex
                    ret = "n/a"
                out(
                    "E2 policy=%r ov=%r exc=%s -> ret=%r raised=%s stopped=%r valid=%r printed=%r collected=%d"
                    % (
                        policy,
                        ov,
                        type(exc).__name__,
                        ret,
                        (
                            f"{type(raised).__name__}: {raised} <- {type(raised.__cause__).__name__}: {raised.__cause__}"
                            if raised
                            else None
                        ),
                        cs.stopped,
                        cs.is_valid,
                        cs.printed,
                        len(cs.collected),
                    )
                )
                for e in cs.collected:
                    show_error(e, full=False)
                    out("           json=%r trace=%r" % (e.json, e.trace))
                out("   log=%r" % ([l for l in log if l[0] != "debug"],))
                out("   debug=%r" % ([l[1].replace(str(type(cs)), "STUB") for l in log if l[0] == "debug"],))
    # E3: csvpaths-only handler, both, neither, separate collector
    for policy in ([], ["raise"], ["collect"], ["print"], ["quiet", "collect", "print", "stop", "fail"], FLAGS):
        log = []
        cps = stub_csvpaths(policy, log)
        raised = None
        try:
            ErrorHandler(csvpaths=cps).handle_error(KeyError("k"))
        except Exception as ex:  # pylint: disable=W0718
            raised = ex
        out(
            "E3 csvpaths-only policy=%r raised=%r collected=%d"
            % (policy, f"{type(raised).__name__}: {raised}" if raised else None, len(cps.collected))
        )
        for e in cps.collected:
            show_error(e, full=False)
            out("           match_part=%r" % (getattr(e, "match", "<unset>"),))
        out("   log=%r" % ([l for l in log if l[0] != "debug"],))
        # both csvpaths and csvpath with a third-party collector
        log2 = []
        cs = stub_csvpath(policy, {}, log2)
        other = types.SimpleNamespace(collected=[])
        other.collect_error = other.collected.append
        cps2 = stub_csvpaths(["raise", "print", "collect"], log)
        raised = None
        try:
            ErrorHandler(csvpaths=cps2, csvpath=cs, error_collector=other).handle_error(
                RichError("both")
            )
        except Exception as ex:  # pylint: disable=W0718
            raised = ex
        out(
            "E3 both policy=%r raised=%r other=%d csvpath=%d csvpaths=%d stopped=%r valid=%r printed=%r"
            % (
                policy,
                f"{type(raised).__name__}: {raised}" if raised else None,
                len(other.collected),
                len(cs.collected),
                len(cps2.collected),
                cs.stopped,
                cs.is_valid,
                cs.printed,
            )
        )
        # both but no explicit collector -> csvpaths collects
        cs = stub_csvpath(policy, {"raise": False}, [])
        cps3 = stub_csvpaths(["raise"], [])
        ErrorHandler(csvpaths=cps3, csvpath=cs).handle_error(ValueError("v"))
        out("E3 both/no collector policy=%r csvpath=%d csvpaths=%d" % (policy, len(cs.collected), len(cps3.collected)))
    try:
        ErrorHandler()
    except Exception as ex:  # pylint: disable=W0718
        out("E3 neither: %s: %s" % (type(ex).__name__, ex))
    try:
        ErrorHandler(error_collector=types.SimpleNamespace())
    except Exception as ex:  # pylint: disable=W0718
        out("E3 collector only: %s: %s" % (type(ex).__name__, ex))
    # build() alone
    cs = stub_csvpath(["collect"], {}, [])
    cs.line_monitor = None
    cs.scanner = None
    e = ErrorHandler(csvpath=cs).build(RichError("b"))
    show_error(e, full=False)
    e = ErrorHandler(csvpaths=stub_csvpaths(["collect"], [])).build(ValueError("b2"))
    show_error(e, full=False)


def main(extra=None):
    section_a()
    section_b()
    section_c()
    section_d()
    section_e()
    if extra:
        extra()
    out("DONE")


if __name__ == "__main__":
    main()
