#!/venv/bin/python
"""
Differential demonstration for property C19 ("results depend only on the
csvpath, the file and the configuration").

usage:  PYTHONPATH=<csvpath tree> /venv/bin/python demo.py  > transcript.txt

The script is self-contained: it makes its own scratch directory, writes its
own ./config/config.ini (offline: no OpenLineage listeners), its own data
files, runs everything and prints a deterministic transcript on stdout. Run
directories, timestamps, uuids, timings and the scratch path are normalised.
Nothing in the transcript depends on source line numbers of the csvpath
package (tracebacks are reduced to their last line).

Sections
  A  standalone CsvPath: every (csvpath, file) job, three run methods
  B  standalone CsvPath: job sequences (forward, reversed, repeated, re-parse)
  C  Cache / FileCacher / LineCounter / LineMonitor used directly
  D  CsvPaths: cold cache, warm memory, warm disk (new instance), child process
  E  CsvPaths: file rewritten at the same path, other dialect, damaged cache
  F  CsvPaths under the shipped "raise" policy + archive dump
"""
import os
import re
import sys
import io
import json
import shutil
import hashlib
import tempfile
import subprocess
import contextlib

CONFIG = """[csvpath_files]
extensions = txt, csvpath, csvpaths

[csv_files]
extensions = txt, csv, tsv, dat, tab, psv, ssv

[errors]
csvpath = {csvpath_policy}
csvpaths = {csvpaths_policy}

[logging]
csvpath = info
csvpaths = info
log_file = logs/csvpath.log
log_files_to_keep = 100
log_file_size = 52428800

[config]
path = config/config.ini

[cache]
path = cache

[listeners]
[marquez]
base_url = http://localhost:5000

[functions]
imports = config/functions.imports

[results]
archive = archive
transfers = transfers

[inputs]
files = inputs/named_files
csvpaths = inputs/named_paths
on_unmatched_file_fingerprints = halt
"""

SHIPPED = ("raise, collect, stop, fail, print", "raise, collect")
LENIENT = ("collect, fail, print", "collect")


def write_config(policy) -> None:
    os.makedirs("config", exist_ok=True)
    with open("config/config.ini", "w", encoding="utf-8") as f:
        f.write(CONFIG.format(csvpath_policy=policy[0], csvpaths_policy=policy[1]))
    if not os.path.exists("config/functions.imports"):
        with open("config/functions.imports", "w", encoding="utf-8") as f:
            f.write("")


FILES = {
    "plain.csv": "a,b,c\n1,2,3\n4,5,6\n1,8,9\n",
    "blanks.csv": "\n\na,b,c\n1,2,3\n\n4,5\n7,8,9,10\n\n1,0,\n\n\n",
    "ragged.csv": "a,b,c\n1\n1,2\n1,2,3,4,5\n,,\n0,0,0\n",
    "empties.csv": 'a,b,c\n,,\n0,,""\n"",0,\n1, ,0\n',
    "quoted.csv": '"a ""x""","b,c"," d ",e;f|g,`t`\n1,2,3,4,5\n"1","x,y"," z ",;,|\n',
    "dupes.csv": "a,b,a,b\n1,2,3,4\n5,6,7,8\n",
    "empty.csv": "",
    "onlyblank.csv": "\n\n\n",
    "single.csv": "a,b,c",
    "trailing.csv": "a,b,c\n1,2,3\n\n",
    "pipes.psv": "a|b|c\n1|2|3\n'x|y'|5|6\n1,1|0|\n",
}


def write_files() -> None:
    for name, text in FILES.items():
        with open(name, "w", encoding="utf-8", newline="") as f:
            f.write(text)


#
# the csvpaths. F stands for the file.
#
PATHS = {
    "all": "$F[*][yes()]",
    "count": '$F[1*][#0 == "1" @n = count() print("line $.csvpath.line_number n=$.variables.n b=$.headers.b")]',
    "totals": '$F[*][@t = total_lines() @c = count_lines() last() -> print("total $.variables.t of $.csvpath.total_lines")]',
    "failstop": "$F[*][line_number() == 3 -> fail() line_number() == 4 -> stop()]",
    "names": '$F[*][@h = header_name(1) @i = header_index("c") #b]',
    "collect": '$F[0-3][collect("a", "c")]',
    "appendint": '$F[*][append("z", count()) @hs = count_headers() last() -> reset_headers()]',
    "appendstr": '$F[*][append("z", "v") @hs = count_headers() line_number() == 2 -> reset_headers()]',
    "badadd": '~ validation-mode: no-raise, print, collect ~ $F[*][add("a", none())]',
    "unmatched": '~ return-mode: no-matches unmatched-mode: keep ~ $F[*][#0 == "1"]',
    "afterblank": "$F[*][after_blank() -> @ab = line_number()]",
    "mismatch": '$F[*][@e = end() mismatch() -> @mm = mismatch("signed")]',
    "nine": "$F[*][#9]",
    "no": "$F[*][no()]",
    "range": "$F[2-3][@ln = line_number() @tl = total_lines()]",
    "norun": "~ run-mode: no-run ~ $F[*][yes()]",
    "or": '~ logic-mode: OR ~ $F[*][#a == "1" #b == "5"]',
}

_RUNDIR = re.compile(r"\d{4}-\d\d-\d\d_\d\d-\d\d-\d\d(\.\d+)?")
_STAMP = re.compile(r"\d{4}-\d\d-\d\d[ T]\d\d:\d\d:\d\d(\.\d+)?(\+00:00|Z)?")
_UUID = re.compile(r"[0-9a-f]{8}-[0-9a-f]{4}-[0-9a-f]{4}-[0-9a-f]{4}-[0-9a-f]{12}")
_ADDR = re.compile(r" at 0x[0-9a-f]+")
_INTX = re.compile(r"_intx_[0-9a-f]{64}")
VOLATILE_KEYS = {
    "time",
    "uuid",
    "named_paths_uuid",
    "time_completed",
    "run_time",
    "lines_time",
    "last_line_time",
    "run_started_at",
    "at",
    "hostname",
    "ip_address",
    "username",
    "named_file_last_change",
}
VOLATILE_FINGERPRINTS = {"meta.json", "manifest.json", "errors.json"}
HERE = None


def norm(s) -> str:
    s = f"{s}"
    if HERE:
        s = s.replace(HERE, "<CWD>")
    s = _RUNDIR.sub("<RUN>", s)
    s = _STAMP.sub("<TIME>", s)
    s = _UUID.sub("<UUID>", s)
    s = _ADDR.sub(" at 0x<ADDR>", s)
    return s


def last_line_of(trace) -> str:
    if not trace:
        return trace
    ls = [_ for _ in f"{trace}".split("\n") if _.strip() != ""]
    return ls[-1] if ls else ""


def scrub(j):
    if isinstance(j, dict):
        out = {}
        for k, v in j.items():
            if k in VOLATILE_KEYS:
                out[k] = "<V>" if v is not None else None
            elif k == "trace":
                out[k] = last_line_of(v)
            elif k == "file_fingerprints" and isinstance(v, dict):
                out[k] = {
                    a: ("<FP>" if a in VOLATILE_FINGERPRINTS else b)
                    for a, b in v.items()
                }
            else:
                out[k] = scrub(v)
        return out
    if isinstance(j, list):
        return [scrub(_) for _ in j]
    return j


def say(*args) -> None:
    print(norm(" ".join(f"{a}" for a in args)))


def show_errors(errors) -> list:
    out = []
    for e in errors or []:
        out.append(
            (
                e.error.__class__.__name__ if e.error is not None else None,
                norm(e.error),
                norm(e.message),
                e.line_count,
                e.scan_count,
                e.match_count,
                norm(e.filename),
                norm(last_line_of(e.trace)),
            )
        )
    return out


def show_vars(v) -> str:
    return _INTX.sub("_intx_<H>", norm(json.dumps(v, sort_keys=True, default=str)))


class Tape:
    """a printer that keeps what it is given"""

    def __init__(self):
        self.lines = []

    @property
    def last_line(self):
        return self.lines[-1] if self.lines else None

    @property
    def lines_printed(self):
        return len(self.lines)

    def print(self, string):
        self.print_to(None, string)

    def print_to(self, name, string):
        self.lines.append((name, string))


def probe(label, fn) -> None:
    try:
        say(label, fn())
    except Exception as ex:  # pylint: disable=W0718
        say(label, "EXCEPTION:", type(ex).__name__, last_line_of(ex))


def observe(c, tape=None) -> None:
    """everything a standalone CsvPath lets us see after a run"""
    probe("    held line_monitor:", lambda: c._line_monitor.dump() if c._line_monitor is not None else None)
    probe("    held headers:", lambda: c._headers)
    probe("    valid/stopped:", lambda: (c.is_valid, c.stopped))
    probe("    completed:", lambda: c.completed)
    probe("    scan_count/match_count:", lambda: (c.scan_count, c.match_count))
    probe("    variables:", lambda: show_vars(c.variables))
    probe("    headers:", lambda: c.headers)
    probe("    line_monitor:", lambda: c.line_monitor.dump() if c.line_monitor is not None else None)
    probe("    total_lines:", lambda: c.get_total_lines() if c.scanner else None)
    probe("    unmatched:", lambda: c.unmatched)
    probe("    errors:", lambda: (show_errors(c.errors), c.has_errors()))
    probe("    metadata:", lambda: show_vars(c.metadata))
    if tape is not None:
        say("    printouts:", tape.lines)


def standalone(pathkey, filename, method="collect", *, delimiter=",", quotechar='"'):
    from csvpath import CsvPath

    path = PATHS[pathkey].replace("$F", "$" + filename, 1)
    say(f"  job {pathkey} on {filename} by {method} [{delimiter}{quotechar}]")
    c = CsvPath(delimiter=delimiter, quotechar=quotechar, print_default=False)
    tape = Tape()
    c.add_printer(tape)
    try:
        if method == "collect":
            lines = c.collect(path)
            say("    lines:", lines)
        elif method == "collect2":
            lines = c.collect(path, nexts=2)
            say("    lines:", lines)
        elif method == "fast_forward":
            c.fast_forward(path)
            say("    lines: n/a")
        elif method == "next":
            got = []
            for line in c.next(path):
                got.append((c.line_monitor.physical_line_number, line[:]))
            say("    lines:", got)
        elif method == "parse":
            r = c.parse(path)
            say("    parsed:", r is c)
    except Exception as ex:  # pylint: disable=W0718
        say("    EXCEPTION:", type(ex).__name__, last_line_of(ex))
    observe(c, tape)
    return c


def section(title) -> None:
    say("")
    say("=" * 70)
    say(title)
    say("=" * 70)


# ----------------------------------------------------------------------
def section_a() -> None:
    section("A. standalone CsvPath, every job")
    for f in FILES:
        for k in PATHS:
            d = "|" if f.endswith(".psv") else ","
            q = "'" if f.endswith(".psv") else '"'
            standalone(k, f, "collect", delimiter=d, quotechar=q)
    for f in ["plain.csv", "blanks.csv", "ragged.csv", "quoted.csv", "empty.csv"]:
        for k in ["all", "count", "totals", "failstop", "unmatched", "appendstr"]:
            for m in ["fast_forward", "next", "collect2", "parse"]:
                standalone(k, f, m)
    say("  -- the same file read with other dialects")
    for d, q in [("|", '"'), (",", "'"), (";", '"'), ("\t", '"')]:
        for f in ["quoted.csv", "pipes.psv", "plain.csv"]:
            standalone("all", f, "collect", delimiter=d, quotechar=q)
            standalone("names", f, "collect", delimiter=d, quotechar=q)


def section_b() -> None:
    from csvpath import CsvPath

    section("B. standalone CsvPath, sequences")
    jobs = [
        ("appendstr", "plain.csv"),
        ("names", "plain.csv"),
        ("totals", "blanks.csv"),
        ("appendint", "blanks.csv"),
        ("totals", "blanks.csv"),
        ("collect", "ragged.csv"),
        ("all", "quoted.csv"),
        ("badadd", "plain.csv"),
        ("all", "missing.csv"),
        ("names", "quoted.csv"),
    ]
    say(" forward")
    for k, f in jobs:
        standalone(k, f)
    say(" reversed")
    for k, f in reversed(jobs):
        standalone(k, f)
    say(" each twice")
    for k, f in jobs[:5]:
        standalone(k, f)
        standalone(k, f)
    say(" malformed and file-less csvpaths")
    for p in [
        "$[*][yes()]",
        "$plain.csv[*]",
        "$plain.csv[*][yes()",
        "plain.csv[*][yes()]",
        "$plain.csv[*][nosuchfunction()]",
        "$plain.csv[*][yes()] trailing",
        None,
        "",
    ]:
        c = CsvPath(print_default=False)
        try:
            r = c.parse(p)
            say("  parse", repr(p), "->", r is c)
        except Exception as ex:  # pylint: disable=W0718
            say("  parse", repr(p), "EXCEPTION:", type(ex).__name__, last_line_of(ex))
        try:
            say("    headers:", c.headers, "lm:", c.line_monitor)
            say("    total:", c.get_total_lines_and_headers())
        except Exception as ex:  # pylint: disable=W0718
            say("    EXCEPTION:", type(ex).__name__, last_line_of(ex))
    say(" disposable parse")
    c = CsvPath(print_default=False)
    for p in ["$plain.csv[*][yes()]", "$nofile.csv[1][@a = count()]", "$[*][no()]"]:
        try:
            m = c.parse(p, disposably=True)
            say("  disposable", p, "->", type(m).__name__, "scanner:", c.scanner)
            say("    match:", c.match, "scan:", c.scan, "headers:", c._headers)
        except Exception as ex:  # pylint: disable=W0718
            say("  disposable", p, "EXCEPTION:", type(ex).__name__, last_line_of(ex))
    say(" one instance parsed twice, file rewritten in between")
    with open("rewrite.csv", "w", encoding="utf-8") as f:
        f.write("a,b\n1,2\n")
    c = CsvPath(print_default=False)
    c.parse("$rewrite.csv[*][yes()]")
    say("  first:", c.headers, c.line_monitor.dump())
    with open("rewrite.csv", "w", encoding="utf-8") as f:
        f.write("x,y,z\n1,2,3\n4,5,6\n\n")
    say("  before re-parse:", c.headers, c.line_monitor.dump())
    c.parse("$rewrite.csv[*][yes()]")
    say("  second:", c.headers, c.line_monitor.dump())
    say("  collect:", c.collect())
    observe(c)


def section_c() -> None:
    from csvpath import CsvPath, CsvPaths
    from csvpath.util.cache import Cache
    from csvpath.util.line_counter import LineCounter
    from csvpath.util.line_monitor import LineMonitor
    from csvpath.managers.files.file_cacher import FileCacher

    section("C. Cache, FileCacher, LineCounter, LineMonitor used directly")

    def expected_name(cs, filename) -> str:
        key = filename
        try:
            st = os.stat(filename)
            key = f"{filename}:{st.st_size}:{st.st_mtime_ns}"
        except OSError:
            pass
        key = f"{key}:{getattr(cs, 'delimiter', None)}:{getattr(cs, 'quotechar', None)}"
        return hashlib.sha256(key.encode("utf-8")).hexdigest()

    cs = CsvPaths()
    cache = cs.file_manager.cacher.cache
    say(" names are the digest of path, size, mtime and dialect")
    names = {}
    for f in list(FILES) + ["missing.csv", "", "sub/dir/none.csv", "plain.csv#sheet"]:
        n1 = cache._cache_name(f)
        n2 = cache._cache_name(f)
        names[f] = n1
        say("  ", repr(f), len(n1), n1 == n2, n1 == expected_name(cs, f))
    say("  distinct names:", len(set(names.values())), "of", len(names))
    for bad in [None, b"plain.csv", 1.5]:
        try:
            n = cache._cache_name(bad)
            say("  ", repr(bad), "->", len(n), n == expected_name(cs, bad))
        except Exception as ex:  # pylint: disable=W0718
            say("  ", repr(bad), "EXCEPTION:", type(ex).__name__, last_line_of(ex))
    say(" a dialect change on the same instance changes the name, and back")
    a = cache._cache_name("plain.csv")
    cs.delimiter = "|"
    b = cache._cache_name("plain.csv")
    cs.quotechar = "'"
    c = cache._cache_name("plain.csv")
    say("  ", a != b, b != c, a != c, c == expected_name(cs, "plain.csv"))
    cs.delimiter = ","
    cs.quotechar = '"'
    d = cache._cache_name("plain.csv")
    say("  ", a == d, d == expected_name(cs, "plain.csv"))
    say(" a rewrite at the same path changes the name")
    with open("grow.csv", "w", encoding="utf-8") as f:
        f.write("a,b\n1,2\n")
    g1 = cache._cache_name("grow.csv")
    with open("grow.csv", "a", encoding="utf-8") as f:
        f.write("3,4\n")
    g2 = cache._cache_name("grow.csv")
    st = os.stat("grow.csv")
    os.utime("grow.csv", ns=(st.st_atime_ns, st.st_mtime_ns + 1_000_000_000))
    g3 = cache._cache_name("grow.csv")
    os.utime("grow.csv", ns=(st.st_atime_ns, st.st_mtime_ns))
    g4 = cache._cache_name("grow.csv")
    os.remove("grow.csv")
    g5 = cache._cache_name("grow.csv")
    say("  ", g1 != g2, g2 != g3, g2 == g4, g5 not in (g1, g2, g3))
    say("  ", g5 == expected_name(cs, "grow.csv"))
    say(" a Cache whose owner has no dialect")
    for owner in [None, object(), CsvPath(print_default=False)]:
        c2 = Cache(owner)
        n = c2._cache_name("plain.csv")
        say("  ", type(owner).__name__, n == expected_name(owner, "plain.csv"), n == a)

    say(" cache_text / cached_text round trips")
    for strtype, data in [
        ("json", '{"x": 1}'),
        ("json", ""),
        ("json", "two\nlines\n"),
        ("csv", "a,b,c"),
        ("csv", "\n\n\nq,r\ns,t\n"),
        ("csv", ""),
        ("csv", '"a ""x""","b,c"'),
        ("txt", "whatever"),
        ("json", 12),
    ]:
        cache.cache_text("plain.csv", strtype, data)
        say("  ", strtype, repr(data), "->", repr(cache.cached_text("plain.csv", strtype)))
    say("   miss:", repr(cache.cached_text("missing.csv", "json")))
    say("   miss:", repr(cache.cached_text("missing.csv", "csv")))
    say("   cache dir:", cache._cachedir(), sorted_cache())
    shutil.rmtree("cache")
    say("   cache dir gone:", os.path.exists("cache"))
    say("   miss:", repr(cache.cached_text("plain.csv", "json")), os.path.exists("cache"))

    say(" LineCounter")
    for f in FILES:
        for owner in [CsvPath(print_default=False), CsvPaths()]:
            lm, hs = LineCounter(owner).get_lines_and_headers(f)
            say("  ", f, type(owner).__name__, hs, lm.dump())
    skip = CsvPath(print_default=False, skip_blank_lines=False)
    for f in ["blanks.csv", "onlyblank.csv", "empty.csv"]:
        lm, hs = LineCounter(skip).get_lines_and_headers(f)
        say("   no-skip", f, hs, lm.dump())
    try:
        LineCounter(skip).get_lines_and_headers("missing.csv")
    except Exception as ex:  # pylint: disable=W0718
        say("   missing EXCEPTION:", type(ex).__name__, last_line_of(ex))
    for hs in [
        [],
        [""],
        [" a ", "b;c", "d,e", "f|g", "h\ti", "`j`", " ; , | \t ` "],
        ["\ta", "a\t", ";", " ;", "; "],
        ["x", 1],
        [None],
        "abc",
        ("t", " u "),
    ]:
        try:
            say("   clean", repr(hs), "->", LineCounter.clean_headers(hs))
        except Exception as ex:  # pylint: disable=W0718
            say("   clean", repr(hs), "EXCEPTION:", type(ex).__name__, last_line_of(ex))
    try:
        say("   clean none ->", LineCounter.clean_headers(None))
    except Exception as ex:  # pylint: disable=W0718
        say("   clean none EXCEPTION:", type(ex).__name__, last_line_of(ex))

    say(" LineMonitor")
    lm = LineMonitor()
    for line in [None, [], ["a"]]:
        say("   fresh", line, lm.is_last_line(), lm.is_last_line_and_blank(line))
    for data in [["a"], [], [], ["b", ""], []]:
        lm.next_line(last_line=[], data=data)
        say("   ", data, lm.dump(), lm.is_last_line_and_blank(data))
    lm.set_end_lines_and_reset()
    cp = lm.copy()
    say("   reset:", lm.dump(), "copy:", cp.dump(), cp is lm, cp.last_line is None)
    for data in [["a"], [], [], ["b", ""], []]:
        cp.next_line(last_line=[], data=data)
        say("   ", data, cp.is_last_line(), cp.is_last_line_and_blank(data))
        say("       ", cp.is_last_line_and_blank(None), cp.is_last_line_and_empty(data))
    say("   original untouched:", lm.dump())
    lm2 = LineMonitor()
    lm2.load(cp.dump())
    say("   load:", lm2.dump() == cp.dump())

    say(" FileCacher")
    cs = CsvPaths()
    fc = cs.file_manager.cacher
    say("   same object:", fc.cache.csvpaths is cs, isinstance(fc, FileCacher))
    for f in FILES:
        lm = fc.get_new_line_monitor(f)
        hs = fc.get_original_headers(f)
        say("  ", f, hs, lm.dump(), len(fc.pathed_lines_and_headers))
        # what we were given is ours to spoil
        hs.append("spoiled")
        lm.next_line(last_line=[], data=["x"])
        hs2 = fc.get_original_headers(f)
        lm2 = fc.get_new_line_monitor(f)
        say("     again:", hs2, lm2.dump(), hs2 is not hs, lm2 is not lm)
    say("   held:", len(fc.pathed_lines_and_headers), "on disk:", sorted_cache())
    for f in ["missing.csv", "", None]:
        try:
            fc.get_new_line_monitor(f)
        except Exception as ex:  # pylint: disable=W0718
            say("   lm of", repr(f), "EXCEPTION:", type(ex).__name__, last_line_of(ex))
        try:
            fc.get_original_headers(f)
        except Exception as ex:  # pylint: disable=W0718
            say("   hs of", repr(f), "EXCEPTION:", type(ex).__name__, last_line_of(ex))
    say("   held:", len(fc.pathed_lines_and_headers), "on disk:", sorted_cache())
    say("  a second cacher finds the files of the first")
    fc2 = CsvPaths().file_manager.cacher
    for f in ["quoted.csv", "blanks.csv", "empty.csv"]:
        say("  ", f, fc2._cached_lines_and_headers(f)[1], fc2.get_original_headers(f))
        say("     ", fc2._cached_lines_and_headers(f)[0].dump())
    say("   miss:", fc2._cached_lines_and_headers("missing.csv"))
    say("  the file changes under a cacher that holds it")
    with open("moving.csv", "w", encoding="utf-8") as f:
        f.write("a,b\n1,2\n")
    say("   ", fc.get_original_headers("moving.csv"), fc.get_new_line_monitor("moving.csv").dump())
    with open("moving.csv", "w", encoding="utf-8") as f:
        f.write("p,q,r\n1,2,3\n\n4,5,6\n")
    say("   ", fc.get_original_headers("moving.csv"), fc.get_new_line_monitor("moving.csv").dump())
    say("  the dialect changes under a cacher that holds the file")
    say("   ", fc.get_original_headers("pipes.psv"))
    cs.delimiter = "|"
    cs.quotechar = "'"
    say("   ", fc.get_original_headers("pipes.psv"), fc.get_new_line_monitor("pipes.psv").dump())
    cs.delimiter = ","
    cs.quotechar = '"'
    say("   ", fc.get_original_headers("pipes.psv"))
    say("   held:", len(fc.pathed_lines_and_headers), "on disk:", sorted_cache())


def sorted_cache() -> list:
    """the cache files are named by a digest that takes in the modification
    time of the data file, so we list them by what is in them."""
    if not os.path.exists("cache"):
        return None
    out = []
    for n in os.listdir("cache"):
        with open(os.path.join("cache", n), "r", encoding="utf-8") as f:
            out.append((n[n.rfind(".") :], len(n), f.read()))
    return sorted(out)


# ----------------------------------------------------------------------
GROUPS = {
    "basic": ["all", "count", "totals"],
    "heads": ["appendstr", "names", "collect", "names"],
    "trouble": ["badadd", "appendint", "all", "nine"],
    "modes": ["unmatched", "failstop", "norun", "or", "afterblank", "mismatch", "range"],
}


def group_paths(keys) -> list:
    out = []
    for i, k in enumerate(keys):
        p = PATHS[k].replace("$F", "$", 1)
        if p.startswith("~"):
            p = p.replace("~ ", f"~ id: {k}{i} ", 1)
        else:
            p = f"~ id: {k}{i} ~ {p}"
        out.append(p)
    return out


def new_csvpaths(**kw):
    from csvpath import CsvPaths

    cs = CsvPaths(print_default=False, **kw)
    for f in FILES:
        if f == "empty.csv":
            continue
        cs.file_manager.add_named_file(name=f[: f.find(".")], path=f)
    for g, keys in GROUPS.items():
        cs.paths_manager.add_named_paths(name=g, paths=group_paths(keys))
    return cs


def show_results(cs, group) -> None:
    try:
        results = cs.results_manager.get_named_results(group)
    except Exception as ex:  # pylint: disable=W0718
        say("    no results:", type(ex).__name__, last_line_of(ex))
        return
    for r in results or []:
        c = r.csvpath
        say("    result", r.run_index, c.identity)
        say("      valid:", r.is_valid, "stopped:", c.stopped, "completed:", c.completed)
        say("      counts:", c.scan_count, c.match_count)
        say("      variables:", show_vars(r.variables))
        say("      headers:", c._headers)
        say("      line_monitor:", c._line_monitor.dump() if c._line_monitor else None)
        say("      errors:", show_errors(r.errors), r.errors_count)
        say("      printouts:", r.get_printouts())
        say("      unmatched:", r.unmatched)
        try:
            say("      lines:", len(r.lines) if r.lines is not None else None)
        except Exception as ex:  # pylint: disable=W0718
            say("      lines: EXCEPTION", type(ex).__name__)
    say("    csvpaths errors:", show_errors(cs.errors))


def run(cs, group, filename, method) -> None:
    say(f"  run {group} on {filename} by {method}")
    try:
        if method == "collect_paths":
            cs.collect_paths(pathsname=group, filename=filename)
        elif method == "fast_forward_paths":
            cs.fast_forward_paths(pathsname=group, filename=filename)
        elif method == "next_paths":
            got = [line[:] for line in cs.next_paths(pathsname=group, filename=filename)]
            say("    next_paths lines:", got)
        elif method == "collect_by_line":
            got = cs.collect_by_line(pathsname=group, filename=filename)
            say("    by_line lines:", got)
        elif method == "fast_forward_by_line":
            cs.fast_forward_by_line(pathsname=group, filename=filename)
        elif method == "next_by_line":
            got = [line[:] for line in cs.next_by_line(pathsname=group, filename=filename)]
            say("    next_by_line lines:", got)
    except Exception as ex:  # pylint: disable=W0718
        say("    EXCEPTION:", type(ex).__name__, last_line_of(ex))
    show_results(cs, group)
    fc = cs.file_manager.cacher
    say("    cacher holds:", len(fc.pathed_lines_and_headers), "cache files:", len(os.listdir("cache")) if os.path.exists("cache") else None)


def run_names(root) -> dict:
    """run directories are named for the second the run began in, with .0,
    .1, ... added when the name is taken. which runs share a second is a
    matter of timing, so we number the runs of each named-paths in the order
    they happened and show that number instead."""
    names = {}
    for group in sorted(os.listdir(root)):
        gdir = os.path.join(root, group)
        if not os.path.isdir(gdir):
            continue
        runs = [r for r in os.listdir(gdir) if _RUNDIR.fullmatch(r)]

        def when(r):
            stamp, _, again = r.partition(".")
            return (stamp, int(again) if again != "" else -1)

        for i, r in enumerate(sorted(runs, key=when)):
            names[os.path.join(group, r)] = os.path.join(group, f"<RUN {i + 1}>")
    return names


def dump_tree(root) -> None:
    say(f"  tree of {root}")
    if not os.path.exists(root):
        say("    (absent)")
        return
    names = run_names(root)
    longest_first = sorted(names, key=len, reverse=True)

    def rename(text) -> str:
        for n in longest_first:
            text = text.replace(n, names[n])
        return text

    shown = []
    for base, dirs, files in os.walk(root):
        for n in files:
            p = os.path.join(base, n)
            shown.append((rename(p), p))
    for name, p in sorted(shown):
        say("   ", name)
        with open(p, "r", encoding="utf-8") as f:
            text = f.read()
        if p.endswith(".json"):
            try:
                text = json.dumps(scrub(json.loads(text)), indent=1, sort_keys=True)
            except ValueError:
                pass
        for line in rename(text).split("\n"):
            say("      |", _INTX.sub("_intx_<H>", line))


def clean_slate() -> None:
    for d in ["archive", "cache", "inputs", "transfers"]:
        shutil.rmtree(d, ignore_errors=True)


def section_d() -> None:
    section("D. CsvPaths: cold cache, warm memory, warm disk, child process")
    clean_slate()
    cs = new_csvpaths()
    say(" cold")
    for g, f, m in [
        ("basic", "plain", "collect_paths"),
        ("heads", "plain", "collect_paths"),
        ("basic", "blanks", "fast_forward_paths"),
        ("heads", "quoted", "next_paths"),
        ("modes", "blanks", "collect_paths"),
        ("basic", "ragged", "collect_by_line"),
    ]:
        run(cs, g, f, m)
    say(" warm memory: the same instance again, other order")
    for g, f, m in [
        ("basic", "ragged", "collect_by_line"),
        ("heads", "quoted", "next_paths"),
        ("heads", "plain", "collect_paths"),
        ("heads", "plain", "collect_paths"),
        ("basic", "plain", "collect_paths"),
        ("modes", "blanks", "fast_forward_by_line"),
        ("heads", "dupes", "next_by_line"),
    ]:
        run(cs, g, f, m)
    say(" cache on disk:", sorted_cache())
    say(" warm disk: a new instance")
    cs2 = new_csvpaths()
    for g, f, m in [
        ("heads", "plain", "collect_paths"),
        ("basic", "blanks", "fast_forward_paths"),
        ("heads", "quoted", "next_paths"),
        ("heads", "single", "collect_paths"),
        ("basic", "onlyblank", "collect_paths"),
        ("basic", "trailing", "collect_paths"),
        ("heads", "empties", "collect_by_line"),
    ]:
        run(cs2, g, f, m)
    say(" a csvpath made by CsvPaths, parsed by hand, next to a bare CsvPath")
    from csvpath import CsvPath

    for f in ["plain.csv", "blanks.csv", "quoted.csv", "empty.csv", "onlyblank.csv"]:
        for k in ["totals", "appendstr", "names"]:
            p = PATHS[k].replace("$F", "$" + f, 1)
            a = cs2.csvpath()
            b = CsvPath(print_default=False)
            for who, c in [("of csvpaths", a), ("bare", b)]:
                try:
                    lines = c.collect(p)
                    say("  ", who, k, f, lines, show_vars(c.variables), c._headers, c._line_monitor.dump())
                except Exception as ex:  # pylint: disable=W0718
                    say("  ", who, k, f, "EXCEPTION:", type(ex).__name__, last_line_of(ex))
    say(" child processes: first against the populated cache, then an empty one")
    for wipe in [False, True]:
        if wipe:
            shutil.rmtree("cache")
        out = subprocess.run(
            [sys.executable, os.path.abspath(__file__), "--child", os.getcwd()],
            capture_output=True,
            text=True,
            check=False,
        )
        say("  child rc:", out.returncode, "cache wiped first:", wipe)
        for line in out.stdout.split("\n"):
            say("   >", line)
        if out.returncode != 0:
            say("   stderr:", last_line_of(out.stderr))


def child(where) -> None:
    global HERE
    os.chdir(where)
    HERE = os.getcwd()
    cs = new_csvpaths()
    run(cs, "heads", "quoted", "collect_paths")
    run(cs, "basic", "blanks", "collect_paths")
    say(" cache on disk:", sorted_cache())


def section_e() -> None:
    section("E. CsvPaths: rewritten file, other dialect, damaged cache")
    cs = new_csvpaths()
    run(cs, "heads", "plain", "collect_paths")
    say(" the named file is replaced by other content under the same name")
    with open("plain.csv", "w", encoding="utf-8") as f:
        f.write("c,b,a,z\n1,5,1,v\n\n2,2,2,2\n")
    cs.file_manager.add_named_file(name="plain", path="plain.csv")
    run(cs, "heads", "plain", "collect_paths")
    run(cs, "basic", "plain", "collect_paths")
    say(" ... and put back")
    with open("plain.csv", "w", encoding="utf-8") as f:
        f.write(FILES["plain.csv"])
    cs.file_manager.add_named_file(name="plain", path="plain.csv")
    run(cs, "heads", "plain", "collect_paths")
    say(" the file is rewritten in place where the csvpath reads it (absolute path)")
    with open("abs.csv", "w", encoding="utf-8") as f:
        f.write("a,b,c\n1,2,3\n")
    cs.paths_manager.add_named_paths(
        name="abs",
        paths=[f"~id: t~ ${os.path.abspath('abs.csv')}[*][@t = total_lines() @h = header_name(0)]"],
    )
    direct = cs.csvpath()
    try:
        say("  ", direct.collect(f"${os.path.abspath('abs.csv')}[*][@t = total_lines() @h = header_name(0)]"), direct.variables)
        with open("abs.csv", "w", encoding="utf-8") as f:
            f.write("x,y\n1,2\n\n3,4\n5,6\n")
        direct = cs.csvpath()
        say("  ", direct.collect(f"${os.path.abspath('abs.csv')}[*][@t = total_lines() @h = header_name(0)]"), direct.variables)
    except Exception as ex:  # pylint: disable=W0718
        say("   EXCEPTION:", type(ex).__name__, last_line_of(ex))
    say(" a CsvPaths that reads with | and '")
    csp = new_csvpaths(delimiter="|", quotechar="'")
    run(csp, "heads", "pipes", "collect_paths")
    run(csp, "heads", "plain", "collect_paths")
    run(cs, "heads", "pipes", "collect_paths")
    say(" one CsvPaths whose dialect is changed between runs")
    cs.delimiter = "|"
    cs.quotechar = "'"
    run(cs, "heads", "pipes", "collect_paths")
    cs.delimiter = ","
    cs.quotechar = '"'
    run(cs, "heads", "pipes", "collect_paths")
    say(" cache on disk:", sorted_cache())
    say(" damaged cache files")
    for damage in ["empty-json", "blank-json", "bad-json", "short-json", "no-csv", "empty-csv", "blank-csv", "binary-json", "no-dir"]:
        if os.path.exists("cache"):
            for n in sorted(os.listdir("cache")):
                p = os.path.join("cache", n)
                if damage == "empty-json" and n.endswith(".json"):
                    open(p, "w", encoding="utf-8").close()
                elif damage == "blank-json" and n.endswith(".json"):
                    with open(p, "w", encoding="utf-8") as f:
                        f.write("  \n \n")
                elif damage == "bad-json" and n.endswith(".json"):
                    with open(p, "w", encoding="utf-8") as f:
                        f.write("{not json")
                elif damage == "short-json" and n.endswith(".json"):
                    with open(p, "w", encoding="utf-8") as f:
                        f.write('{"physical_end_line_count": 3}')
                elif damage == "binary-json" and n.endswith(".json"):
                    with open(p, "wb") as f:
                        f.write(b'{"a": 1}\n\xff\xfe\x00garbage')
                elif damage == "no-csv" and n.endswith(".csv"):
                    os.remove(p)
                elif damage == "empty-csv" and n.endswith(".csv"):
                    open(p, "w", encoding="utf-8").close()
                elif damage == "blank-csv" and n.endswith(".csv"):
                    with open(p, "w", encoding="utf-8") as f:
                        f.write("\n\n")
        if damage == "no-dir":
            shutil.rmtree("cache", ignore_errors=True)
        say(" damage:", damage)
        csd = new_csvpaths()
        run(csd, "heads", "quoted", "collect_paths")
        run(csd, "basic", "blanks", "collect_paths")
        say("  cache on disk:", sorted_cache())
        if damage in ("bad-json", "short-json", "binary-json"):
            shutil.rmtree("cache", ignore_errors=True)


def section_f() -> None:
    section("F. CsvPaths under the shipped raise policy, then the archive")
    write_config(SHIPPED)
    cs = new_csvpaths()
    for g, f, m in [
        ("trouble", "plain", "collect_paths"),
        ("trouble", "blanks", "fast_forward_paths"),
        ("trouble", "ragged", "collect_by_line"),
        ("heads", "ragged", "collect_paths"),
        ("basic", "quoted", "collect_paths"),
    ]:
        run(cs, g, f, m)
    write_config(LENIENT)
    cs = new_csvpaths()
    for g, f, m in [
        ("trouble", "plain", "collect_paths"),
        ("trouble", "blanks", "fast_forward_paths"),
        ("heads", "ragged", "collect_paths"),
    ]:
        run(cs, g, f, m)
    try:
        cs.collect_paths(pathsname="basic", filename="nosuchfile")
    except Exception as ex:  # pylint: disable=W0718
        say("  no such file EXCEPTION:", type(ex).__name__, last_line_of(ex))
    try:
        cs.collect_paths(pathsname="nosuchpaths", filename="plain")
    except Exception as ex:  # pylint: disable=W0718
        say("  no such paths EXCEPTION:", type(ex).__name__, last_line_of(ex))
    dump_tree("archive")
    say(" cache on disk:", sorted_cache())
    say(" inputs:")
    for base, dirs, files in os.walk("inputs"):
        dirs.sort()
        for n in sorted(files):
            if not n.endswith("manifest.json"):
                say("   ", os.path.join(base, n))


def main() -> None:
    global HERE
    if len(sys.argv) > 2 and sys.argv[1] == "--child":
        child(sys.argv[2])
        return
    where = tempfile.mkdtemp(prefix="demo_TZC19_")
    os.chdir(where)
    HERE = os.getcwd()
    try:
        write_config(LENIENT)
        write_files()
        section_a()
        section_b()
        section_c()
        write_files()
        section_d()
        section_e()
        section_f()
    finally:
        os.chdir("/")
        shutil.rmtree(where, ignore_errors=True)


if __name__ == "__main__":
    main()
