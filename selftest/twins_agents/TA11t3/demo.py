#
# differential demonstration for property C11 (named-files area is a versioned,
# content-addressed, immutable store).
#
# usage:  cd <empty temp dir> && PYTHONPATH=<csvpath tree> python demo.py > out.txt
#
# the script is self-contained: it writes its own ./config/config.ini, wipes and
# recreates ./inputs ./archive ./cache ./logs ./srcs in the current directory and
# prints a deterministic transcript of everything observable.
#
import os
import re
import time
import sys
import json
import shutil
import random
import hashlib
import itertools

CONFIG = """[csvpath_files]
extensions = txt, csvpath, csvpaths

[csv_files]
extensions = txt, csv, tsv, dat, tab, psv, ssv

[errors]
csvpath = raise, collect, stop, fail, print
csvpaths = raise, collect

[logging]
csvpath = info
csvpaths = info
log_file = logs/csvpath.log
log_files_to_keep = 100
log_file_size = 52428800

[config]
path = config/config.ini

[cache]
path = cache

[listeners]
[marquez]
base_url = http://localhost:5000

[functions]
imports = config/functions.imports

[results]
archive = archive
transfers = transfers

[inputs]
files = inputs/named_files
csvpaths = inputs/named_paths
on_unmatched_file_fingerprints = halt
"""

CWD = os.getcwd()
if os.path.exists(os.path.join(CWD, "csvpath")) or os.path.exists(
    os.path.join(CWD, ".git")
):
    print("refusing to run inside a source tree")
    sys.exit(2)

for d in ["inputs", "archive", "cache", "logs", "srcs", "config", "transfers"]:
    if os.path.exists(d):
        shutil.rmtree(d)
os.makedirs("config")
with open("config/config.ini", "w", encoding="utf-8") as f:
    f.write(CONFIG)
with open("config/functions.imports", "w", encoding="utf-8") as f:
    f.write("")

from csvpath import CsvPaths  # noqa: E402
from csvpath.managers.listener import Listener  # noqa: E402
from csvpath.managers.files.file_metadata import FileMetadata  # noqa: E402

NF = os.path.join("inputs", "named_files")

ISO = re.compile(r"\d{4}-\d{2}-\d{2}[T ]\d{2}:\d{2}:\d{2}(\.\d+)?(\+00:00|Z)?")
RUN = re.compile(r"\d{4}-\d{2}-\d{2}_\d{2}-\d{2}-\d{2}([_.]\d+)?")
UUID = re.compile(r"[0-9a-f]{8}-[0-9a-f]{4}-[0-9a-f]{4}-[0-9a-f]{4}-[0-9a-f]{12}")


def norm(s) -> str:
    s = str(s)
    s = s.replace(CWD, "<CWD>")
    s = ISO.sub("<TIME>", s)
    s = RUN.sub("<RUN>", s)
    s = UUID.sub("<UUID>", s)
    return s


def out(*args):
    print(norm(" ".join(str(a) for a in args)))


def sha(b: bytes) -> str:
    return hashlib.sha256(b).hexdigest()


def attempt(label, fn):
    if "_paths" in label:
        # every run lands in its own wall-clock second so that run directories
        # never need a disambiguating suffix
        time.sleep(1.1)
    try:
        r = fn()
        out(f"  {label} -> {r!r}")
        return r
    except BaseException as ex:  # noqa
        out(f"  {label} !! {type(ex).__name__}: {ex}")
        return None


def write(path, content: bytes):
    d = os.path.dirname(path)
    if d and not os.path.exists(d):
        os.makedirs(d)
    with open(path, "wb") as f:
        f.write(content)


def tree(root) -> list:
    lines = []
    if not os.path.exists(root):
        return [f"    <{root} does not exist>"]
    for base, dirs, files in os.walk(root):
        dirs.sort()
        if not dirs and not files:
            lines.append(f"    {base}/ (empty)")
        for fn in sorted(files):
            p = os.path.join(base, fn)
            with open(p, "rb") as f:
                b = f.read()
            if fn == "manifest.json" and root == NF:
                lines.append(f"    {p} manifest:")
                try:
                    j = json.loads(b.decode("utf-8"))
                    for e in j:
                        lines.append("      " + json.dumps(e, sort_keys=False))
                    if len(j) == 0:
                        lines.append("      []")
                except Exception as ex:  # noqa
                    lines.append(f"      unparseable {type(ex).__name__}")
            else:
                lines.append(f"    {p} size={len(b)} sha256={sha(b)}")
    return lines


def observe(cp, names) -> list:
    """everything the public api says about the names. NB: asking creates
    manifest.json files in homes that lack one, so tree is captured after"""
    lines = []
    fm = cp.file_manager
    for n in names:
        try:
            p = fm.get_named_file(n)
        except BaseException as ex:  # noqa
            p = f"!! {type(ex).__name__}: {ex}"
        lines.append(f"    get_named_file({n}) = {p}")
        try:
            fp = fm.get_fingerprint_for_name(n)
        except BaseException as ex:  # noqa
            fp = f"!! {type(ex).__name__}: {ex}"
        lines.append(f"    get_fingerprint_for_name({n}) = {fp}")
        try:
            t = fm.registrar.type_of_file(fm.named_file_home(n))
        except BaseException as ex:  # noqa
            t = f"!! {type(ex).__name__}: {ex}"
        lines.append(f"    type_of_file({n}) = {t}")
        lines.append(f"    name_exists({n}) = {fm.name_exists(n)}")
    try:
        lines.append(f"    named_file_names = {sorted(fm.named_file_names)}")
        lines.append(f"    named_files_count = {fm.named_files_count}")
    except BaseException as ex:  # noqa
        lines.append(f"    named_file_names !! {type(ex).__name__}: {ex}")
    lines += tree(NF)
    return lines


def reset_area():
    if os.path.exists("inputs"):
        shutil.rmtree("inputs")
    if os.path.exists("srcs"):
        shutil.rmtree("srcs")
    os.makedirs("srcs")


class Spy(Listener):
    """a second metadata listener; shows what and how often is distributed"""

    def __init__(self):
        super().__init__()
        self.seen = []

    def metadata_update(self, mdata) -> None:
        self.seen.append(
            norm(
                f"name={mdata.named_file_name} origin={mdata.origin_path} "
                f"name_home={mdata.name_home} file_path={mdata.file_path} "
                f"file_home={mdata.file_home} file_name={mdata.file_name} "
                f"mark={mdata.mark!r} type={mdata.type} fp={mdata.fingerprint} "
                f"manifest={mdata.manifest_path} archive={mdata.archive_name} "
                f"time={mdata.time_string}"
            )
        )


# ======================================================================
# abstract model
# ======================================================================
class Model:
    def __init__(self):
        self.versions = {}  # name -> list of (fingerprint, file_home)
        self.files = {}  # name -> { stored path : bytes }

    def add(self, name, src, content: bytes):
        base = os.path.basename(src)
        home = os.path.join(NF, name, base)
        fp = sha(content)
        ext = base[base.find(".") + 1 :]
        stored = os.path.join(home, f"{fp}.{ext}")
        vs = self.versions.setdefault(name, [])
        fs = self.files.setdefault(name, {})
        fs[stored] = content
        if not vs or vs[-1] != (fp, home, stored):
            vs.append((fp, home, stored))

    def remove(self, name):
        self.versions.pop(name, None)
        self.files.pop(name, None)

    def check(self, cp, names) -> str:
        fm = cp.file_manager
        problems = []
        for n in names:
            if n not in self.versions:
                if os.path.exists(os.path.join(NF, n)):
                    problems.append(f"{n}: home exists but model has no such name")
                if fm.get_named_file(n) is not None:
                    problems.append(f"{n}: get_named_file not None")
                continue
            vs = self.versions[n]
            cur = fm.get_named_file(n)
            if cur != vs[-1][2]:
                problems.append(f"{n}: current {cur} != {vs[-1][2]}")
            else:
                with open(cur, "rb") as f:
                    b = f.read()
                if b != self.files[n][cur]:
                    problems.append(f"{n}: bytes of current differ")
                if os.path.basename(cur).split(".")[0] != sha(b):
                    problems.append(f"{n}: file name is not the sha256")
            if fm.get_fingerprint_for_name(n) != vs[-1][0]:
                problems.append(f"{n}: fingerprint differs")
            with open(os.path.join(NF, n, "manifest.json"), "r") as f:
                man = json.load(f)
            got = [(e["fingerprint"], e["file_home"], e["file"]) for e in man]
            if got != vs:
                problems.append(f"{n}: manifest {got} != {vs}")
            ondisk = {}
            for base, dirs, files in os.walk(os.path.join(NF, n)):
                for fn in files:
                    if fn == "manifest.json" and base == os.path.join(NF, n):
                        continue
                    p = os.path.join(base, fn)
                    with open(p, "rb") as f:
                        ondisk[p] = f.read()
            if ondisk != self.files[n]:
                problems.append(
                    f"{n}: stored files {sorted(ondisk)} != {sorted(self.files[n])}"
                )
        return "MODEL-OK" if not problems else "MODEL-MISMATCH " + "; ".join(problems)


NAMES = ["n1", "n2"]
SOURCES = ["srcs/a.csv", "srcs/b.csv"]
CONTENTS = [
    b"a,b\n1,2\n",
    b"a,b\n\n1\n3,4,5\n,,\n0,\n\n",  # blank lines, ragged rows, empty values, zero
    b"",  # the empty file
]

OPS = []
for n in NAMES:
    for s in SOURCES:
        for c in range(len(CONTENTS)):
            OPS.append(("add", n, s, c))
for s in SOURCES:
    OPS.append(("mutate", s))
for n in NAMES:
    OPS.append(("remove", n))
OPS.append(("new",))


def apply_op(op, state, contents, log=None):
    """state is a dict with cp and model. returns a one-line description"""
    cp = state["cp"]
    model = state["model"]
    if op[0] == "add":
        _, n, s, c = op
        write(s, contents[c])
        try:
            cp.file_manager.add_named_file(name=n, path=s)
            model.add(n, s, contents[c])
            return f"add({n},{s},c{c}) ok"
        except BaseException as ex:  # noqa
            return f"add({n},{s},c{c}) !! {type(ex).__name__}: {ex}"
    if op[0] == "mutate":
        _, s = op
        write(s, b"MUTATED,after,registration\n9,9,9\n")
        return f"mutate({s})"
    if op[0] == "remove":
        _, n = op
        try:
            cp.file_manager.remove_named_file(n)
            model.remove(n)
            return f"remove({n}) ok"
        except BaseException as ex:  # noqa
            return f"remove({n}) !! {type(ex).__name__}: {ex}"
    if op[0] == "new":
        state["cp"] = CsvPaths()
        return "new instance"
    raise Exception(f"unknown {op}")


def run_sequence(seq, contents, names, verbose: bool):
    reset_area()
    state = {"cp": CsvPaths(), "model": Model()}
    lines = []
    verdicts = []
    for op in seq:
        d = apply_op(op, state, contents)
        v = state["model"].check(state["cp"], names)
        verdicts.append(v)
        lines.append(f"  op {d} : {v}")
        if verbose:
            lines += observe(state["cp"], names)
    if not verbose:
        lines += observe(state["cp"], names)
    return lines, verdicts


# ======================================================================
out("=== section 1: exhaustive sequences of length 1 and 2, full final state")
for ln in (1, 2):
    for seq in itertools.product(OPS, repeat=ln):
        lines, verdicts = run_sequence(seq, CONTENTS, NAMES, verbose=False)
        out(f"seq {seq}")
        for line in lines:
            out(line)

# ======================================================================
out("=== section 2: exhaustive sequences of length 3, digest of transcript")
bad = 0
count = 0
for seq in itertools.product(OPS, repeat=3):
    lines, verdicts = run_sequence(seq, CONTENTS, NAMES, verbose=False)
    count += 1
    text = norm("\n".join(lines))
    # the manifest times were normalised by norm()
    ok = all(v == "MODEL-OK" for v in verdicts)
    if not ok:
        bad += 1
    out(f"seq {seq} model={'OK' if ok else 'MISMATCH'} digest={sha(text.encode())}")
out(f"length-3 sequences: {count}, model mismatches: {bad}")

# ======================================================================
out("=== section 3: random longer sequences, full trace after every op")
rnd = random.Random(20240611)
NAMES3 = ["n1", "n2", "n.3"]
SOURCES3 = [
    "srcs/a.csv",
    "srcs/b.csv",
    "srcs/x/a.csv",  # same file name as srcs/a.csv, different directory
    "srcs/x/multi.dot.name.csv",
    os.path.join(CWD, "srcs", "abs.txt"),  # absolute path
]
CONTENTS3 = CONTENTS + [
    b"0",
    b"\n\n\n",
    b"a,b\r\n1,2\r\n",
    "näme,väl\nü,0\n".encode("utf-8"),
    b"no trailing newline,1",
]
OPS3 = []
for n in NAMES3:
    for s in SOURCES3:
        for c in range(len(CONTENTS3)):
            OPS3.append(("add", n, s, c))
for i in range(12):
    OPS3.append(("mutate", SOURCES3[i % len(SOURCES3)]))
for i in range(9):
    OPS3.append(("remove", NAMES3[i % len(NAMES3)]))
for i in range(8):
    OPS3.append(("new",))
for i in range(40):
    ln = rnd.randint(7, 14)
    seq = [rnd.choice(OPS3) for _ in range(ln)]
    # bias toward repeats: sometimes do the previous op again
    seq2 = []
    for op in seq:
        seq2.append(op)
        if rnd.random() < 0.3:
            seq2.append(op)
    lines, verdicts = run_sequence(seq2, CONTENTS3, NAMES3, verbose=True)
    out(f"random seq {i}: {len(seq2)} ops")
    for line in lines:
        out(line)

# ======================================================================
out("=== section 4: edge and error cases of add_named_file / get_named_file")
reset_area()
cp = CsvPaths()
fm = cp.file_manager
spy = Spy()
fm.registrar.add_listener(spy)
write("srcs/a.csv", CONTENTS[0])
write("srcs/noext", b"x,y\n1,2\n")
write("srcs/.hidden", b"x,y\n1,2\n")
write("srcs/trailingdot.", b"x,y\n1,2\n")
write("srcs/two.dots.csv", CONTENTS[1])
write("srcs/book.xlsx", b"not really excel")
write("srcs/UPPER.CSV", b"A,B\n")
write("srcs/dir.with.dot/plain.csv", b"p\n0\n")
selfnamed = f"srcs/{sha(CONTENTS[0])}.csv"
write(selfnamed, CONTENTS[0])
out("-- add with marks")
attempt("add a#sheet1", lambda: fm.add_named_file(name="marked", path="srcs/a.csv#sheet1"))
attempt("add a#sheet1 again", lambda: fm.add_named_file(name="marked", path="srcs/a.csv#sheet1"))
attempt("add a#sheet2", lambda: fm.add_named_file(name="marked", path="srcs/a.csv#sheet2"))
attempt("add a (no mark)", lambda: fm.add_named_file(name="marked", path="srcs/a.csv"))
attempt("add a#", lambda: fm.add_named_file(name="marked", path="srcs/a.csv#"))
attempt("add a#x#y", lambda: fm.add_named_file(name="marked", path="srcs/a.csv#x#y"))
attempt("add xlsx#Sheet 2", lambda: fm.add_named_file(name="marked", path="srcs/book.xlsx#Sheet 2"))
for line in observe(cp, ["marked"]):
    out(line)
out("-- odd file names")
attempt("add noext", lambda: fm.add_named_file(name="odd1", path="srcs/noext"))
attempt("add .hidden", lambda: fm.add_named_file(name="odd2", path="srcs/.hidden"))
attempt("add trailingdot.", lambda: fm.add_named_file(name="odd3", path="srcs/trailingdot."))
attempt("add two.dots.csv", lambda: fm.add_named_file(name="odd4", path="srcs/two.dots.csv"))
attempt("add UPPER.CSV", lambda: fm.add_named_file(name="odd5", path="srcs/UPPER.CSV"))
attempt("add dir.with.dot/plain.csv", lambda: fm.add_named_file(name="odd6", path="srcs/dir.with.dot/plain.csv"))
attempt("add bare file name", lambda: fm.add_named_file(name="odd7", path="config.ini"))
attempt("add self-named (hash) file", lambda: fm.add_named_file(name="odd8", path=selfnamed))
attempt("add ./srcs/a.csv", lambda: fm.add_named_file(name="odd9", path="./srcs/a.csv"))
attempt("add srcs//a.csv", lambda: fm.add_named_file(name="odd9", path="srcs//a.csv"))
attempt("add srcs/a.csv/", lambda: fm.add_named_file(name="odd10", path="srcs/a.csv/"))
for line in observe(cp, [f"odd{i}" for i in range(1, 11)]):
    out(line)
out("-- missing sources, bad arguments")
attempt("add missing", lambda: fm.add_named_file(name="miss", path="srcs/missing.csv"))
attempt("add missing#m", lambda: fm.add_named_file(name="miss", path="srcs/missing.csv#m"))
attempt("add a directory", lambda: fm.add_named_file(name="adir", path="srcs"))
attempt("add empty path", lambda: fm.add_named_file(name="empty", path=""))
attempt("add None path", lambda: fm.add_named_file(name="nonepath", path=None))
attempt("add None name", lambda: fm.add_named_file(name=None, path="srcs/a.csv"))
attempt("add empty name", lambda: fm.add_named_file(name="", path="srcs/a.csv"))
attempt("add name with #", lambda: fm.add_named_file(name="ha#sh", path="srcs/a.csv"))
attempt("add name with sep", lambda: fm.add_named_file(name="deep/er", path="srcs/a.csv"))
attempt("positional args", lambda: fm.add_named_file("n", "srcs/a.csv"))
for line in observe(cp, ["miss", "adir", "empty", "nonepath", "ha#sh", "ha", "deep", "deep/er"]):
    out(line)
out("-- get_named_file variants")
attempt("get unknown", lambda: fm.get_named_file("unknown"))
attempt("get empty name", lambda: fm.get_named_file(""))
attempt("get None", lambda: fm.get_named_file(None))
attempt("get $ref wrong type", lambda: fm.get_named_file("$many.csvpaths.one"))
attempt("get $ref results no run", lambda: fm.get_named_file("$nothing.results.2024-01-01_10-15-20.mypath"))
attempt("fingerprint of $ref", lambda: fm.get_fingerprint_for_name("$x.results.y.z"))
attempt("fingerprint unknown", lambda: fm.get_fingerprint_for_name("unknown2"))
attempt("reader unknown", lambda: fm.get_named_file_reader("unknown3"))
for line in tree(NF):
    out(line)
out("-- the fingerprinting step called directly on staged directories")
STAGED = [
    ("plain.csv", b"p,q\n1,2\n"),
    ("marked.csv#m", b"p,q\n1,2\n"),
    ("marked.xlsx#sheet#2", b"zz"),
    ("dots.a.b.c", b"0"),
    ("noext", b"n"),
    (".rc", b""),
    ("end.", b"e"),
    ("hash#only", b"h"),
    ("dot.#", b"d"),
]
for fn, content in STAGED:
    d = os.path.join("srcs", "staged", fn)
    write(os.path.join(d, fn), content)
    attempt(f"_fingerprint {fn}", lambda: fm._fingerprint(d))
    attempt(f"_fingerprint {fn} nothing staged", lambda: fm._fingerprint(d))
    write(os.path.join(d, fn), content)
    attempt(f"_fingerprint {fn} restaged same", lambda: fm._fingerprint(d))
    write(os.path.join(d, fn), content + b"more")
    attempt(f"_fingerprint {fn} restaged changed", lambda: fm._fingerprint(d))
attempt("_fingerprint missing dir", lambda: fm._fingerprint(os.path.join("srcs", "staged", "nodir.csv")))
attempt("_fingerprint None", lambda: fm._fingerprint(None))
attempt("_fingerprint empty", lambda: fm._fingerprint(""))
write("plain2.csv/plain2.csv", b"cwd relative, no separator in path")
attempt("_fingerprint no separator", lambda: fm._fingerprint("plain2.csv"))
for line in tree(os.path.join("srcs", "staged")) + tree("plain2.csv"):
    out(line)
shutil.rmtree("plain2.csv")
out("-- readers over registered content")
for n in ["marked", "odd4", "odd5", "odd6"]:
    def rd(n=n):
        r = fm.get_named_file_reader(n)
        return [type(r).__name__, r._path if hasattr(r, "_path") else None, [ln for ln in r.next()]]
    attempt(f"reader {n}", rd)
out("-- what the second listener saw")
for s in spy.seen:
    out("  " + s)

# ======================================================================
out("=== section 5: registrar called directly")
reset_area()
cp = CsvPaths()
fm = cp.file_manager
reg = fm.registrar
spy = Spy()
reg.add_listener(spy)
write("srcs/a.csv", CONTENTS[0])
home = fm.assure_named_file_home("direct")


def md(**kw):
    m = FileMetadata(cp.config)
    m.named_file_name = "direct"
    m.name_home = home
    m.origin_path = "srcs/a.csv"
    m.file_home = os.path.join(home, "a.csv")
    m.file_path = os.path.join(home, "a.csv", "abc.csv")
    m.file_name = "a.csv"
    m.fingerprint = "abc"
    m.archive_name = "archive"
    for k, v in kw.items():
        setattr(m, k, v)
    return m


attempt("register ok", lambda: reg.register_complete(md()))
attempt("register same again", lambda: reg.register_complete(md()))
attempt("register new fingerprint", lambda: reg.register_complete(md(fingerprint="def")))
attempt("register new file_home", lambda: reg.register_complete(md(fingerprint="def", file_home=os.path.join(home, "b.csv"))))
attempt("register fingerprint None", lambda: reg.register_complete(md(fingerprint=None)))
attempt("register fingerprint None again", lambda: reg.register_complete(md(fingerprint=None)))
attempt("register file_home None", lambda: reg.register_complete(md(file_home=None)))
attempt("register file_home None again", lambda: reg.register_complete(md(file_home=None)))
attempt("register mark mismatch", lambda: reg.register_complete(md(mark="m")))
attempt("register mark mismatch 2", lambda: reg.register_complete(md(origin_path="srcs/a.csv#m")))
attempt("register with mark", lambda: reg.register_complete(md(origin_path="srcs/a.csv#m", mark="m")))
attempt("register with empty mark", lambda: reg.register_complete(md(origin_path="srcs/a.csv#", mark="")))
attempt("register missing origin", lambda: reg.register_complete(md(origin_path="srcs/nope.csv")))
attempt("register s3 origin", lambda: reg.register_complete(md(origin_path="s3://bucket/key.csv", fingerprint="s3s3")))
attempt("register no-dot origin", lambda: reg.register_complete(md(origin_path="srcs", fingerprint="nodot")))
attempt("register missing home", lambda: reg.register_complete(md(name_home=os.path.join(NF, "nohome"))))
attempt("register None mdata", lambda: reg.register_complete(None))
attempt("distribute None", lambda: reg.distribute_update(None))
attempt("register_start", lambda: reg.register_start(md(fingerprint="started", manifest_path=os.path.join(home, "manifest.json"))))
attempt("registered_file", lambda: reg.registered_file(home))
attempt("get_fingerprint", lambda: reg.get_fingerprint(home))
attempt("type_of_file", lambda: reg.type_of_file(home))
attempt("manifest_path", lambda: reg.manifest_path(home))
attempt("get_manifest", lambda: norm(json.dumps(reg.get_manifest(reg.manifest_path(home)))))
out("-- homes without / with empty / with broken manifests")
os.makedirs(os.path.join(NF, "bare"))
attempt("registered_file bare", lambda: reg.registered_file(os.path.join(NF, "bare")))
attempt("get_fingerprint bare", lambda: reg.get_fingerprint(os.path.join(NF, "bare")))
attempt("type_of_file bare", lambda: reg.type_of_file(os.path.join(NF, "bare")))
attempt("get_named_file bare", lambda: fm.get_named_file("bare"))
attempt("registered_file nohome", lambda: reg.registered_file(os.path.join(NF, "nohome")))
attempt("get_fingerprint nohome", lambda: reg.get_fingerprint(os.path.join(NF, "nohome")))
os.makedirs(os.path.join(NF, "nullman"))
write(os.path.join(NF, "nullman", "manifest.json"), b"null")
attempt("registered_file nullman", lambda: reg.registered_file(os.path.join(NF, "nullman")))
attempt("get_fingerprint nullman", lambda: reg.get_fingerprint(os.path.join(NF, "nullman")))
os.makedirs(os.path.join(NF, "junkman"))
write(os.path.join(NF, "junkman", "manifest.json"), b"{not json")
attempt("registered_file junkman", lambda: reg.registered_file(os.path.join(NF, "junkman")))
attempt("get_fingerprint junkman", lambda: reg.get_fingerprint(os.path.join(NF, "junkman")))
write("srcs/j.csv", b"j\n")
attempt("add over junk manifest", lambda: fm.add_named_file(name="junkman", path="srcs/j.csv"))
os.makedirs(os.path.join(NF, "partial"))
write(os.path.join(NF, "partial", "manifest.json"), b'[{"file":"only/file.csv"}]')
attempt("registered_file partial", lambda: reg.registered_file(os.path.join(NF, "partial")))
attempt("get_fingerprint partial", lambda: reg.get_fingerprint(os.path.join(NF, "partial")))
attempt("type_of_file partial", lambda: reg.type_of_file(os.path.join(NF, "partial")))
attempt("add over partial manifest", lambda: fm.add_named_file(name="partial", path="srcs/j.csv"))
attempt("add over partial manifest again", lambda: fm.add_named_file(name="partial", path="srcs/j.csv"))
os.makedirs(os.path.join(NF, "nomark"))
write(os.path.join(NF, "nomark", "manifest.json"), b'[{"file":"x/y.csv","mark":null},{"fingerprint":"q"}]')
attempt("registered_file nomark", lambda: reg.registered_file(os.path.join(NF, "nomark")))
write(os.path.join(NF, "nomark", "manifest.json"), b'[{"file":"x/y.csv","mark":null}]')
attempt("registered_file nullmark", lambda: reg.registered_file(os.path.join(NF, "nomark")))
write(os.path.join(NF, "nomark", "manifest.json"), b'[{"file":"x/y.csv","mark":""}]')
attempt("registered_file emptymark", lambda: reg.registered_file(os.path.join(NF, "nomark")))
write(os.path.join(NF, "nomark", "manifest.json"), b'[{"file":"x/y.csv","mark":0}]')
attempt("registered_file zeromark", lambda: reg.registered_file(os.path.join(NF, "nomark")))
for line in tree(NF):
    out(line)
out("-- what the second listener saw")
for s in spy.seen:
    out("  " + s)
out("-- listeners management")
out("  listeners:", [type(x).__name__ for x in reg.listeners])
reg.remove_listener(reg)
out("  after remove self:", [type(x).__name__ for x in reg.listeners])
reg.remove_listener(spy)
out("  after remove spy:", [type(x).__name__ for x in reg.listeners])
reg.listeners.insert(0, spy)
attempt("registrar not first", lambda: reg.register_complete(md(fingerprint="zzz")))
reg.remove_listeners()
out("  after remove all:", [type(x).__name__ for x in reg.listeners])

# ======================================================================
out("=== section 6: bulk registration helpers")
reset_area()
cp = CsvPaths()
fm = cp.file_manager
write("srcs/bulk/one.csv", b"a\n1\n")
write("srcs/bulk/two.txt", b"a\n2\n")
write("srcs/bulk/three.json", b"{}")
write("srcs/bulk/four.v2.csv", b"a\n4\n")
write("srcs/bulk/FIVE.CSV", b"a\n5\n")
write("srcs/bulk/six", b"a\n6\n")
# add_named_files_from_dir follows os.listdir order; we register in sorted order
# file by file to keep the transcript independent of directory hash order
for fn in sorted(os.listdir("srcs/bulk")):
    os.makedirs("srcs/one_at_a_time", exist_ok=True)
    for g in os.listdir("srcs/one_at_a_time"):
        os.remove(os.path.join("srcs/one_at_a_time", g))
    shutil.copy(os.path.join("srcs/bulk", fn), os.path.join("srcs/one_at_a_time", fn))
    attempt(f"from dir [{fn}]", lambda: fm.add_named_files_from_dir("srcs/one_at_a_time"))
attempt("set_named_files", lambda: fm.set_named_files({"s1": "srcs/bulk/one.csv", "s2": "srcs/bulk/two.txt", "one": "srcs/bulk/two.txt"}))
with open("srcs/named.json", "w") as f:
    json.dump({"j1": "srcs/bulk/one.csv", "j2": "srcs/bulk/four.v2.csv#mark"}, f)
attempt("set_named_files_from_json", lambda: fm.set_named_files_from_json("srcs/named.json"))
for line in observe(cp, ["one", "two", "three", "four.v2", "FIVE", "six", "s1", "s2", "j1", "j2"]):
    out(line)
attempt("remove one", lambda: fm.remove_named_file("one"))
attempt("remove one again", lambda: fm.remove_named_file("one"))
attempt("remove all", lambda: fm.remove_all_named_files())
for line in observe(cp, ["one", "s1"]):
    out(line)

# ======================================================================
out("=== section 7: runs against versions of a named file; archive contents")
reset_area()
cp = CsvPaths()
write("srcs/f.csv", b"a,b,c\n1,2,3\n\n4,5\n,,\n0,0,0\n3,,x\n")
cp.file_manager.add_named_file(name="f", path="srcs/f.csv")
cp.paths_manager.add_named_paths(
    name="p",
    paths=[
        "$[*][yes()]",
        '~id:two~ $[*][#a=="3" @n = count() print("line $.csvpath.line_number: $.variables.n")]',
    ],
)


def show_results(cp, name):
    for r in cp.results_manager.get_named_results(name):
        out(f"  result {r.csvpath.identity!r}: valid={r.csvpath.is_valid} lines={None if r.lines is None else [ln for ln in r.lines.next()]}")
        out(f"    variables={dict(r.csvpath.variables)} errors={len(r.errors) if r.errors is not None else None} printouts={r.get_printouts()}")
        out(f"    file={r.csvpath.scanner.filename if r.csvpath.scanner else None} origin_data_file={r.origin_data_file} file_name={r.file_name}")


attempt("collect_paths v1", lambda: cp.collect_paths(filename="f", pathsname="p"))
show_results(cp, "p")
# edit the source after registration: registered content must not move
write("srcs/f.csv", b"a,b,c\n3,3,3\n")
cp2 = CsvPaths()
attempt("fast_forward_paths after source edit, fresh instance", lambda: cp2.fast_forward_paths(filename="f", pathsname="p"))
show_results(cp2, "p")
cp2.file_manager.add_named_file(name="f", path="srcs/f.csv")
attempt("collect_paths v2", lambda: cp2.collect_paths(filename="f", pathsname="p"))
show_results(cp2, "p")
attempt("collect_paths unknown file", lambda: cp2.collect_paths(filename="nofile", pathsname="p"))
out("-- get_named_file with references to results")
for run in sorted(os.listdir(os.path.join("archive", "p"))):
    if run == "manifest.json":
        continue
    for inst in ["two", "0", "nosuch"]:
        attempt(f"get $p.results.{run}:{inst}", lambda: cp2.file_manager.get_named_file(f"$p.results.{run}.{inst}"))
        attempt(f"fingerprint $p.results.{run}:{inst}", lambda: cp2.file_manager.get_fingerprint_for_name(f"$p.results.{run}.{inst}"))
attempt("get $p.results.2024-01-01_10-15-20.two", lambda: cp2.file_manager.get_named_file("$p.results.2024-01-01_10-15-20.two"))
attempt("get $p.variables.x", lambda: cp2.file_manager.get_named_file("$p.variables.x"))
attempt("get $", lambda: cp2.file_manager.get_named_file("$"))
attempt("get $p", lambda: cp2.file_manager.get_named_file("$p"))
out("-- removal")
attempt("remove f", lambda: cp2.file_manager.remove_named_file("f"))
attempt("get f", lambda: cp2.file_manager.get_named_file("f"))
attempt("remove f again", lambda: cp2.file_manager.remove_named_file("f"))
attempt("remove None", lambda: cp2.file_manager.remove_named_file(None))
attempt("collect_paths removed file", lambda: cp2.collect_paths(filename="f", pathsname="p"))
cp2.file_manager.add_named_file(name="f", path="srcs/f.csv")
for line in observe(cp2, ["f", "nofile"]):
    out(line)


def scrub(j):
    """drops wall-clock dependent values from archive json"""
    if isinstance(j, list):
        return [scrub(x) for x in j]
    if isinstance(j, dict):
        r = {}
        for k, v in j.items():
            if "time" in k:
                r[k] = "<T>"
            elif k == "file_fingerprints" and isinstance(v, dict):
                # meta.json and manifest.json contain times, so their hashes vary
                r[k] = {
                    fk: (fv if fk in ("data.csv", "unmatched.csv", "printouts.txt", "vars.json", "errors.json") else "<varies>")
                    for fk, fv in v.items()
                }
            else:
                r[k] = scrub(v)
        return r
    return j


out("-- archive")
for base, dirs, files in os.walk("archive"):
    dirs.sort()
    for fn in sorted(files):
        p = os.path.join(base, fn)
        with open(p, "r", encoding="utf-8") as f:
            t = f.read()
        out(f"  {p}:")
        if fn.endswith(".json"):
            try:
                j = scrub(json.loads(t))
                t = json.dumps(j, indent=1, sort_keys=True)
            except Exception:  # noqa
                pass
        for line in t.split("\n"):
            out("     | " + line)
out("=== done")
