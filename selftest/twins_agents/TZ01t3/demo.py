#!/usr/bin/env python
"""Differential demonstration for t3 (vote bookkeeping and call-site normalisations).

Run in an empty scratch directory:

    mkdir /tmp/demo_TZC01_3 && cd /tmp/demo_TZC01_3
    PYTHONPATH=/tmp/wt/TZC01 /venv/bin/python /tmp/wt/TZC01.out/t3/demo.py > out.txt

The transcript is deterministic: it must be byte-identical for unmodified
HEAD and for HEAD + patch.diff.
"""
import json
import os
import re
import shutil
import sys

CONFIG = """[csvpath_files]
extensions = txt, csvpath, csvpaths

[csv_files]
extensions = txt, csv, tsv, dat, tab, psv, ssv

[errors]
csvpath = raise, collect, stop, fail, print
csvpaths = raise, collect

[logging]
csvpath = info
csvpaths = info
log_file = logs/csvpath.log
log_files_to_keep = 100
log_file_size = 52428800

[config]
path = config/config.ini

[cache]
path = cache

[listeners]
[marquez]
base_url = http://localhost:5000

[functions]
imports = config/functions.imports

[results]
archive = archive
transfers = transfers

[inputs]
files = inputs/named_files
csvpaths = inputs/named_paths
on_unmatched_file_fingerprints = halt
"""

for d in ("config", "logs", "cache", "archive", "inputs"):
    shutil.rmtree(d, ignore_errors=True)
os.makedirs("config")
with open("config/config.ini", "w", encoding="utf-8") as f:
    f.write(CONFIG)
with open("config/functions.imports", "w", encoding="utf-8") as f:
    f.write("")

from csvpath import CsvPath  # noqa: E402
from csvpath.util.printer import Printer  # noqa: E402
from csvpath.matching.productions import Term, Equality  # noqa: E402
from csvpath.matching.matcher import Matcher  # noqa: E402

CWD = os.getcwd()


def norm(s) -> str:
    s = f"{s}"
    s = s.replace(CWD, "<CWD>")
    s = re.sub(r"0x[0-9a-fA-F]+", "0x?", s)
    # lark lists the tokens it expected in set order, which varies per process
    s = re.sub(
        r"^\t\* \w+(?:\n\t\* \w+)*$",
        lambda mo: "\n".join(sorted(mo.group(0).split("\n"))),
        s,
        flags=re.M,
    )
    return s


def trace_shape(trace) -> str:
    """function names of the frames only: file paths and line numbers move
    with every edit of a source file."""
    if not trace:
        return "-"
    return ">".join(re.findall(r", in (\S+)", trace))


class CapPrinter(Printer):
    def __init__(self):
        self.lines = []

    @property
    def last_line(self):
        return self.lines[-1] if self.lines else None

    @property
    def lines_printed(self) -> int:
        return len(self.lines)

    def print(self, string: str) -> None:
        self.print_to(None, string)

    def print_to(self, name: str, string: str) -> None:
        self.lines.append(f"[{name}] {string}")


def write(name: str, text: str) -> None:
    with open(name, "w", encoding="utf-8", newline="") as f:
        f.write(text)


def fresh(policy=None, **kw):
    p = CsvPath(print_default=False, **kw)
    pr = CapPrinter()
    p.add_printer(pr)
    if policy is not None:
        p.config.csvpath_errors_policy = policy
    return p, pr


def report(p, pr) -> None:
    print("   variables:", norm(json.dumps(p.variables, sort_keys=True, default=str)))
    print(
        "   is_valid:",
        p.is_valid,
        "stopped:",
        p.stopped,
        "aborted:",
        p.aborted,
        "scan_count:",
        p.scan_count,
        "match_count:",
        p.match_count,
    )
    print("   headers:", p.headers)
    es = p.errors or []
    print("   errors:", len(es))
    for e in es:
        print(
            "     -",
            type(e.error).__name__,
            "|",
            norm(e.error),
            "| line",
            e.line_count,
            "scan",
            e.scan_count,
            "match",
            e.match_count,
            "| source",
            norm(e.source),
            "| trace",
            trace_shape(e.trace),
            "| json",
            norm(" ".join(f"{e.json}".split())),
        )
    print("   printouts:", len(pr.lines))
    for ln in pr.lines:
        print("     >", norm(ln))
    if p.unmatched is not None:
        print("   unmatched:", p.unmatched)


def run(label, csvpath, *, policy=None, method="collect", **kw) -> None:
    print(f"== {label}: {csvpath}  policy={policy} method={method}")
    p, pr = fresh(policy, **kw)
    try:
        p.parse(csvpath)
        if method == "collect":
            lines = p.collect()
            print("   lines:", lines)
        elif method == "next":
            lines = []
            for ln in p.next():
                lines.append(list(ln))
            print("   lines:", lines)
        else:
            p.fast_forward()
            print("   fast_forward done")
    except Exception as ex:  # pylint: disable=W0718
        print("   RAISED:", type(ex).__name__, "|", norm(ex))
    report(p, pr)


# ---------------------------------------------------------------- files
write(
    "v.csv",
    "k,n,t\n"
    "x,1,aa\n"
    "y,2,\n"
    "\n"
    "x,3,cc\n"
    "z\n"
    ",,\n"
    "x,0,ee\n"
    "y,12,ff,extra\n"
    "x,12,gg\n",
)
write("vblank.csv", "k,n,t\nx,1,aa\ny,2,\n\n")
write("one.csv", "k,n,t\n")
write("empty.csv", "")

LOOSE = ["collect", "print"]

PATHS = [
    # one to six components, AND
    "$v.csv[*][yes()]",
    "$v.csv[*][no()]",
    "$v.csv[*][#k == \"x\"]",
    "$v.csv[*][#k == \"x\" #n]",
    "$v.csv[*][#k == \"x\" gt(#n, 1)]",
    "$v.csv[*][gt(#n, 1) #k == \"x\"]",
    "$v.csv[*][#k #n #t]",
    "$v.csv[*][#t #n #k]",
    "$v.csv[*][#k == \"x\" gt(#n, 0) #t lt(#n, 12)]",
    "$v.csv[*][yes() #k == \"x\" not(#n == 3) #t or(#n == 1, #n == 12) length(#t) == 2]",
    "$v.csv[1*][#n == 12 #k == \"y\"]",
    "$v.csv[1*][#n == 1]",
    "$v.csv[1*][#n == 12]",
    "$v.csv[1*][#n == \"12\"]",
    "$v.csv[1*][gt(#n, 9)]",
    "$v.csv[1*][above(#n, 11)]",
    "$v.csv[1*][below(#n, 2)]",
    "$v.csv[1*][between(#n, 0, 3)]",
    "$v.csv[1*][in(#k, \"x|z\")]",
    "$v.csv[1*][empty(#t)]",
    "$v.csv[1*][exists(#t)]",
    "$v.csv[1*][not(exists(#t))]",
    "$v.csv[1*][and(#k == \"x\", gt(#n, 1))]",
    "$v.csv[1*][or(#k == \"y\", #n == 0)]",
    "$v.csv[1*][any(headers(), \"cc\")]",
    "$v.csv[1*][all(#k, #n, #t)]",
    # side effects show which components were asked, and in which order
    "$v.csv[*][push(\"seen\", \"A\") #k == \"x\" push(\"seen\", \"C\")]",
    "$v.csv[*][#k == \"x\" push(\"seen\", #n) gt(#n, 1) push(\"late\", #n)]",
    "$v.csv[*][@a = #k @b = #n @c = #t]",
    "$v.csv[*][@a = #k #n == 2 @c = #t]",
    "$v.csv[*][@n = count() #k == \"x\"]",
    "$v.csv[*][#k == \"x\" @n = count()]",
    "$v.csv[*][@l = count_lines() @s = count_scans() #k == \"y\"]",
    "$v.csv[*][@i = increment(#k == \"x\", 2)]",
    "$v.csv[*][tally(#k) #n]",
    "$v.csv[*][@t = total_lines() @e = every(#k == \"x\", 2)]",
    # onmatch: a component asks all the others early and records their votes
    "$v.csv[*][@m.onmatch = #n #k == \"x\"]",
    "$v.csv[*][#k == \"x\" @m.onmatch = #n]",
    "$v.csv[*][#k == \"x\" @m.onmatch = #n gt(#n, 1)]",
    "$v.csv[*][@m.onmatch = #n #k == \"x\" @o.onmatch = #t gt(#n, 0)]",
    "$v.csv[*][print.onmatch(\"hit $.csvpath.match_count at $.csvpath.line_number\") #k == \"x\"]",
    "$v.csv[*][#k == \"x\" print.onmatch(\"hit $.csvpath.match_count\") gt(#n, 1)]",
    "$v.csv[*][push.onmatch(\"ms\", #n) #k == \"x\" push(\"all\", #n)]",
    "$v.csv[*][count.onmatch() == 2 #k == \"x\"]",
    "$v.csv[*][@c.onmatch = count() #k == \"x\" #t]",
    "$v.csv[*][#k == \"x\" @bad.onmatch = divide(#n, 0)]",
    "$v.csv[*][@bad.onmatch = divide(#n, 0) #k == \"x\"]",
    # when/do, last, skip, stop, fail
    "$v.csv[*][#k == \"x\" -> @hit = #n]",
    "$v.csv[*][#k == \"x\" -> @hit = #n #t]",
    "$v.csv[*][#k == \"y\" -> push(\"ys\", #n) #k == \"x\" -> push(\"xs\", #n)]",
    "$v.csv[*][#n == 2 -> skip() push(\"after\", #n)]",
    "$v.csv[*][push(\"before\", #n) #n == 2 -> skip() push(\"after\", #n)]",
    "$v.csv[*][skip(#k == \"y\") #n]",
    "$v.csv[*][#n == 3 -> stop() push(\"after\", #n)]",
    "$v.csv[*][push(\"before\", #n) stop(#n == 3) push(\"after\", #n)]",
    "$v.csv[*][#n == 3 -> fail() #k]",
    "$v.csv[*][fail(#k == \"z\") @v = failed()]",
    "$v.csv[*][#k last() -> @end = count_lines()]",
    "$vblank.csv[*][#k last() -> @end = count_lines()]",
    "$vblank.csv[*][@a = #k last() -> print(\"end $.variables.a\")]",
    "$vblank.csv[*][last() -> stop() last() -> print(\"second last\")]",
    "$vblank.csv[*][last() -> skip() last() -> print(\"second last\")]",
    "$v.csv[*][advance(#n == 1, 2) push(\"got\", #n)]",
    "$v.csv[*][first(#k) ]",
    "$v.csv[*][dup_lines(#k)]",
    # tracking values: first_non_term_qualifier picks the key
    "$v.csv[*][@seen.x = #n]",
    "$v.csv[*][@seen.onmatch.x = #n #k == \"x\"]",
    "$v.csv[*][@seen.x.onmatch = #n #k == \"x\"]",
    "$v.csv[*][@seen.latch = #n]",
    "$v.csv[*][@seen.x.latch = #n @other.y.z = #t]",
    "$v.csv[*][@seen.onchange = #k]",
    "$v.csv[*][@seen.k.onchange = #k]",
    "$v.csv[*][@seen.increase = #n]",
    "$v.csv[*][@seen.q.decrease = #n]",
    "$v.csv[*][@seen.notnone = #t]",
    "$v.csv[*][@seen.w.notnone = #t @r = @seen.w]",
    "$v.csv[*][@seen.asbool = #n]",
    "$v.csv[*][@seen.nocontrib = #n no()]",
    "$v.csv[*][@b.True = #n @r = @b.True]",
    "$v.csv[*][@b.False = #n @b.False == 12]",
    "$v.csv[*][tally(#k) @xs = @tally_k.x @xs == 3]",
    "$v.csv[*][@seen.x = #n @seen.x == 3]",
    "$v.csv[*][@seen.x = #n @seen.y]",
    "$v.csv[*][@seen.x = #n @seen]",
    "$v.csv[*][@seen = #n @seen.x]",
    "$v.csv[*][@seen.x.asbool]",
    "$v.csv[*][@nosuch]",
    "$v.csv[*][not(@nosuch)]",
    # terms live through every line
    "$v.csv[*][#k == \"x\" concat(#k, \"-\", #n) == \"x-3\"]",
    "$v.csv[*][@c = concat(\" padded \", #k)]",
    "$v.csv[*][in(#n, \"1|2|12\") @t = \"const\"]",
    "$v.csv[*][@z = 0 @e = \"\" @f = none() #k]",
    # header names and numbers through Matcher.header_index
    "$v.csv[*][#1 == #n]",
    "$v.csv[*][#2 == #t #0]",
    "$v.csv[*][collect(\"n\", \"k\") #k == \"x\"]",
    "$v.csv[*][collect(1) #k == \"x\"]",
    "$v.csv[*][@i = header_index(\"t\") @n = header_name(1) @x = header_name(\"nosuch\")]",
    "$v.csv[*][header_name(0, \"k\") header_index(\"n\", 1)]",
    "$v.csv[*][headers(\"t\") not(headers(\"u\"))]",
    "$v.csv[*][line_number() == 4 -> reset_headers() @x = #x @k = #k @one = #1]",
    "$v.csv[*][print(\"$.headers.k:$.headers.1:$.headers.nosuch\")]",
    # errors: an expression with an error does not match
    "$v.csv[1*][gt(divide(#n, 0), 1) #k == \"x\"]",
    "$v.csv[1*][#k == \"x\" gt(divide(#n, 0), 1)]",
    "$v.csv[1*][#k == \"x\" gt(#t, 1) push(\"after\", #n)]",
    "~ validation-mode: no-raise, no-stop, print, match ~ $v.csv[1*][#k == \"x\" gt(#t, 1)]",
    "~ validation-mode: no-raise, no-stop, print, no-match ~ $v.csv[1*][#k == \"x\" gt(#t, 1)]",
    # an error that reaches the expression itself: with "match" the expression
    # answers None, which is not False, so it is a vote for the line
    "~ validation-mode: no-raise, no-stop, print, match ~ $v.csv[1*][#k == \"x\" divide(#n, 0) == 1]",
    "~ validation-mode: no-raise, no-stop, print, match ~ $v.csv[1*][divide(#n, 0) == 1 #k == \"x\"]",
    "~ validation-mode: no-raise, no-stop, print, match ~ $v.csv[1*][@q = divide(#n, 0) #k == \"y\"]",
    "~ validation-mode: no-raise, no-stop, print, match ~ $v.csv[1*][@q = divide(#n, 0)]",
    "~ validation-mode: no-raise, no-stop, no-print, no-match ~ $v.csv[1*][@q = divide(#n, 0)]",
    "~ validation-mode: no-raise, no-stop ~ $v.csv[1*][@q = divide(#n, 0)]",
    "~ validation-mode: no-raise, no-stop, match ~ $v.csv[1*][push(\"m\", #n) @q.onmatch = divide(#n, 0) #k == \"x\"]",
    "$one.csv[*][#k #n]",
    "$empty.csv[*][#k #n]",
    "$v.csv[2-4][#k #n]",
    "$v.csv[1+4+8][#k == \"x\" #t]",
    "$v.csv[5*][#k #n]",
]

for i, cp in enumerate(PATHS):
    run(f"A{i}", cp)
    run(f"A{i}/loose", cp, policy=LOOSE)
    run(f"O{i}/loose", "~ logic-mode: OR ~ " + cp if not cp.startswith("~") else cp.replace("~ validation-mode:", "~ logic-mode: OR validation-mode:"), policy=LOOSE)

for i, cp in enumerate(PATHS[26:66]):
    run(f"N{i}", cp, method="next", policy=LOOSE)
    run(f"F{i}", cp, method="ff", policy=LOOSE)
    run(f"NM{i}", "~ return-mode: no-matches unmatched-mode: keep ~ " + cp, policy=LOOSE)

run("B0", "$v.csv[*][#k #n]", skip_blank_lines=False, policy=LOOSE)
run("B1", "$vblank.csv[*][#k last() -> @end = count_lines()]", skip_blank_lines=False, policy=LOOSE)

# ----------------------------------------------------- the Matcher by hand
print("== M: votes recorded before Matcher.matches() runs")
p, pr = fresh(LOOSE)
p.parse("$v.csv[*][push(\"seen\", \"A\") #k == \"x\" push(\"seen\", \"C\") gt(#n, 1)]")
print("   lines:", p.collect())
report(p, pr)
m = p.matcher
print("   expressions:", [norm(et[0]) for et in m.expressions], [et[1] for et in m.expressions])
p.is_frozen = False
p.stopped = False
PRESETS = [
    (None, None, None, None),
    (True, None, None, None),
    (False, None, None, None),
    (None, True, None, None),
    (None, False, None, None),
    (None, None, None, True),
    (None, None, None, False),
    (True, True, True, True),
    (False, False, False, False),
    (True, False, True, False),
    (None, True, None, False),
    (0, None, None, None),
    (1, None, None, None),
    (None, 0, None, None),
    (None, 1, None, None),
    (None, "yes", None, None),
    (None, "", None, None),
    (None, [], None, None),
    ("no", 0, 1.0, ()),
]
for AND in (True, False):
    m.AND = AND
    for line in (["x", "3", "cc"], ["y", "2", ""], ["x", "0"], ["z"]):
        for preset in PRESETS:
            m.reset()
            m.line = line
            p.variables = {}
            for et, v in zip(m.expressions, preset):
                et[1] = v
            try:
                r = m.matches()
            except Exception as ex:  # pylint: disable=W0718
                r = f"{type(ex).__name__}: {norm(ex)}"
            print(
                f"   AND={AND} line={line} preset={preset} -> {r!r}",
                "votes:",
                [et[1] for et in m.expressions],
                "seen:",
                p.variables.get("seen"),
                "match_count:",
                p.match_count,
            )
    # skip and stopped are looked at before each vote
    for flag in ("skip", "stopped"):
        m.reset()
        m.line = ["x", "3", "cc"]
        p.variables = {}
        if flag == "skip":
            m.skip = True
        else:
            p.stopped = True
        r = m.matches()
        print(f"   AND={AND} {flag} -> {r!r}", [et[1] for et in m.expressions], p.variables.get("seen"), "skip:", m.skip, "stopped:", p.stopped)
        p.stopped = False
        m.skip = False
    # a blank line at the end of the file only runs the last()s
    m.reset()
    m.line = []
    p.variables = {}
    r = m.matches()
    print(f"   AND={AND} blank last line -> {r!r}", [et[1] for et in m.expressions], p.variables.get("seen"))

print("== M2: _vote-level view of an expression that errors or returns None")
p, pr = fresh(["collect"])
p.parse("$v.csv[1*][gt(divide(#n, 0), 1) #k == \"x\" @v = #n]")
print("   lines:", p.collect())
report(p, pr)
m = p.matcher
p.is_frozen = False
p.stopped = False
for AND in (True, False):
    m.AND = AND
    for line in (["x", "3"], ["y", "0"], ["x"]):
        m.reset()
        m.line = line
        p.variables = {}
        r = m.matches()
        print(f"   AND={AND} line={line} -> {r!r}", [et[1] for et in m.expressions], norm(p.variables))

print("== M2b: the same with validation-mode: match, where an expression can answer None")
p, pr = fresh(["collect"])
p.parse("~ validation-mode: no-raise, no-stop, no-print, match ~ $v.csv[1*][divide(#n, 0) == 1 #k == \"x\" @v = #n]")
print("   lines:", p.collect())
report(p, pr)
m = p.matcher
p.is_frozen = False
p.stopped = False
for AND in (True, False):
    m.AND = AND
    for line in (["x", "3"], ["y", "0"], ["x"]):
        m.reset()
        m.line = line
        p.variables = {}
        direct = [et[0].matches(skip=[]) for et in m.expressions]
        m.reset()
        p.variables = {}
        r = m.matches()
        print(f"   AND={AND} line={line} -> {r!r}", [et[1] for et in m.expressions], "asked directly:", direct, norm(p.variables))

print("== M3: the order of the expressions a Matcher is built with")
for mp in (
    "[yes()]",
    "[#a #b #c]",
    "[#c #b #a]",
    "[~ a comment ~ #a ~ another ~ #b]",
    "[@x = 1 #a -> @y = 2 last() -> print(\"z\")]",
    "[#a == 1 #a == 1 #a == 1]",
):
    p, pr = fresh(LOOSE)
    p.parse("$v.csv[*]" + mp)
    mt = Matcher(csvpath=p, data=mp, line=["1", "2", "3"], headers=p.headers, myid="demo")
    print("   ", mp, "->", [norm(et[0]) for et in mt.expressions], [et[1] for et in mt.expressions], [type(et).__name__ for et in mt.expressions])
for bad in ("[", "[]", "[#a ==]", "[nosuch()]", None, ""):
    p, pr = fresh(LOOSE)
    p.parse("$v.csv[*][yes()]")
    try:
        mt = Matcher(csvpath=p, data=bad, line=None, headers=None)
        print("   ", repr(bad), "->", [norm(et[0]) for et in mt.expressions])
    except Exception as ex:  # pylint: disable=W0718
        print("   ", repr(bad), "-> RAISED", type(ex).__name__, "|", norm(ex).splitlines()[0] if norm(ex) else "")

print("== M4: Matcher.header_index()")
p, pr = fresh(LOOSE)
p.parse("$v.csv[*][#k]")
p.collect()
m = p.matcher
for hs in (["k", "n", "t"], ["k", "k", "1", "2.0", ""], [], None):
    p.headers = hs
    for name in (0, 1, -1, True, False, "0", "1", " 2 ", "k", "n", "t", "K", "nosuch", "", " ", None, "1.0", "2.0", "2.5", 2.5, "1,000", "$3", "3;", "€4", "1e3", "1.e999", "nan", "nan.", "inf.", [], (1,), "٣"):
        try:
            out = repr(m.header_index(name))
        except Exception as ex:  # pylint: disable=W0718
            out = f"{type(ex).__name__}: {norm(ex)}"
        print(f"   headers={hs} name={name!r} -> {out}")

print("== M5: Term.reset() and tracking qualifiers")
p, pr = fresh(LOOSE)
p.parse("$v.csv[*][concat(#k, \"-\", 5) == \"x-5\" @seen.x.onmatch = \"lit\" @plain = 0 @t.onmatch.latch.key.other = #n]")
print("   lines:", p.collect())
report(p, pr)
m = p.matcher


def walk(o, depth=0):
    yield o, depth
    for c in o.children:
        yield from walk(c, depth + 1)


for et in m.expressions:
    for o, depth in walk(et[0]):
        extra = ""
        if isinstance(o, Term):
            before = (o.value, o.match)
            o.match = "touched"
            r = o.reset()
            extra = f"term before={before} reset()->{r!r} after={(o.value, o.match)} to_value={o.to_value(skip=[])!r}"
            o.match = None
        if hasattr(o, "first_non_term_qualifier") and o.name is not None:
            extra += f" quals={o.qualifiers} first={o.first_non_term_qualifier()!r} first(None)={o.first_non_term_qualifier(None)!r} first('d')={o.first_non_term_qualifier('d')!r} second={o.second_non_term_qualifier()!r}"
        print("   ", "  " * depth, norm(o), extra)
t = Term(m, value="\"quoted\"")
c = Term(m, value=5)
t.add_child(c)
c.value = None
c.match = True
t.match = False
print("   term with a child:", t.reset(), (t.value, t.match), (c.value, c.match))

print("done")
