#!/venv/bin/python
"""Differential demonstration for refactoring t2 (property C03: variables and
run counters end up with the values the csvpath assigns).

Run in an empty temp directory, e.g.
    mkdir -p /tmp/demo_TZC03_2 && cd /tmp/demo_TZC03_2 && \
    PYTHONPATH=<tree> /venv/bin/python demo.py > out.txt

The script is self-contained: it writes its own ./config/config.ini, its data
files and prints a deterministic transcript of everything observable: the
lines returned, the variables (in insertion order), scan/match counts, the
validity, stopped flag, collected errors (with their traces; file paths and
line numbers in the traces are normalised because any edit moves line
numbers), the printouts, exceptions that escape, and, for CsvPaths runs, the
listing and contents of ./archive with the run directory names normalised.

The focus of t2 is the error path that was restructured: the except blocks of
Function.matches() and Matchable.sibling_values() now call the shared helper
Matchable._record_exception(). The csvpaths below therefore make aggregate
and stack functions (sum, subtotal, counter, every, tally, push/pop, ...)
fail in matches() and in the valuing of their arguments, under every error
policy (raise / no-raise / stop / fail / collect / print / match / no-match),
next to the regular bookkeeping cases, and show what the variables and
counters are afterwards.
"""
import os
import re
import shutil
import sys
import json

CONFIG = """[csvpath_files]
extensions = txt, csvpath, csvpaths

[csv_files]
extensions = txt, csv, tsv, dat, tab, psv, ssv

[errors]
csvpath = raise, collect, stop, fail, print
csvpaths = raise, collect

[logging]
csvpath = info
csvpaths = info
log_file = logs/csvpath.log
log_files_to_keep = 100
log_file_size = 52428800

[config]
path = config/config.ini

[cache]
path = cache

[listeners]
[marquez]
base_url = http://localhost:5000

[functions]
imports = config/functions.imports

[results]
archive = archive
transfers = transfers

[inputs]
files = inputs/named_files
csvpaths = inputs/named_paths
on_unmatched_file_fingerprints = halt
"""

FILES = {
    "basic.csv": "id,name,amount,kind\n1,ann,10,a\n2,bob,0,b\n3,,5.5,a\n4,dan,-3,b\n5,eve,,a\n6,ann,7,b\n",
    # blank lines in the middle, whitespace-only cells, and a blank last line
    "blanks.csv": "id,name,amount,kind\n1,ann,10,a\n\n2,bob,0,b\n , ,,\n3,cy,4,a\n\n\n",
    # ragged: short rows, long rows
    "ragged.csv": "id,name,amount,kind\n1,ann\n2,bob,3,b,extra,more\n3\n4,dan,1,a\n",
    "header_only.csv": "id,name,amount,kind\n",
    "empty.csv": "",
    "one_blank_last.csv": "id,name,amount,kind\n1,ann,10,a\n2,bob,20,b\n\n",
    "zeros.csv": "id,name,amount,kind\n0,zero,0,0\n0,zero,0.0,0\n1,one,1,1\n0,,0,\n",
    "quoted.csv": 'id,name,amount,kind\n1,"ann, a",10,"a"\n2,"",0,b\n3," ",5,a\n',
}

# standalone csvpaths. {f} is replaced by the file name.
PATHS = [
    # ---- plain assignments; later components see earlier ones on the same line
    "${f}[1*][ @a = #id @b = @a @c = add(@b, 1) print(\"$.csvpath.line_number: a=$.variables.a b=$.variables.b c=$.variables.c\") ]",
    "${f}[*][ @a = #id @b = @a @c = add(@b, 1) print(\"$.csvpath.line_number: a=$.variables.a b=$.variables.b c=$.variables.c\") ]",
    "${f}[1*][ @a = #id @a = add(@a, 1) @b = @a @a = add(@a, 1) @c = @a ]",
    "${f}[*][ @n = count_lines() @s = count_scans() @m = count() @l = line_number() print(\"$.csvpath.count_lines/$.csvpath.count_scans/$.csvpath.count_matches/$.csvpath.line_number n=$.variables.n s=$.variables.s m=$.variables.m l=$.variables.l\") ]",
    # ---- tracking values
    "${f}[*][ @seen.name = #name @seen.kind = #kind @amt.last = #amount print(\"$.variables.seen.name|$.variables.seen.kind|$.variables.amt.last\") ]",
    "${f}[1*][ @t.True = #id @t.False = #name @u = @t.True @v = @t.False ]",
    # ---- every qualifier on the left-hand side
    "${f}[1*][ @x.onmatch = #amount #kind == \"a\" ]",
    "${f}[1*][ #kind == \"a\" @x.onmatch = #amount @y = @x ]",
    "${f}[1*][ @k.onchange = #kind ]",
    "${f}[1*][ @first.latch = #name @again.latch = #kind ]",
    "${f}[1*][ @up.increase = int(#amount) ]",
    "${f}[1*][ @down.decrease = int(#amount) ]",
    "${f}[1*][ @up.increase.nocontrib = int(#id) @down.decrease.nocontrib = int(#id) ]",
    "${f}[1*][ @nn.notnone = #name @cnt = count() ]",
    "${f}[1*][ @nn.notnone.nocontrib = #name @cnt = count() ]",
    "${f}[1*][ @b.asbool = #amount ]",
    "${f}[1*][ @b.asbool.nocontrib = #amount @z = @b ]",
    "${f}[1*][ @k.onchange.onmatch = #kind #name ]",
    "${f}[1*][ @k.latch.onmatch.who = #name #amount ]",
    "${f}[1*][ @k.onchange.nocontrib = #kind @c = count() ]",
    # ---- count() / has_matches() on the right imply onmatch
    "${f}[1*][ @c = count() #kind == \"a\" ]",
    "${f}[1*][ #kind == \"b\" @c = count() @d = @c ]",
    "${f}[1*][ @h = has_matches() #name ]",
    "${f}[1*][ @c = count(#kind == \"a\") @c2 = count.ks(#kind) ]",
    # ---- several onmatch components per line, in several expressions
    "${f}[1*][ @a.onmatch = count() @b.onmatch = count_lines() #name @c.onmatch = line_number() print.onmatch(\"m=$.csvpath.count_matches a=$.variables.a b=$.variables.b c=$.variables.c\") ]",
    "${f}[1*][ counter.hits.onmatch(1) #kind == \"a\" sum.total.onmatch(#amount) tally.onmatch(#kind) ]",
    "${f}[1*][ push.onmatch(\"names\", #name) #amount push(\"all\", #id) @sz = size(\"names\") ]",
    "${f}[1*][ above(#amount, 1) -> @big.onmatch = #amount  #name -> @named = #name ]",
    "${f}[1*][ #name -> @n.onmatch = count()  @always = count_scans() ]",
    "${f}[1*][ first.onmatch(#kind) #amount @c = count() ]",
    "${f}[1*][ increment.onmatch(#kind == \"a\", 2) #name ]",
    "${f}[1*][ every.onmatch(#kind, 2) ]",
    # ---- OR logic
    "~ logic-mode: OR ~ ${f}[1*][ #kind == \"a\" @x.onmatch = #id above(#amount, 6) ]",
    "~ logic-mode: OR ~ ${f}[1*][ @c = count() #kind == \"zzz\" @d.onmatch = count_lines() ]",
    # ---- return-mode no-matches with unmatched collected
    "~ return-mode: no-matches ~ ${f}[1*][ @c = count() #kind == \"a\" @l.onmatch = #id ]",
    # ---- aggregate bookkeeping
    "${f}[1*][ tally(#kind) tally.nk(#name, #kind) ]",
    "${f}[1*][ @s = sum(#amount) @st = subtotal(#kind, #amount) @cn = counter.clicks() ]",
    "${f}[1*][ subtotal.by(#kind, #amount) every.ev(#kind, 2) @e = every.ev2(#name, 3) ]",
    "${f}[1*][ push(\"st\", #name) push.distinct(\"dst\", #kind) push.notnone(\"nn\", #name) @top = peek(\"st\", 0) @sz = peek_size(\"st\") ]",
    "${f}[1*][ push(\"st\", #id) @p = pop(\"st\") push(\"st\", #name) ]",
    "${f}[1*][ @f = first(#kind) first.fn(#name) ]",
    "${f}[1*][ @i = increment.inc(#kind == \"a\", 2) ]",
    # ---- scans that are not the whole file
    "${f}[2-4][ @c = count() @s = count_scans() @l = count_lines() @n = line_number() ]",
    "${f}[1+3+5][ @c = count() @s = count_scans() #kind == \"a\" ]",
    "${f}[3*][ @c.onmatch = count() #name ]",
    "${f}[0][ @h = #0 @c = count() ]",
    # ---- stop/skip/advance/fail interplay with counters
    "${f}[1*][ @c = count() stop(#id == \"3\") @after = #id ]",
    "${f}[1*][ skip(#id == \"2\") @c = count() @s = count_scans() ]",
    "${f}[1*][ @c = count() #id == \"1\" -> advance(2)  @s = count_scans() ]",
    "${f}[1*][ @c.onmatch = count_lines() #id == \"2\" -> advance(1) ]",
    "${f}[1*][ @c = count() #id == \"2\" -> fail() @v = count_lines() ]",
    # ---- last() on blank last line: variables are frozen
    "${f}[*][ @c = count() last.nocontrib() -> @final = count_lines() last.nocontrib() -> print(\"last: $.variables.c / $.csvpath.count_lines\") ]",
    "${f}[*][ push(\"p\", #0) last.nocontrib() -> push(\"p\", \"end\") ]",
    # ---- errors inside to_value: arg validation fails (policy from the comment)
    "~ validation-mode: no-raise, no-stop, collect, print ~ ${f}[1*][ @s = sum(#name) @c = count() ]",
    "~ validation-mode: no-raise, no-stop, no-fail, no-print ~ ${f}[1*][ @a = add(#name, 1) @c = count() @st = subtotal(#kind, #name) ]",
    "~ validation-mode: no-raise, stop, fail, print ~ ${f}[1*][ @c = count() @m = mod(#amount, #name) ]",
    "~ validation-mode: raise, print ~ ${f}[1*][ @c = count() @i = int(#name) ]",
    "${f}[1*][ @c = count() @s = subtract(#name, 2) ]",
    "~ validation-mode: no-raise, no-stop, print ~ ${f}[1*][ @x.onmatch = add(#name, #amount) #kind counter.k.onmatch(#name) ]",
    # ---- validation errors that are matched on: the error is handed to the
    # expression and to_value()/matches() carry on (Function.to_value's check of
    # the expression's error count before and after validating the args)
    "~ validation-mode: no-raise, no-stop, match, print ~ ${f}[1*][ @s = sum(#name) @c = count() @a = add(#name, 1) ]",
    "~ validation-mode: no-raise, no-stop, no-match, print ~ ${f}[1*][ @s = sum(#name) @c = count() @a = add(#name, 1) ]",
    "~ validation-mode: no-raise, no-stop, match, collect, no-print ~ ${f}[1*][ counter.k(#name) sum.t(#name) @c.onmatch = count() @st = subtotal(#kind, #name) ]",
    "~ validation-mode: no-raise, no-stop, match, collect, no-fail ~ ${f}[1*][ @x.onmatch = add(#name, #amount) #kind @y = @x ]",
    # ---- t2: functions used as match components (Function.matches) that fail
    # in _decide_match / in the valuing of their children (sibling_values)
    "${f}[1*][ sum(#name) @c = count() ]",
    "${f}[1*][ @c = count() subtotal(#kind, #name) @l = count_lines() ]",
    "${f}[1*][ counter.k(#name) @c = count() ]",
    "${f}[1*][ push(\"s\", int(#name)) @c = count() ]",
    "${f}[1*][ @c = count() add(int(#name), 1) ]",
    "${f}[1*][ tally(int(#name)) every(#kind, 0) ]",
    "${f}[1*][ every(#kind, 0) @c = count() ]",
    "${f}[1*][ @p = pop(int(#name)) ]",
    "~ validation-mode: no-raise, no-stop, collect, print ~ ${f}[1*][ sum(#name) @c = count() @s = count_scans() ]",
    "~ validation-mode: no-raise, no-stop, collect, print ~ ${f}[1*][ @c = count() add(int(#name), 1) @after = #id ]",
    "~ validation-mode: no-raise, no-stop, collect, no-print, no-fail ~ ${f}[1*][ push(\"s\", int(#name)) push(\"t\", #id) @c = count() ]",
    "~ validation-mode: no-raise, no-stop, collect, print ~ ${f}[1*][ every(#kind, 0) @c = count() counter.n() ]",
    "~ validation-mode: no-raise, no-stop, collect, print ~ ${f}[1*][ counter.k(#name) counter.n(2) @c.onmatch = count() ]",
    "~ validation-mode: no-raise, stop, collect, print ~ ${f}[1*][ counter.n(2) subtotal(#kind, #name) @c = count() ]",
    "~ validation-mode: no-raise, no-stop, match, collect, print ~ ${f}[1*][ sum(#name) subtotal(#kind, #name) counter.k(#name) @c = count() ]",
    "~ validation-mode: no-raise, no-stop, no-match, collect, print ~ ${f}[1*][ sum(#name) subtotal(#kind, #name) counter.k(#name) @c = count() ]",
    "~ validation-mode: no-raise, no-stop, match, collect ~ ${f}[1*][ push(\"s\", int(#name)) add(int(#name), int(#kind)) @c = count() ]",
    "~ validation-mode: no-raise, no-stop, collect ~ ${f}[1*][ #name -> sum(#name) @c = count() ]",
    "~ validation-mode: no-raise, no-stop, collect ~ ${f}[1*][ above(#amount, 1) -> counter.big(#name) @c = count() ]",
    "~ validation-mode: no-raise, no-stop, collect ~ ${f}[1*][ sum.onmatch(#name) #kind == \"a\" @c = count() ]",
    "~ validation-mode: no-raise, no-stop, collect logic-mode: OR ~ ${f}[1*][ sum(#name) #kind == \"a\" @c = count() ]",
    "~ validation-mode: no-raise, no-stop, collect ~ ${f}[*][ push(\"s\", #0) last.nocontrib() -> push(\"s\", int(\"x\")) ]",
    "~ validation-mode: no-raise, no-stop, collect ~ ${f}[1*][ not(sum(#name)) or(sum.a(#name), counter.b(#name)) @c = count() ]",
    # ---- structural problems
    "${f}[1*][ @x = ]",
    "${f}[1*][ @x = nosuchfunction() ]",
    "${f}[1*][ @ = #id ]",
    "${f}[1*][ @x.. = #id ]",
    "${f}[1*][ @x = count(#id, #name, #kind) ]",
]

GROUP_PATHS = [
    "~ id: one ~ $[*][ @c = count() @l = count_lines() tally(#kind) print(\"one: $.csvpath.count_matches $.variables.c\") ]",
    "~ id: two ~ $[1*][ @x.onmatch = #amount #kind == \"a\" push.onmatch(\"ids\", #id) @s = sum.total(#amount) ]",
    "~ id: three return-mode: no-matches unmatched-mode: keep ~ $[1*][ @k.onchange = #kind @c.onmatch = count() ]",
    "~ id: four validation-mode: no-raise, no-stop, collect, print ~ $[1*][ @s = sum(#name) @c = count() last.nocontrib() -> @z = count_lines() ]",
    "~ id: five ~ $[1*][ @r = $grp.variables.c  @c = count() counter.five(2) ]",
]


def setup():
    for d in ("config", "archive", "cache", "logs", "inputs", "transfers"):
        if os.path.exists(d):
            shutil.rmtree(d)
    os.makedirs("config")
    with open("config/config.ini", "w", encoding="utf-8") as f:
        f.write(CONFIG)
    with open("config/functions.imports", "w", encoding="utf-8") as f:
        f.write("")
    for name, content in FILES.items():
        with open(name, "w", encoding="utf-8", newline="") as f:
            f.write(content)


def out(*a):
    print(*a)
    sys.stdout.flush()


def norm(s):
    s = f"{s}"
    s = s.replace(os.getcwd(), "<CWD>")
    if "\t* " in s:
        # lark lists the expected tokens of a parse error in set order, which
        # varies from process to process (hash randomisation). sort them.
        lines = s.split("\n")
        toks = sorted(ln for ln in lines if ln.startswith("\t* "))
        rest = [ln for ln in lines if not ln.startswith("\t* ")]
        s = "\n".join(rest + toks)
    s = re.sub(r" object at 0x[0-9a-f]+", " object at 0x<ADDR>", s)
    s = re.sub(r"\d{4}-\d{2}-\d{2}[ T_h]\d{2}[-:m]\d{2}[-:s]\d{2}([-.]\d+)?(\+00:00)?", "<TS>", s)
    return s


def norm_trace(t):
    if t is None:
        return None
    t = norm(t)
    t = re.sub(r'File "[^"]*?/csvpath/', 'File "<PKG>/csvpath/', t)
    t = re.sub(r'File "[^"]*?/site-packages/', 'File "<SITE>/', t)
    t = re.sub(r", line \d+, in ", ", line N, in ", t)
    return t


def show_errors(errors):
    if not errors:
        out("   errors: none")
        return
    for i, e in enumerate(errors):
        out(
            f"   error[{i}]: class={e.error.__class__.__name__} line={e.line_count} scan={e.scan_count} match={e.match_count}"
        )
        out(f"      text={norm(e.error)}")
        out(f"      message={norm(e.message)} source={norm(e.source)}")
        out(f"      json={norm(e.json)}")
        out(f"      trace={norm_trace(e.trace)}")


def show_exception(ex):
    chain = []
    while ex is not None and len(chain) < 5:
        chain.append(f"{ex.__class__.__name__}: {norm(ex)}")
        ex = ex.__cause__
    out("   EXCEPTION: " + " <- ".join(chain))


def show_state(p):
    out(f"   variables={p.variables!r}")
    lm = p._line_monitor
    out(
        f"   scan_count={p.scan_count} match_count={p.match_count} valid={p.is_valid} stopped={p.stopped} aborted={p.aborted} frozen={p.is_frozen}"
    )
    if lm is not None:
        out(
            f"   line_number={lm.physical_line_number} count_lines={lm.data_line_count} end={lm.physical_end_line_number}"
        )
    try:
        out(f"   completed={p.completed}")
    except Exception as ex:  # pylint: disable=W0718
        show_exception(ex)
    out(f"   unmatched={p.unmatched!r}")
    show_errors(p.errors)


def run_standalone(path, fname, how):
    from csvpath import CsvPath

    cp = path.replace("{f}", fname)
    out(f"--- {how}: {cp}")
    p = CsvPath()
    try:
        p.parse(cp)
        if how == "collect":
            p.unmatched_available = True
            lines = p.collect()
            out(f"   lines={lines!r}")
        elif how == "fast_forward":
            p.fast_forward()
        elif how == "next":
            for line in p.next():
                out(
                    f"   > {line!r} vars={p.variables!r} scan={p.scan_count} match={p.match_count} ln={p.line_monitor.physical_line_number}"
                )
        elif how == "collect2":
            lines = p.collect(nexts=2)
            out(f"   lines={lines!r}")
    except Exception as ex:  # pylint: disable=W0718
        show_exception(ex)
    show_state(p)
    return p


def rerun_same_instance(path, fname):
    """a second run on the same instance: documents what happens to variables
    and counters when the instance is reused."""
    from csvpath import CsvPath

    cp = path.replace("{f}", fname)
    out(f"--- rerun x2 on one instance: {cp}")
    p = CsvPath()
    try:
        p.parse(cp)
        out(f"   first={p.collect()!r}")
        show_state(p)
        out(f"   second={p.collect()!r}")
    except Exception as ex:  # pylint: disable=W0718
        show_exception(ex)
    show_state(p)


def list_archive():
    if not os.path.exists("archive"):
        out("   (no archive)")
        return
    for root, dirs, files in os.walk("archive"):
        dirs.sort()
        for name in sorted(files):
            full = os.path.join(root, name)
            out(f"   FILE {norm(full)}")
            if name in ("vars.json", "data.csv", "unmatched.csv", "printouts.txt"):
                with open(full, "r", encoding="utf-8") as f:
                    for ln in f.read().splitlines():
                        out(f"      | {norm(ln)}")
            elif name == "meta.json":
                with open(full, "r", encoding="utf-8") as f:
                    js = json.load(f)
                rt = js.get("runtime_data", {})
                keep = {
                    k: rt.get(k)
                    for k in (
                        "total_lines",
                        "count_lines",
                        "line_number",
                        "count_matches",
                        "count_scans",
                        "valid",
                        "stopped",
                        "lines_collected",
                        "headers",
                    )
                }
                out(f"      | identity={js.get('identity')} runtime={keep!r}")
            elif name == "errors.json":
                with open(full, "r", encoding="utf-8") as f:
                    try:
                        js = json.load(f)
                    except Exception:  # pylint: disable=W0718
                        js = []
                for e in js:
                    e.pop("at", None)
                    e["trace"] = norm_trace(e.get("trace"))
                    out(f"      | {norm(json.dumps(e, sort_keys=True))}")


def run_group(method, fname):
    from csvpath import CsvPaths

    out(f"=== group {method} on {fname}")
    for d in ("archive", "cache", "inputs"):
        if os.path.exists(d):
            shutil.rmtree(d)
    cps = CsvPaths()
    try:
        cps.file_manager.add_named_file(name="data", path=fname)
        cps.paths_manager.add_named_paths(name="grp", paths=GROUP_PATHS)
        m = getattr(cps, method)
        if method.startswith("next"):
            for line in m(filename="data", pathsname="grp"):
                out(f"   > {line!r}")
        else:
            r = m(filename="data", pathsname="grp")
            if r is not None:
                out(f"   returned={r!r}")
    except Exception as ex:  # pylint: disable=W0718
        show_exception(ex)
    try:
        results = cps.results_manager.get_named_results("grp")
        for r in results:
            out(f" result {r.csvpath.identity}:")
            out(f"   lines={[l for l in r.lines.next()] if r.lines is not None else None!r}")
            out(f"   printouts={r.get_printouts()!r}")
            show_state(r.csvpath)
            out(f"   result.errors:")
            show_errors(r.errors)
    except Exception as ex:  # pylint: disable=W0718
        show_exception(ex)
    list_archive()


def main():
    setup()
    import csvpath  # noqa

    # 1. every path against the main file, with all three run methods
    for path in PATHS:
        for how in ("collect", "next", "fast_forward"):
            run_standalone(path, "basic.csv", how)
    # 2. every path against the edge-case files
    for fname in (
        "blanks.csv",
        "ragged.csv",
        "header_only.csv",
        "empty.csv",
        "one_blank_last.csv",
        "zeros.csv",
        "quoted.csv",
    ):
        for path in PATHS:
            run_standalone(path, fname, "collect")
    # 3. limited collect and reruns
    for path in PATHS[:12]:
        run_standalone(path, "basic.csv", "collect2")
        rerun_same_instance(path, "blanks.csv")
    # 4. groups
    for fname in ("basic.csv", "blanks.csv", "ragged.csv"):
        for method in (
            "collect_paths",
            "fast_forward_paths",
            "next_paths",
            "collect_by_line",
            "fast_forward_by_line",
            "next_by_line",
        ):
            run_group(method, fname)
    out("DONE")


if __name__ == "__main__":
    main()
