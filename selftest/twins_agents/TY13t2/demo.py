#!/usr/bin/env python
"""Differential demonstration for property C13:

    "stop, skip, advance and last control the run as documented"

The script drives the code that makes the property hold -- Matcher.matches,
Matcher._do_lasts, CsvPath._consider_line / next / collect / advance,
LineMonitor.is_last_line*, Scanner.is_last / includes and the Stop / Skip /
Advance / Last match functions -- through PRE-EXISTING public features only and
prints a deterministic transcript of everything observable: returned lines,
variables, validity, counters, printouts, collected errors, raised exceptions,
selected log messages and the contents of ./archive.

Usage (cwd must be a scratch directory, never the source tree):

    cd /tmp/demo_X && PYTHONPATH=<tree> python demo.py > out.txt

The script creates ./work from scratch (config included) and chdir()s into it,
so that it is self-contained. Nothing in the transcript depends on wall-clock
time: volatile JSON fields are scrubbed and run directories are renamed by their
order of creation within each named-paths group (detected by diffing directory
listings before/after each run, never by parsing the timestamps in their names).
"""
import contextlib
import io
import json
import logging
import os
import re
import shutil
import sys

HERE = os.getcwd()
WORK = os.path.join(HERE, "work")
if os.path.exists(WORK):
    shutil.rmtree(WORK)
os.makedirs(os.path.join(WORK, "config"))
os.chdir(WORK)

CONFIG = """[csvpath_files]
extensions = txt, csvpath, csvpaths

[csv_files]
extensions = txt, csv, tsv, dat, tab, psv, ssv

[errors]
csvpath = raise, collect, stop, fail, print
csvpaths = raise, collect

[logging]
csvpath = debug
csvpaths = info
log_file = logs/csvpath.log
log_files_to_keep = 100
log_file_size = 52428800

[config]
path = config/config.ini

[cache]
path = cache

[listeners]
[marquez]
base_url = http://localhost:5000

[functions]
imports = config/functions.imports

[results]
archive = archive
transfers = transfers

[inputs]
files = inputs/named_files
csvpaths = inputs/named_paths
on_unmatched_file_fingerprints = halt
"""
with open("config/config.ini", "w", encoding="utf-8") as _f:
    _f.write(CONFIG)
with open("config/functions.imports", "w", encoding="utf-8") as _f:
    _f.write("")

import csvpath as _csvpath_pkg  # noqa: E402  pylint: disable=C0413
from csvpath import CsvPath, CsvPaths  # noqa: E402  pylint: disable=C0413
from csvpath.util.line_monitor import LineMonitor  # noqa: E402
from csvpath.scanning.scanner import Scanner  # noqa: E402

OUT = sys.stdout
# which tree is under test goes to stderr, never into the transcript
print(f"csvpath imported from {os.path.dirname(_csvpath_pkg.__file__)}", file=sys.stderr)


def say(*args):
    print(*args, file=OUT)


# --------------------------------------------------------------------------
# data files
# --------------------------------------------------------------------------
FILES = {
    # plain: header + 6 data lines, no trailing newline problems
    "plain.csv": "a,b,c\n1,2,3\n4,5,6\n7,8,9\n10,11,12\n13,14,15\n16,17,18\n",
    # one trailing blank line
    "trail1.csv": "a,b,c\n1,2,3\n4,5,6\n7,8,9\n10,11,12\n\n",
    # three trailing blank lines
    "trail3.csv": "a,b,c\n1,2,3\n4,5,6\n7,8,9\n\n\n\n",
    # interior blank lines
    "interior.csv": "a,b,c\n1,2,3\n\n4,5,6\n\n\n7,8,9\n10,11,12\n",
    # interior and trailing blanks, last physical line is whitespace-free blank
    "both.csv": "a,b,c\n\n1,2,3\n4,5,6\n\n7,8,9\n\n",
    # ragged rows, empty values, zeros
    "ragged.csv": "a,b,c\n1\n4,5\n7,8,9,99\n,,\n0,0,0\n10,,12\n",
    # last line is delimiters only (not blank: it has 3 empty values)
    "delims.csv": "a,b,c\n1,2,3\n4,5,6\n,,\n",
    # header only
    "header.csv": "a,b,c\n",
    # single line, no newline
    "single.csv": "a,b,c",
    # nothing at all
    "empty.csv": "",
    # only blank lines
    "blanks.csv": "\n\n\n",
    # no final newline
    "nonl.csv": "a,b,c\n1,2,3\n4,5,6\n7,8,9",
}
for _name, _text in FILES.items():
    with open(_name, "w", encoding="utf-8", newline="") as _f:
        _f.write(_text)


# --------------------------------------------------------------------------
# log capture: messages only (no timestamps). a whitelist keeps it to the
# messages of the code under study and away from timings and hashes.
# --------------------------------------------------------------------------
LOG_PREFIXES = (
    "Beginning AND match",
    "Beginning OR match",
    "Matcher.matches:",
    "Stopped at",
    "Skipping",
    "Advancing",
    "last line is empty",
    "Is last line",
    "stopping at",
    "skipping",
    "CsvPath has been stopped",
    "Scanner includes",
    "Starting matching",
    "Looking for last",
    "Overriding frozen",
    "Resetting frozen",
    "Last.override_frozen",
    "Run is ending",
    "Match count was already",
    "Resetting and reloading",
)


class Capture(logging.Handler):
    def __init__(self):
        super().__init__(level=logging.DEBUG)
        self.messages = []
        self.on = False

    def emit(self, record):
        if not self.on:
            return
        try:
            m = record.getMessage()
        except Exception as ex:  # pylint: disable=W0718
            m = f"<unformattable {type(ex).__name__}>"
        if m.startswith(LOG_PREFIXES):
            self.messages.append(f"{record.levelname} {m}")


CAPTURE = Capture()
logging.getLogger("csvpath").addHandler(CAPTURE)

ADDR = re.compile(r" at 0x[0-9a-fA-F]+")


def clean(s) -> str:
    s = f"{s}"
    s = ADDR.sub(" at 0x?", s)
    s = s.replace(WORK, "<work>")
    return s


def show_errors(errors):
    if not errors:
        say("  errors: []")
        return
    say(f"  errors: {len(errors)}")
    for e in errors:
        say(
            "   - "
            + clean(
                f"{type(e.error).__name__}: {e.error} | msg={e.message!r} "
                f"line={e.line_count} scan={e.scan_count} match={e.match_count} "
                f"file={e.filename}"
            )
        )


def state(p: CsvPath):
    lm = p.line_monitor
    say(f"  variables: {p.variables!r}")
    say(
        f"  valid={p.is_valid} stopped={p.stopped} completed={p.completed} "
        f"scan_count={p.scan_count} match_count={p.match_count} "
        f"advance_count={p.advance_count} frozen={p.is_frozen}"
    )
    say(
        f"  line_monitor: pln={lm.physical_line_number} plc={lm.physical_line_count} "
        f"dln={lm.data_line_number} dlc={lm.data_line_count} "
        f"end_pln={lm.physical_end_line_number} end_dlc={lm.data_end_line_count}"
    )
    say(f"  unmatched: {p.unmatched!r}")
    show_errors(p.errors)


N = [0]


def run_one(path: str, *, method="collect", logs=False, **kwargs):
    """runs one standalone CsvPath and prints everything observable"""
    N[0] += 1
    say(f"### S{N[0]:04d} method={method} kwargs={kwargs} path={path}")
    buf = io.StringIO()
    p = None
    CAPTURE.messages = []
    CAPTURE.on = logs
    try:
        with contextlib.redirect_stdout(buf):
            p = CsvPath(**kwargs)
            p.parse(path)
            if method == "collect":
                lines = p.collect()
                say(f"  lines: {lines!r}")
            elif method == "collect2":
                lines = p.collect(nexts=2)
                say(f"  lines(nexts=2): {lines!r}")
            elif method == "fast_forward":
                p.fast_forward()
                say("  fast_forward done")
            elif method == "next":
                for i, line in enumerate(p.next()):
                    say(
                        f"  next[{i}]: {line!r} @pln={p.line_monitor.physical_line_number} "
                        f"stopped={p.stopped} adv={p.advance_count}"
                    )
            elif method == "next_advance":
                # the programmatic CsvPath.advance() between iterations
                for i, line in enumerate(p.next()):
                    say(f"  next[{i}]: {line!r}")
                    if i == 0:
                        p.advance(2)
                        say(f"  advance(2) -> advance_count={p.advance_count}")
            elif method == "next_advance_end":
                for i, line in enumerate(p.next()):
                    say(f"  next[{i}]: {line!r}")
                    if i == 1:
                        p.advance()
                        say(f"  advance() -> advance_count={p.advance_count}")
            elif method == "next_stop":
                for i, line in enumerate(p.next()):
                    say(f"  next[{i}]: {line!r}")
                    if i == 1:
                        p.stop()
            else:
                raise ValueError(method)
    except Exception as ex:  # pylint: disable=W0718
        say(clean(f"  EXCEPTION {type(ex).__name__}: {ex}").replace("\n", "\n    | "))
    finally:
        CAPTURE.on = False
    printed = buf.getvalue()
    say(f"  printed: {clean(printed)!r}")
    if p is not None:
        try:
            state(p)
        except Exception as ex:  # pylint: disable=W0718
            say(clean(f"  STATE EXCEPTION {type(ex).__name__}: {ex}"))
    if logs:
        say(f"  log messages: {len(CAPTURE.messages)}")
        for m in CAPTURE.messages:
            say("   > " + clean(m).replace("\n", "\\n"))


# --------------------------------------------------------------------------
# part 0: the helpers, directly
# --------------------------------------------------------------------------
def part0():
    say("=" * 78)
    say("PART 0: LineMonitor and Scanner helpers called directly")
    say("=" * 78)
    lines = [None, [], [""], ["", ""], [" "], ["a"], ["", "a"], [0], [None], (), ""]
    for end, cur in [(None, None), (None, 0), (0, None), (0, 0), (3, 2), (3, 3), (3, 4)]:
        lm = LineMonitor()
        lm._physical_end_line_number = end  # pylint: disable=W0212
        lm._physical_line_number = cur  # pylint: disable=W0212
        for line in lines:
            res = []
            for fn in (lm.is_last_line_and_blank, lm.is_last_line_and_empty):
                try:
                    res.append(repr(fn(line)))
                except Exception as ex:  # pylint: disable=W0718
                    res.append(f"{type(ex).__name__}: {ex}")
            say(
                f"  end={end} cur={cur} line={line!r}: is_last_line={lm.is_last_line()!r} "
                f"blank={res[0]} empty={res[1]}"
            )
    for bad in (5, 1.5, object):
        lm = LineMonitor()
        lm._physical_end_line_number = 1  # pylint: disable=W0212
        lm._physical_line_number = 1  # pylint: disable=W0212
        for fn in (lm.is_last_line_and_blank, lm.is_last_line_and_empty):
            try:
                say(f"  line={bad!r} {fn.__name__}: {fn(bad)!r}")
            except Exception as ex:  # pylint: disable=W0718
                say(f"  line={bad!r} {fn.__name__}: {type(ex).__name__}: {ex}")
    # a monitor driven the way a run drives it
    lm = LineMonitor()
    for data in (["a", "b"], [], ["1", "2"], [], []):
        lm.next_line(last_line=None, data=data)
    lm.set_end_lines_and_reset()
    say(f"  after count: {lm.dump()}")
    for data in (["a", "b"], [], ["1", "2"], [], []):
        lm.next_line(last_line=None, data=data)
        say(
            f"  data={data!r} pln={lm.physical_line_number} dln={lm.data_line_number} "
            f"last={lm.is_last_line()} blank={lm.is_last_line_and_blank(data)} "
            f"empty={lm.is_last_line_and_empty(data)}"
        )
    say(f"  copy: {lm.copy().dump()}")
    # scanner
    for scan in ("$plain.csv[*]", "$plain.csv[2*]", "$plain.csv[1-3]", "$plain.csv[3-1]",
                 "$plain.csv[1+3+5]", "$plain.csv[4]", "$plain.csv[0]", "$plain.csv[2-2]"):
        p = CsvPath()
        p.parse(f"{scan}[yes()]")
        row = []
        for n in (None, 0, 1, 2, 3, 4, 5, 6, 7):
            row.append(f"{n}:{'I' if p.scanner.includes(n) else '-'}{'L' if p.scanner.is_last(n) else '-'}")
        say(f"  {scan}: " + " ".join(row))


# --------------------------------------------------------------------------
# part 1: position sweep. a conditional stop/skip/advance/last is placed at
# every position among 1-5 side-effecting components
# --------------------------------------------------------------------------
EFFECTS = [
    'push("e1", line_number())',
    'print("e2 at $.csvpath.line_number")',
    "@e3 = count_lines()",
    'push("e4", #0)',
    "counter.e5(1)",
]


def controls(fire: int):
    """conditional control components that fire on physical line `fire`"""
    return [
        f"stop(line_number()=={fire})",
        f"line_number()=={fire} -> stop()",
        f"skip(line_number()=={fire})",
        f"line_number()=={fire} -> skip()",
        f"line_number()=={fire} -> advance(2)",
        'last() -> push("atlast", line_number())',
        'last.nocontrib() -> print("last at $.csvpath.line_number")',
        f"line_number()=={fire} -> fail_and_stop()",
    ]


def sweep(filename, scan, fire, sizes, method="collect", **kwargs):
    for ctrl in controls(fire):
        for n in sizes:
            effects = EFFECTS[:n]
            for pos in range(0, n + 1):
                comps = effects[:pos] + [ctrl] + effects[pos:]
                path = f"${filename}[{scan}][ " + " ".join(comps) + " ]"
                run_one(path, method=method, **kwargs)


def part1():
    say("=" * 78)
    say("PART 1: every position of a conditional control among 1-5 side effects")
    say("=" * 78)
    # the full position sweep on a file with a trailing blank line
    sweep("trail1.csv", "*", 2, (1, 2, 3, 4, 5))
    # control at every position of three, across files / windows / firing lines
    sweep("plain.csv", "*", 0, (3,))
    sweep("plain.csv", "*", 6, (3,))
    sweep("plain.csv", "1*", 3, (3,))
    sweep("plain.csv", "2-4", 4, (3,))
    sweep("plain.csv", "1+3+5", 3, (3,))
    sweep("plain.csv", "3", 3, (2,))
    sweep("interior.csv", "*", 3, (3,))
    sweep("interior.csv", "2-6", 6, (2,))
    sweep("both.csv", "*", 5, (3,))
    sweep("both.csv", "1*", 3, (2,), method="fast_forward")
    sweep("trail3.csv", "*", 3, (2,))
    sweep("ragged.csv", "*", 4, (3,))
    sweep("delims.csv", "*", 3, (2,))
    sweep("nonl.csv", "*", 3, (2,), method="next")
    sweep("trail1.csv", "*", 4, (2,), skip_blank_lines=False)
    sweep("interior.csv", "*", 2, (2,), skip_blank_lines=False)


# --------------------------------------------------------------------------
# part 2: hand-written cases
# --------------------------------------------------------------------------
def part2():
    say("=" * 78)
    say("PART 2: hand-written cases")
    say("=" * 78)
    every_file = list(FILES.keys())
    for fn in every_file:
        for body in (
            'push("n", line_number()) last() -> @l = line_number()',
            'last.nocontrib() -> print("bye $.csvpath.count_lines") yes()',
            'stop(#a=="4") push("n", line_number())',
            'push("n", line_number()) skip(#a=="4") push("m", #a)',
            'firstline.nocontrib() -> advance(1) push("n", line_number())',
            "last()",
        ):
            run_one(f"${fn}[*][ {body} ]")
    # stop is the final component and the line matched / did not match
    run_one('$plain.csv[*][ #a=="7" -> stop() ]')
    run_one('$plain.csv[*][ yes() #a=="7" -> stop() ]')
    run_one('$plain.csv[*][ yes() stop(#a=="7") ]')
    run_one('$plain.csv[*][ no() stop(#a=="7") ]')
    run_one('$plain.csv[*][ stop(#a=="7") no() ]')
    run_one('$plain.csv[*][ stop(#a=="7") yes() ]')
    run_one("$plain.csv[*][ stop() ]")
    run_one('$plain.csv[*][ push("n", #a) stop() push("m", #a) ]')
    run_one("$plain.csv[*][ skip() ]")
    run_one('$plain.csv[*][ push("n", #a) skip() push("m", #a) ]')
    run_one('$plain.csv[*][ yes() skip(#a=="7") ]')
    run_one('$plain.csv[*][ skip.once(yes()) push("m", #a) ]')
    run_one('$plain.csv[*][ push("m", #a) skip(#a=="16") ]')
    run_one('$plain.csv[1-3][ push("m", #a) skip(#a=="7") ]')
    run_one('$plain.csv[1-3][ push("m", #a) stop(#a=="7") ]')
    # advance: 0, negative, large, repeated, with the scan ending in the advance
    for n in ("0", "1", "2", "5", "6", "7", "100", "-1", "-3"):
        run_one(
            f'$plain.csv[*][ push("seen", line_number()) line_number()==1 -> advance({n}) '
            'last() -> push("last", line_number()) ]'
        )
    run_one('$plain.csv[*][ push("seen", line_number()) advance(1) ]')
    run_one('$plain.csv[*][ advance(1) push("seen", line_number()) ]')
    run_one('$plain.csv[1-4][ push("seen", line_number()) line_number()==2 -> advance(5) ]')
    run_one('$plain.csv[1+3+5][ push("seen", line_number()) line_number()==1 -> advance(1) ]')
    run_one('$trail1.csv[*][ push("seen", line_number()) line_number()==3 -> advance(1) last() -> @l = line_number() ]')
    run_one('$trail1.csv[*][ push("seen", line_number()) line_number()==3 -> advance(2) last() -> @l = line_number() ]')
    run_one('$trail1.csv[*][ push("seen", line_number()) line_number()==3 -> advance(3) last() -> @l = line_number() ]')
    run_one('$interior.csv[*][ push("seen", line_number()) line_number()==1 -> advance(2) ]')
    run_one('$interior.csv[*][ push("seen", line_number()) line_number()==1 -> advance(2) ]', skip_blank_lines=False)
    run_one('$plain.csv[*][ advance("x") ]')
    run_one('$plain.csv[*][ @n = 2 line_number()==1 -> advance(@n) push("seen", line_number()) ]')
    run_one('$plain.csv[*][ line_number()==1 -> advance(add(1,1)) push("seen", line_number()) ]')
    # last(): scan-last vs file-last, at most once, with children, frozen variables
    run_one('$plain.csv[*][ last() ]')
    run_one('$plain.csv[1-3][ last() ]')
    run_one('$plain.csv[1-3][ last.nocontrib() -> @l = line_number() push("n", line_number()) ]')
    run_one('$plain.csv[1+3][ last.nocontrib() -> @l = line_number() counter.c(1) ]')
    run_one('$plain.csv[6][ last() -> @l = line_number() ]')
    run_one('$plain.csv[5*][ last() -> @l = line_number() ]')
    run_one('$plain.csv[*][ last(push("l", line_number())) ]')
    run_one('$trail1.csv[*][ last(push("l", line_number())) push("n", line_number()) ]')
    run_one('$trail1.csv[*][ push("n", line_number()) last.nocontrib() -> push("l", line_number()) push("m", line_number()) ]')
    run_one('$trail1.csv[*][ counter.c(1) last.nocontrib() -> counter.lasts(1) ]')
    run_one('$trail1.csv[1-4][ counter.c(1) last.nocontrib() -> counter.lasts(1) ]')
    run_one('$trail1.csv[1-5][ counter.c(1) last.nocontrib() -> counter.lasts(1) ]')
    run_one('$trail3.csv[*][ counter.c(1) last.nocontrib() -> counter.lasts(1) ]')
    run_one('$trail3.csv[*][ counter.c(1) last.nocontrib() -> counter.lasts(1) ]', skip_blank_lines=False)
    run_one('$trail1.csv[*][ counter.c(1) last.nocontrib() -> counter.lasts(1) ]', skip_blank_lines=False)
    run_one('$trail1.csv[*][ @a = "x" last() -> print("a is $.variables.a") last() -> @a = "y" last() -> print("a is $.variables.a") ]')
    run_one('$trail1.csv[*][ last() -> stop() last() -> @after = "ran" ]')
    run_one('$trail1.csv[*][ last() -> skip() last() -> @after = "ran" ]')
    run_one('$trail1.csv[*][ last() -> fail() last() -> @after = "ran" ]')
    run_one('$trail1.csv[*][ last() -> fail_and_stop() last() -> @after = "ran" ]')
    run_one('$plain.csv[*][ last() -> stop() last() -> @after = "ran" ]')
    run_one('$plain.csv[*][ last() -> skip() last() -> @after = "ran" ]')
    run_one('$trail1.csv[*][ or( last(), no() ) -> @deep = line_number() yes() ]')
    run_one('$trail1.csv[*][ not(last()) ]')
    run_one('$trail1.csv[*][ last() last() ]')
    # errors raised under last() on a blank last line, with and without raise
    run_one('$trail1.csv[*][ last() -> @x = divide(1, 0) ]')
    run_one('~ validation-mode: no-raise, no-stop, collect, print ~ $trail1.csv[*][ last() -> @x = int("abc") last() -> @y = 1 ]')
    run_one('~ validation-mode: no-raise, stop, collect, no-print ~ $trail1.csv[*][ last() -> @x = int("abc") last() -> @y = 1 ]')
    run_one('~ validation-mode: no-raise, no-stop, collect, no-print, fail ~ $plain.csv[*][ push("n", line_number()) #a == "7" -> @x = int("abc") push("m", line_number()) ]')
    run_one('~ validation-mode: no-raise, stop, collect, no-print ~ $plain.csv[*][ push("n", line_number()) #a == "7" -> @x = int("abc") push("m", line_number()) ]')
    # logic-mode OR, onmatch, return-mode no-match, collect() limits
    run_one('~ logic-mode: OR ~ $plain.csv[*][ #a=="4" stop(#a=="10") push("n", #a) ]')
    run_one('~ logic-mode: OR ~ $plain.csv[*][ #a=="4" skip(#a=="10") push("n", #a) ]')
    run_one('~ logic-mode: OR ~ $trail1.csv[*][ no() last() -> @l = line_number() ]')
    run_one('~ return-mode: no-matches ~ $plain.csv[*][ #a=="4" stop(#a=="10") ]')
    run_one('~ return-mode: no-matches ~ $plain.csv[*][ skip(#a=="4") no() ]')
    run_one('~ return-mode: no-matches ~ $trail1.csv[*][ line_number()==1 -> advance(1) last() ]')
    run_one('~ unmatched-mode: keep ~ $plain.csv[*][ skip(#a=="4") stop(#a=="10") #b=="8" ]')
    run_one('$plain.csv[*][ push.onmatch("n", #a) #b=="8" skip(#a=="10") ]')
    run_one('$plain.csv[*][ @c.onmatch = count() stop.onmatch(#a=="10") above(#a, 3) ]')
    run_one('$plain.csv[*][ collect("a") stop(#a=="10") ]')
    run_one('$ragged.csv[*][ collect("c") skip(#a=="1") ]')
    run_one('$ragged.csv[*][ skip(empty(#b)) push("b", #b) ]')
    run_one('$ragged.csv[*][ stop(#a==0) push("a", #a) ]')
    run_one('$ragged.csv[*][ stop(#a=="") push("a", #a) ]')
    run_one('$ragged.csv[*][ stop(not(#a)) push("a", #a) ]')
    run_one('$ragged.csv[*][ line_number()==1 -> advance(int(#a)) push("n", line_number()) ]')
    run_one('$ragged.csv[*][ line_number()==5 -> advance(int(#a)) push("n", line_number()) ]')
    # the other drivers
    for m in ("collect2", "fast_forward", "next", "next_advance", "next_advance_end", "next_stop"):
        run_one('$plain.csv[*][ push("n", line_number()) yes() last() -> @l = "x" ]', method=m)
        run_one('$trail1.csv[*][ push("n", line_number()) skip(#a=="4") stop(#a=="10") ]', method=m)
        run_one('$trail1.csv[2*][ push("n", line_number()) last.nocontrib() -> @l = line_number() ]', method=m)
    # missing file / nothing to scan
    run_one('$nosuch.csv[*][ stop() ]')
    run_one('$plain.csv[10-12][ push("n", line_number()) last() -> @l = 1 ]')
    run_one('$plain.csv[6*][ push("n", line_number()) last() -> @l = 1 ]')
    # debug log messages of the code under study
    run_one('$trail1.csv[*][ push("n", line_number()) skip(#a=="4") line_number()==3 -> advance(1) last.nocontrib() -> @l = 1 ]', logs=True)
    run_one('$plain.csv[1-4][ push("n", line_number()) stop(#a=="7") push("m", 1) ]', logs=True)
    run_one('~ logic-mode: OR ~ $both.csv[*][ no() skip(#a=="4") last() -> stop() ]', logs=True)
    run_one('$both.csv[*][ yes() last() -> skip() last() -> @never = 1 ]', logs=True, skip_blank_lines=False)
    # repeated runs must agree with each other
    for _ in range(3):
        run_one('$both.csv[*][ push("n", line_number()) skip(#a=="4") last() -> @l = line_number() ]')
    # re-running the same instance
    say("### re-running one instance")
    buf = io.StringIO()
    with contextlib.redirect_stdout(buf):
        p = CsvPath()
        p.parse('$trail1.csv[*][ push("n", line_number()) stop(#a=="7") ]')
        first = p.collect()
        try:
            second = p.collect()
        except Exception as ex:  # pylint: disable=W0718
            second = clean(f"EXCEPTION {type(ex).__name__}: {ex}")
    say(f"  first: {first!r}")
    say(f"  second: {second!r}")
    state(p)


# --------------------------------------------------------------------------
# part 3: CsvPaths, with the archive
# --------------------------------------------------------------------------
VOLATILE_KEYS = {
    "time",
    "uuid",
    "time_completed",
    "named_paths_uuid",
    "run_time",
    "run_started_at",
    "lines_time",
    "last_line_time",
    "trace",
    "at",
    "named_file_last_change",
}
STABLE_FINGERPRINTS = {"data.csv", "vars.json", "printouts.txt", "unmatched.csv"}
# real run dir name -> normalised name, per named-paths group
RUN_NAMES = {}
SEEN_RUNS = {}


def note_new_runs():
    """gives every run directory that appeared since the last call a name made
    of its order of creation within its named-paths group. exactly one run is
    started between two calls so the order is known without reading the
    timestamp in the name."""
    if not os.path.exists("archive"):
        return
    for group in sorted(os.listdir("archive")):
        gdir = os.path.join("archive", group)
        if not os.path.isdir(gdir):
            continue
        seen = SEEN_RUNS.setdefault(group, [])
        new = [d for d in os.listdir(gdir) if d not in seen]
        if len(new) > 1:
            raise RuntimeError(f"more than one new run dir in {gdir}: {new}")
        for d in new:
            seen.append(d)
            RUN_NAMES[(group, d)] = f"RUN{len(seen)}"


def norm_text(s: str) -> str:
    # longest real names first so that "<ts>.0" is not clobbered by "<ts>"
    for (group, real), fake in sorted(RUN_NAMES.items(), key=lambda kv: -len(kv[0][1])):
        s = s.replace(f"archive/{group}/{real}", f"archive/{group}/{fake}")
        s = s.replace(os.path.join("archive", group, real), f"archive/{group}/{fake}")
    return clean(s)


def scrub(o, group=None, real=None):
    """replaces volatile values. `real` is the real name of the run directory
    the json was read from. the manifests' "run" field holds the run's start
    time formatted like a run directory name, without the ".N" suffix that a
    directory gets when another run of the group started in the same second.
    it is checked against the directory name and replaced by a constant."""
    if isinstance(o, dict):
        ret = {}
        for k, v in o.items():
            if k in VOLATILE_KEYS:
                ret[k] = "<volatile>" if v is not None else None
            elif k == "run":
                ok = real is not None and (real == v or real.startswith(f"{v}."))
                ret[k] = "<run start, agrees with dir>" if ok else "<run MISMATCH>"
            elif k == "file_fingerprints" and isinstance(v, dict):
                ret[k] = {
                    a: (b if a in STABLE_FINGERPRINTS else "<volatile>")
                    for a, b in v.items()
                }
            else:
                ret[k] = scrub(v, group, real)
        return ret
    if isinstance(o, list):
        return [scrub(_, group, real) for _ in o]
    if isinstance(o, str):
        return norm_text(o)
    return o


def dump_archive(group: str):
    gdir = os.path.join("archive", group)
    if not os.path.exists(gdir):
        say(f"  archive/{group}: does not exist")
        return
    # runs in creation order
    for real in SEEN_RUNS.get(group, []):
        fake = RUN_NAMES[(group, real)]
        rdir = os.path.join(gdir, real)
        for root, dirs, files in os.walk(rdir):
            dirs.sort()
            for f in sorted(files):
                full = os.path.join(root, f)
                rel = os.path.relpath(full, rdir).replace(os.sep, "/")
                say(f"  --- archive/{group}/{fake}/{rel}")
                with open(full, "r", encoding="utf-8") as fh:
                    text = fh.read()
                if f.endswith(".json"):
                    try:
                        j = scrub(json.loads(text), group, real)
                        text = json.dumps(j, indent=1)
                    except Exception as ex:  # pylint: disable=W0718
                        text = f"<unparseable json {type(ex).__name__}> {norm_text(text)}"
                else:
                    text = norm_text(text)
                for line in text.split("\n"):
                    say(f"      {line}")


def group_run(group, paths, filename, method, **kwargs):
    N[0] += 1
    say(f"### G{N[0]:04d} group={group} file={filename} method={method} kwargs={kwargs}")
    for i, p in enumerate(paths):
        say(f"  path[{i}]: {p}")
    buf = io.StringIO()
    cp = None
    try:
        with contextlib.redirect_stdout(buf):
            cp = CsvPaths()
            cp.file_manager.add_named_file(name=filename, path=filename)
            cp.paths_manager.add_named_paths(name=group, paths=paths)
            fn = getattr(cp, method)
            if method.startswith("next"):
                for i, line in enumerate(fn(pathsname=group, filename=filename, **kwargs)):
                    say(f"  next[{i}]: {line!r}")
            else:
                ret = fn(pathsname=group, filename=filename, **kwargs)
                if ret is not None:
                    say(f"  returned: {ret!r}")
    except Exception as ex:  # pylint: disable=W0718
        say(norm_text(f"  EXCEPTION {type(ex).__name__}: {ex}").replace("\n", "\n    | "))
    note_new_runs()
    say(f"  printed: {norm_text(buf.getvalue())!r}")
    if cp is not None:
        try:
            results = cp.results_manager.get_named_results(group)
        except Exception as ex:  # pylint: disable=W0718
            results = []
            say(norm_text(f"  RESULTS EXCEPTION {type(ex).__name__}: {ex}"))
        for r in results:
            p = r.csvpath
            say(f"  result {r.identity_or_index}: lines={len(r.lines) if r.lines is not None else None} "
                f"valid={r.is_valid} stopped={p.stopped} scan={p.scan_count} match={p.match_count} "
                f"adv={p.advance_count} pln={p.line_monitor.physical_line_number} "
                f"errors={r.errors_count} unmatched={r.unmatched!r}")
            say(f"    variables: {r.variables!r}")
            say(f"    printouts: {r.get_printouts()!r}" if hasattr(r, "get_printouts") else "")
        show_errors(cp.errors)
    dump_archive(group)


def part3():
    say("=" * 78)
    say("PART 3: CsvPaths runs and their archives")
    say("=" * 78)
    serial = [
        '~ id: first ~ $[*][ push("n", line_number()) skip(#a=="4") last.nocontrib() -> print("first done at $.csvpath.line_number") ]',
        '~ id: second ~ $[*][ push("n", line_number()) stop(#a=="7") ]',
        '~ id: third ~ $[1*][ line_number()==1 -> advance(2) push("n", line_number()) last() -> @l = line_number() ]',
    ]
    for fn in ("trail1.csv", "plain.csv", "both.csv", "header.csv"):
        g = "serial_" + fn.split(".")[0]
        group_run(g, serial, fn, "collect_paths")
    group_run("ff", serial, "trail1.csv", "fast_forward_paths")
    group_run("nx", serial, "trail1.csv", "next_paths")
    breadth = [
        '~ id: b1 ~ $[*][ push("n", line_number()) #a=="4" -> skip_all() push("m", line_number()) ]',
        '~ id: b2 ~ $[*][ push("n", line_number()) #a=="7" -> advance_all(1) last.nocontrib() -> @l = line_number() ]',
        '~ id: b3 ~ $[*][ push("n", line_number()) #a=="10" -> stop_all() push("m", line_number()) ]',
        '~ id: b4 ~ $[*][ push("n", line_number()) last() -> @l = line_number() ]',
    ]
    for fn in ("trail1.csv", "plain.csv", "interior.csv"):
        g = "breadth_" + fn.split(".")[0]
        group_run(g, breadth, fn, "collect_by_line")
    group_run("bff", breadth, "trail1.csv", "fast_forward_by_line")
    group_run("bnx", breadth, "both.csv", "next_by_line")
    group_run("bagree", breadth, "plain.csv", "collect_by_line", if_all_agree=True)
    lasts = [
        '~ id: l1 ~ $[*][ last() -> stop() last() -> @after = 1 ]',
        '~ id: l2 ~ $[*][ last.nocontrib() -> skip() yes() ]',
        '~ id: l3  validation-mode: no-raise, collect, no-stop, print ~ $[*][ last.nocontrib() -> @x = int("abc") yes() ]',
        '~ id: l4 ~ $[2-3][ last.nocontrib() -> @l = line_number() yes() ]',
    ]
    group_run("lasts_serial", lasts, "trail1.csv", "collect_paths")
    group_run("lasts_breadth", lasts, "trail1.csv", "collect_by_line")
    # the same group run three times: three run dirs, named by creation order
    again = [
        '~ id: only ~ $[*][ push("n", line_number()) skip(#a=="4") stop(#a=="10") last() -> @l = 1 ]'
    ]
    for _ in range(3):
        group_run("again", again, "trail1.csv", "collect_paths")
    say("### archive listing (normalised)")
    listing = []
    for root, dirs, files in os.walk("archive"):
        dirs.sort()
        for f in files:
            listing.append(norm_text(os.path.join(root, f).replace(os.sep, "/")))
    for _ in sorted(listing):
        say("  " + _)
    say("### archive/manifest.json (normalised)")
    with open(os.path.join("archive", "manifest.json"), "r", encoding="utf-8") as fh:
        j = scrub(json.load(fh))
    for line in json.dumps(j, indent=1).split("\n"):
        say(f"      {line}")


if __name__ == "__main__":
    part0()
    part1()
    part2()
    part3()
    say("DONE")
