#!/usr/bin/env python
"""Differential demonstration for property C18 (a run that aborts still leaves
a truthful, readable record).

Standalone: creates ./work (fresh), writes an offline config/config.ini there,
builds small CSV files and named-paths groups, aborts runs at every
(member, line) point for every run method, runs again on the same CsvPaths
instance, and prints a deterministic transcript of everything observable:
exceptions, yielded/returned lines, per-result state, the archive tree and
every archive file (timestamps, uuids, object addresses, timings and source
line numbers in tracebacks normalised), the named-files / named-paths stores
and a digest of the log.

usage:  cd <empty temp dir> && PYTHONPATH=<tree> /venv/bin/python demo.py > out.txt
"""
import os
import sys
import re
import json
import shutil
import hashlib
import io
import contextlib

if os.environ.get("PYTHONHASHSEED") != "0":
    # lark lists the tokens it expected from a set; pin the hash seed so the
    # text of a syntax error is the same from run to run
    os.environ["PYTHONHASHSEED"] = "0"
    os.execv(sys.executable, [sys.executable] + sys.argv)

WORK = os.path.join(os.getcwd(), "work")
if os.path.exists(WORK):
    shutil.rmtree(WORK)
os.makedirs(os.path.join(WORK, "config"))
os.chdir(WORK)

CONFIG = """[csvpath_files]
extensions = txt, csvpath, csvpaths

[csv_files]
extensions = txt, csv, tsv, dat, tab, psv, ssv

[errors]
csvpath = raise, collect, stop, fail, print
csvpaths = raise, collect

[logging]
csvpath = info
csvpaths = info
log_file = logs/csvpath.log
log_files_to_keep = 100
log_file_size = 52428800

[config]
path = config/config.ini

[cache]
path = cache

[listeners]
[marquez]
base_url = http://localhost:5000

[functions]
imports = config/functions.imports

[results]
archive = archive
transfers = transfers

[inputs]
files = inputs/named_files
csvpaths = inputs/named_paths
on_unmatched_file_fingerprints = halt
"""


def enter_block(name: str) -> None:
    """every block of scenarios works in its own fresh directory with its own
    config, inputs and archive (the archive-wide manifest.json grows with
    every run; this keeps the demonstration quick)"""
    global CWD  # pylint: disable=W0603
    d = os.path.join(WORK, name)
    os.makedirs(os.path.join(d, "config"))
    os.chdir(d)
    with open("config/config.ini", "w", encoding="utf-8") as f:
        f.write(CONFIG)
    with open("config/functions.imports", "w", encoding="utf-8") as f:
        f.write("")
    CWD = os.getcwd()
    RUNMAP.clear()
    _FILES.clear()



from csvpath import CsvPaths, CsvPath  # noqa: E402  pylint: disable=C0413

OUT = sys.stdout
CWD = os.getcwd()
RUNMAP = {}
_FILES = {}
LOG_PATH = [None]

# --------------------------------------------------------------------------
# normalisation
# --------------------------------------------------------------------------
RUN_DIR_RE = re.compile(r"\d{4}-\d\d-\d\d_\d\d-\d\d-\d\d(?:\.\d+)?")
ISO_RE = re.compile(
    r"\d{4}-\d\d-\d\d[T ]\d\d:\d\d:\d\d(?:\.\d+)?(?:\+\d\d:\d\d|Z)?"
)
UUID_RE = re.compile(
    r"[0-9a-f]{8}-[0-9a-f]{4}-[0-9a-f]{4}-[0-9a-f]{4}-[0-9a-f]{12}"
)
ADDR_RE = re.compile(r" at 0x[0-9a-fA-F]+")
TRACE_FILE_RE = re.compile(r'File "[^"]*?[/\\](csvpath[/\\][^"]*)", line \d+')
TRACE_ANYFILE_RE = re.compile(r'File "([^"]*)", line \d+')
MATCHER_ID_RE = re.compile(r'"matcher_id":"[0-9a-f]+"')
CTIME_RE = re.compile(
    r"(Mon|Tue|Wed|Thu|Fri|Sat|Sun) (Jan|Feb|Mar|Apr|May|Jun|Jul|Aug|Sep|Oct|Nov|Dec) [ \d]\d \d\d:\d\d:\d\d \d{4}"
)

def map_runs() -> None:
    """gives every run dir in ./archive a stable name: <pathsname>#<n> in
    creation order (the name sorts by time, then by the .N suffix)"""
    if not os.path.isdir("archive"):
        return
    for pn in sorted(os.listdir("archive")):
        d = os.path.join("archive", pn)
        if not os.path.isdir(d):
            continue
        names = [n for n in os.listdir(d) if RUN_DIR_RE.fullmatch(n)]

        def _key(x):
            t, dot, n = x.partition(".")
            return (t, int(n) if dot else -1)

        for i, n in enumerate(sorted(names, key=_key)):
            RUNMAP.setdefault((pn, n), f"RUN{i}")


def norm_text(s: str, pathsname: str = None) -> str:
    if not isinstance(s, str):
        return s
    s = s.replace(CWD, "<cwd>")

    def _run(m):
        # a bare run name (the "run" of a manifest is the second the run
        # started in, without the .N its directory may have got)
        return "<rundir>"

    # run dirs that are part of a path: archive/<pathsname>/<rundir>
    def _arch(m):
        pn, n = m.group(1), m.group(2)
        return f"archive/{pn}/" + RUNMAP.get((pn, n), "<rundir>")

    s = re.sub(
        r"archive[/\\]([^/\\\"\s]+)[/\\](\d{4}-\d\d-\d\d_\d\d-\d\d-\d\d(?:\.\d+)?)",
        _arch,
        s,
    )
    s = RUN_DIR_RE.sub(_run, s)
    s = ISO_RE.sub("<time>", s)
    s = CTIME_RE.sub("<ctime>", s)
    s = UUID_RE.sub("<uuid>", s)
    s = ADDR_RE.sub(" at 0x?", s)
    s = TRACE_FILE_RE.sub(lambda m: f'File "{m.group(1)}", line N', s)
    s = TRACE_ANYFILE_RE.sub(lambda m: f'File "{m.group(1)}", line N', s)
    s = MATCHER_ID_RE.sub('"matcher_id":"<id>"', s)
    return s


TIMING_KEYS = {"lines_time", "last_line_time"}
VOLATILE_FP = {"meta.json", "errors.json"}


def norm_json(o, pathsname=None, key=None):
    if isinstance(o, dict):
        out = {}
        for k, v in o.items():
            if k in TIMING_KEYS and isinstance(v, (int, float)):
                # -1 means never measured; anything else is a duration
                out[k] = v if v == -1 else "<t>"
            elif k == "file_fingerprints" and isinstance(v, dict):
                out[k] = {
                    fk: ("<sha:volatile>" if fk in VOLATILE_FP else fv)
                    for fk, fv in v.items()
                }
            else:
                out[k] = norm_json(v, pathsname, k)
        return out
    if isinstance(o, list):
        return [norm_json(v, pathsname, key) for v in o]
    if isinstance(o, str):
        return norm_text(o, pathsname)
    return o


def p(*a) -> None:
    print(*a, file=OUT)


# --------------------------------------------------------------------------
# dumping
# --------------------------------------------------------------------------
def _dir_key(x: str):
    # run dirs in creation order (second, then .N counter); others by name
    t, dot, n = x.partition(".")
    if RUN_DIR_RE.fullmatch(x):
        return (t, int(n) if dot else -1)
    return (x, -1)


def dump_file(path: str, pathsname=None) -> str:
    try:
        with open(path, "r", encoding="utf-8") as f:
            txt = f.read()
    except Exception as e:  # pylint: disable=W0718
        return f"<<unreadable: {type(e).__name__}>>"
    if path.endswith(".json"):
        try:
            j = json.loads(txt)
        except Exception as e:  # pylint: disable=W0718
            return f"<<bad json: {type(e).__name__}>> {norm_text(txt, pathsname)!r}"
        return json.dumps(norm_json(j, pathsname), indent=1)
    return norm_text(txt, pathsname)


def dump_tree(root: str, pathsname=None, *, contents=True) -> str:
    buf = []
    if not os.path.exists(root):
        return f"{root}: <absent>\n"
    for d, dirs, files in os.walk(root):
        dirs.sort(key=_dir_key)
        for fn in sorted(files):
            fp = os.path.join(d, fn)
            buf.append(f"--- {norm_text(fp, pathsname)}")
            if contents:
                buf.append(dump_file(fp, pathsname))
        if not dirs and not files:
            buf.append(f"--- {norm_text(d, pathsname)}/ <empty dir>")
    return "\n".join(buf) + "\n"


def run_dirs(pathsname: str) -> list:
    d = os.path.join("archive", pathsname)
    if not os.path.isdir(d):
        return []
    # in creation order: by the second, then by the .N counter
    def _key(x):
        t, dot, n = x.partition(".")
        return (t, int(n) if dot and n.isdigit() else -1)

    return sorted(os.listdir(d), key=_key)


def dump_archive(pathsname: str, only: list, *, contents=True) -> str:
    """the run dirs named in only (those a scenario created), in full"""
    map_runs()
    buf = [f"  run dirs of {pathsname}: " + json.dumps(
        [RUNMAP.get((pathsname, n), n) for n in run_dirs(pathsname)]
    ) + "\n"]
    for n in only:
        buf.append(
            dump_tree(os.path.join("archive", pathsname, n), pathsname, contents=contents)
        )
    return "".join(buf)


def store_digest() -> str:
    """the named-files and named-paths stores: listing and contents"""
    t = dump_tree("inputs", None, contents=True)
    return hashlib.sha256(t.encode("utf-8")).hexdigest()[:16]


def exc_str(e: BaseException) -> str:
    if e is None:
        return "None"
    c = e.__cause__
    s = f"{type(e).__name__}: {norm_text(str(e))}"
    if c is not None:
        s += f" <- cause {type(c).__name__}: {norm_text(str(c))}"
        c2 = c.__cause__
        if c2 is not None:
            s += f" <- cause {type(c2).__name__}: {norm_text(str(c2))}"
    return s


def result_state(cp, pathsname: str) -> str:
    buf = []
    try:
        rs = cp.results_manager.get_named_results(pathsname)
    except Exception as e:  # pylint: disable=W0718
        return f"  results: {type(e).__name__}\n"
    for r in rs:
        c = r.csvpath
        buf.append(
            f"  result[{r.run_index}] id={r.identity_or_index!r} valid={r.is_valid} "
            f"csvpath.valid={c.is_valid} stopped={c.stopped} aborted={c.aborted} "
            f"completed={c.completed} scans={c.scan_count} matches={c.match_count} "
            f"line={c.line_monitor.physical_line_number if c.line_monitor else None} "
            f"errors={r.errors_count} has_errors={r.has_errors()} by_line={r.by_line}"
        )
        for e in r.errors:
            buf.append(
                f"    error line={e.line_count} match={e.match_count} scan={e.scan_count} "
                f"class={getattr(e, 'exception_class', None)} msg={norm_text(str(e.error))!r} "
                f"source={norm_text(str(e.source))[:70]!r}"
            )
            buf.append(
                "    trace-sha="
                + hashlib.sha256(
                    norm_text(e.trace or "").encode("utf-8")
                ).hexdigest()[:12]
            )
        buf.append(f"    variables={json.dumps(c.variables, default=str)}")
        buf.append(f"    printouts={json.dumps(r.get_printouts())}")
        buf.append(f"    unmatched={json.dumps(r.unmatched)}")
        try:
            buf.append(f"    len(result)={len(r)}")
        except Exception as e:  # pylint: disable=W0718
            buf.append(f"    len(result)!{type(e).__name__}")
        buf.append(f"    lines-type={type(r.lines).__name__}")
    try:
        buf.append(
            "  manager: valid=%s has_errors=%s n=%s vars=%s"
            % (
                cp.results_manager.is_valid(pathsname),
                cp.results_manager.has_errors(pathsname),
                cp.results_manager.get_number_of_results(pathsname),
                json.dumps(cp.results_manager.get_variables(pathsname), default=str),
            )
        )
    except Exception as e:  # pylint: disable=W0718
        buf.append(f"  manager!{type(e).__name__}: {e}")
    return "\n".join(buf) + "\n"


_LOG_POS = [0]
LOG_TS_RE = re.compile(r"^\d{4}-\d\d-\d\d \d\d:\d\d:\d\d[,.]\d+")
LOG_SKIP = ("Iteration time was", " per line")


def log_digest() -> str:
    """a digest of what was logged since the last call: count and a hash of
    the normalised text (timestamps, timings, addresses, line numbers out)"""
    # the log file is opened once per process, in the block that logged first
    if LOG_PATH[0] is None:
        LOG_PATH[0] = os.path.join(os.getcwd(), "logs", "csvpath.log")
    path = LOG_PATH[0]
    if not os.path.exists(path):
        LOG_PATH[0] = None
        return "log: <none>"
    with open(path, "r", encoding="utf-8", errors="replace") as f:
        f.seek(_LOG_POS[0])
        txt = f.read()
        _LOG_POS[0] = f.tell()
    lines = []
    for ln in txt.split("\n"):
        if any(s in ln for s in LOG_SKIP):
            continue
        ln = LOG_TS_RE.sub("<ts>", ln)
        ln = norm_text(ln)
        ln = re.sub(r"cache[/\\][0-9a-f]{64}", "cache/<key>", ln)
        ln = re.sub(r"\b\d+\.\d+\b", "<f>", ln)
        lines.append(ln)
    if os.environ.get("DEMO_DEBUG_LOG"):
        with open(os.environ["DEMO_DEBUG_LOG"], "a", encoding="utf-8") as f:
            f.write("\n".join(lines) + "\n=====\n")
    h = hashlib.sha256("\n".join(lines).encode("utf-8")).hexdigest()[:12]
    errs = sum(1 for ln in lines if " ERROR " in ln or "ERROR" in ln[:60])
    warns = sum(1 for ln in lines if "WARNING" in ln[:60])
    return f"log: lines={len(lines)} errors={errs} warnings={warns} sha={h}"


# --------------------------------------------------------------------------
# running
# --------------------------------------------------------------------------
def write(path: str, text: str) -> None:
    with open(path, "w", encoding="utf-8") as f:
        f.write(text)


def run_method(cp, method: str, pathsname: str, filename: str):
    """runs one of the run methods to the end or to the exception. returns
    (lines seen by the caller, exception or None, captured stdout)"""
    seen = []
    exc = None
    so = io.StringIO()
    with contextlib.redirect_stdout(so):
        try:
            if method == "collect_paths":
                cp.collect_paths(pathsname=pathsname, filename=filename)
            elif method == "fast_forward_paths":
                cp.fast_forward_paths(pathsname=pathsname, filename=filename)
            elif method == "next_paths":
                for line in cp.next_paths(pathsname=pathsname, filename=filename):
                    seen.append(list(line))
            elif method == "next_paths_collect":
                for line in cp.next_paths(
                    pathsname=pathsname, filename=filename, collect=True
                ):
                    seen.append(list(line))
            elif method == "collect_by_line":
                seen = cp.collect_by_line(pathsname=pathsname, filename=filename)
            elif method == "collect_by_line_agree":
                seen = cp.collect_by_line(
                    pathsname=pathsname, filename=filename, if_all_agree=True
                )
            elif method == "collect_by_line_notmatched":
                seen = cp.collect_by_line(
                    pathsname=pathsname,
                    filename=filename,
                    collect_when_not_matched=True,
                )
            elif method == "fast_forward_by_line":
                cp.fast_forward_by_line(pathsname=pathsname, filename=filename)
            elif method == "next_by_line":
                for line in cp.next_by_line(pathsname=pathsname, filename=filename):
                    seen.append(list(line))
            elif method == "next_by_line_collect_agree":
                for line in cp.next_by_line(
                    pathsname=pathsname,
                    filename=filename,
                    collect=True,
                    if_all_agree=True,
                ):
                    seen.append(list(line))
            else:
                raise ValueError(method)
        except Exception as e:  # pylint: disable=W0718
            exc = e
    return seen, exc, so.getvalue()


SERIAL = ["collect_paths", "fast_forward_paths", "next_paths", "next_paths_collect"]
BYLINE = [
    "collect_by_line",
    "collect_by_line_agree",
    "collect_by_line_notmatched",
    "fast_forward_by_line",
    "next_by_line",
    "next_by_line_collect_agree",
]
ALL_METHODS = SERIAL + BYLINE
CROSS_METHODS = SERIAL + [
    "collect_by_line",
    "fast_forward_by_line",
    "next_by_line_collect_agree",
]
FULL_METHODS = (
    "collect_paths",
    "fast_forward_paths",
    "next_paths_collect",
    "collect_by_line",
    "next_by_line_collect_agree",
)


def scenario(
    title: str,
    cp,
    method: str,
    pathsname: str,
    filename: str,
    *,
    full: bool,
) -> None:
    stores_before = store_digest()
    dirs_before = set(run_dirs(pathsname))
    seen, exc, so = run_method(cp, method, pathsname, filename)
    stores_after = store_digest()
    created = [n for n in run_dirs(pathsname) if n not in dirs_before]
    p(f"## {title} :: {method}")
    p(f"  exception: {exc_str(exc)}")
    p(f"  lines seen: {json.dumps(seen)}")
    p(f"  stdout: {json.dumps(norm_text(so))}")
    p(f"  stores unchanged: {stores_before == stores_after}")
    OUT.write(result_state(cp, pathsname))
    a = dump_archive(pathsname, created)
    if full:
        OUT.write(a)
    else:
        OUT.write(dump_archive(pathsname, created, contents=False))
        p(f"  archive-sha={hashlib.sha256(a.encode('utf-8')).hexdigest()[:16]}")
        # the claims of the property, readably
        brief_manifests(pathsname, created)
    p("  " + log_digest())
    p(
        f"  coordination: stop={cp._stop_all} fail={cp._fail_all} skip={cp._skip_all} "
        f"adv={cp._advance_all} crt={cp._current_run_time is None} rts={cp._run_time_str is None}"
    )


def brief_manifests(pathsname: str, only: list) -> None:
    for n in only:
        _brief_manifests(pathsname, os.path.join("archive", pathsname, n))


def _brief_manifests(pathsname: str, root: str) -> None:
    for d, dirs, files in os.walk(root):
        dirs.sort(key=_dir_key)
        for fn in sorted(files):
            fp = os.path.join(d, fn)
            if fn == "manifest.json":
                try:
                    with open(fp, "r", encoding="utf-8") as f:
                        j = json.load(f)
                except Exception as e:  # pylint: disable=W0718
                    p(f"    {norm_text(fp, pathsname)}: unreadable {type(e).__name__}")
                    continue
                keys = (
                    "status",
                    "all_completed",
                    "all_valid",
                    "error_count",
                    "all_expected_files",
                    "completed",
                    "valid",
                    "files_expected",
                    "file_count",
                    "serial",
                )
                p(
                    f"    {norm_text(fp, pathsname)}: "
                    + json.dumps({k: j[k] for k in keys if k in j})
                )
            elif fn == "errors.json":
                try:
                    with open(fp, "r", encoding="utf-8") as f:
                        j = json.load(f)
                    p(
                        f"    {norm_text(fp, pathsname)}: "
                        + json.dumps(
                            [(e["line_count"], norm_text(e["error"])) for e in j]
                        )
                    )
                except Exception as e:  # pylint: disable=W0718
                    p(f"    {norm_text(fp, pathsname)}: unreadable {type(e).__name__}")


def new_paths(**kw) -> CsvPaths:
    return CsvPaths(print_default=False, **kw)


# --------------------------------------------------------------------------
# data
# --------------------------------------------------------------------------
# 8 physical lines: header, data, ragged short, blank, empty values, zero,
# ragged long, last. column b is what int(#b) reads.
BASE_ROWS = [
    "a,b,c",
    "1,2,3",
    "7,8",
    "",
    ",,",
    "0,0,0",
    "9,0,1,2",
    "5,6,7",
]


def poisoned(k: int) -> str:
    """the base file with a value int() refuses in column b of line k. the
    blank line becomes a line with just that value in column b."""
    rows = list(BASE_ROWS)
    cells = rows[k].split(",") if rows[k] != "" else ["", ""]
    while len(cells) < 2:
        cells.append("")
    cells[1] = "x"
    rows[k] = ",".join(cells)
    return "\n".join(rows) + "\n"


GOOD = "\n".join(BASE_ROWS) + "\n"

OK_MEMBERS = [
    "~id:first~ $[*][yes()]",
    '~id:second~ $[1*][ @n = count() #a == "9" ]',
    "$[*][ @c = count_lines() print(\"line $.csvpath.line_number\") ]",
    "~id:fourth unmatched-mode:keep~ $[1*][ gt(#c, 2) ]",
]
BAD_MEMBER = "~id:bad~ $[1*][ @x = int(#b) ]"


def group(n: int, j: int) -> list:
    """n members, member j is the one that can raise"""
    ms = []
    ok = 0
    for i in range(n):
        if i == j:
            ms.append(BAD_MEMBER)
        else:
            ms.append(OK_MEMBERS[ok])
            ok += 1
    return ms


def cross_product(full_for) -> None:
    p("# ===== abort at every (member, line) x every run method; then run again =====")
    for n in range(1, 5):
        for j in range(n):
            enter_block(f"cross_{n}_{j}")
            cp = new_paths()
            cp.file_manager.add_named_file(name="good", path=_file("good.csv", GOOD))
            for k in range(1, 8):
                cp.file_manager.add_named_file(
                    name=f"bad{k}", path=_file(f"bad{k}.csv", poisoned(k))
                )
            for mi, method in enumerate(CROSS_METHODS):
                for k in range(1, 8):
                    pn = f"g{n}{j}m{mi}k{k}"
                    cp.paths_manager.add_named_paths(name=pn, paths=group(n, j))
                    full = (n, j, method, k) in full_for
                    scenario(
                        f"n={n} bad={j} line={k}", cp, method, pn, f"bad{k}", full=full
                    )
                    # one further run on the same instance, same group, good data
                    scenario(
                        f"n={n} bad={j} line={k} then good",
                        cp,
                        method,
                        pn,
                        "good",
                        full=full,
                    )


def _file(name: str, text: str) -> str:
    os.makedirs("data", exist_ok=True)
    path = os.path.join("data", name)
    write(path, text)
    _FILES[name] = path
    return path


# --------------------------------------------------------------------------
# special cases
# --------------------------------------------------------------------------
def specials() -> None:
    p("# ===== special cases =====")
    enter_block("specials")
    cp = new_paths()
    fm = cp.file_manager
    pm = cp.paths_manager
    fm.add_named_file(name="good", path=_file("good.csv", GOOD))
    fm.add_named_file(name="bad5", path=_file("bad5.csv", poisoned(5)))
    fm.add_named_file(name="hdr", path=_file("hdr.csv", "a,b,c\n"))
    fm.add_named_file(name="empty", path=_file("empty.csv", ""))
    fm.add_named_file(name="blanks", path=_file("blanks.csv", "\n\n\n"))
    fm.add_named_file(
        name="quoted",
        path=_file("quoted.csv", 'a,b,c\n"1,5",2,3\n"x ""y""",x,\n0,,0\n'),
    )

    groups = {
        # a csvpath that does not parse, at each position
        "syntax0": ["~id:broken~ $[*][ yes( ]", "~id:ok1~ $[*][yes()]", "$[*][no()]"],
        "syntax1": ["~id:ok0~ $[*][yes()]", "~id:broken~ $[*][ yes( ]", "$[*][no()]"],
        "syntax2": ["~id:ok0~ $[*][yes()]", "$[*][no()]", "~id:broken~ $[*][ yes( ]"],
        "nofunc": ["~id:ok0~ $[*][yes()]", "~id:nofunc~ $[*][ nosuchfunction(#a) ]"],
        # raises outside of any expression: a collect() index the short line lacks
        "limit": [
            "~id:ok0~ $[*][yes()]",
            "~id:lim~ $[1*][ collect(2) ]",
            "~id:after~ $[*][yes()]",
        ],
        # an error that is collected but does not end the run
        "quiet": [
            "~id:q validation-mode: no-raise, no-stop, collect, print~ $[1*][ @x = int(#b) ]",
            "~id:after~ $[*][ @l = count_lines() ]",
        ],
        "quietfail": [
            "~id:q validation-mode: no-raise, fail, no-print~ $[1*][ @x = int(#b) ]",
            "~id:after~ $[*][ @l = count_lines() ]",
        ],
        # signals between the members
        "stops": [
            "~id:s1~ $[*][ #a == \"7\" -> stop() ]",
            "~id:s2~ $[1-3][ yes() ]",
            "~id:s3~ $[2+4][ yes() ]",
            "~id:s4~ $[5*][ @z = #a ]",
        ],
        "stopall": [
            "~id:a~ $[*][ yes() ]",
            "~id:b~ $[*][ #a == \"0\" -> stop_all() ]",
            "~id:c~ $[*][ @n = count_lines() ]",
        ],
        "failall": [
            "~id:a~ $[*][ #a == \"7\" -> fail_all() ]",
            "~id:b~ $[*][ yes() ]",
        ],
        "skipall": [
            "~id:a~ $[*][ #a == \"7\" -> skip_all() ]",
            "~id:b~ $[*][ @n = count() ]",
        ],
        "advall": [
            "~id:a~ $[*][ #a == \"1\" -> advance_all(2) ]",
            "~id:b~ $[*][ @n = count() ]",
        ],
        "failstop": [
            "~id:a~ $[*][ #a == \"0\" -> fail_and_stop() ]",
            "~id:b~ $[1*][ @x = int(#b) ]",
        ],
        "norun": [
            "~id:sit run-mode: no-run~ $[*][ yes() ]",
            "~id:b~ $[1*][ @x = int(#b) ]",
        ],
        "ranges": ["~id:r1~ $[1-2][yes()]", "~id:r2~ $[0-1][yes()]", "$[3][yes()]"],
        "allstopfirst": ["~id:r1~ $[0][yes()]", "~id:r2~ $[0][ @x = int(#b) ]"],
        "unmatched": [
            "~id:u1 unmatched-mode:keep~ $[1*][ #a == \"9\" collect(0, 1) ]",
            "~id:u2 unmatched-mode:keep~ $[1*][ @x = int(#b) ]",
        ],
        "files": [
            "~id:f1 files-mode: data, unmatched, printouts~ $[1*][ yes() ]",
            "~id:f2 files-mode: no-data~ $[1*][ @x = int(#b) ]",
        ],
        "files2": [
            "~id:f1 files-mode: data, unmatched, printouts~ $[1*][ yes() ]",
            "~id:f2 files-mode: all~ $[1*][ @x = int(#b) print(\"b is $.headers.b\") ]",
        ],
        "dupids": ["~id:same~ $[*][yes()]", "~id:same~ $[1*][ @x = int(#b) ]"],
        "noids": ["$[*][yes()]", "$[1*][ @x = int(#b) ]", "$[*][no()]"],
    }
    for name, paths in groups.items():
        pm.add_named_paths(name=name, paths=paths)

    for name in groups:
        for method in ALL_METHODS:
            scenario(
                f"special {name} on bad5", cp, method, name, "bad5", full=method in FULL_METHODS
            )
            scenario(f"special {name} on good", cp, method, name, "good", full=False)
    # odd files against a group that can raise and one that cannot
    for fname in ("hdr", "empty", "blanks"):
        for name in ("noids", "stops"):
            for method in ("collect_paths", "next_paths_collect", "collect_by_line", "fast_forward_by_line"):
                scenario(f"special {name} on {fname}", cp, method, name, fname, full=False)

    # serial only: source-mode preceding after an abort and after a good run
    pm.add_named_paths(
        name="preceding",
        paths=[
            "~id:src~ $[1*][ @x = int(#b) ]",
            "~id:dst source-mode: preceding~ $[*][ @n = count_lines() ]",
        ],
    )
    for method in SERIAL:
        scenario("special preceding on bad5", cp, method, "preceding", "bad5", full=True)
        scenario("special preceding on good", cp, method, "preceding", "good", full=True)
    scenario("special preceding by line", cp, "collect_by_line", "preceding", "good", full=False)

    # transfer-mode: the copy is made at save time, also on the abort path
    pm.add_named_paths(
        name="transfer",
        paths=[
            "~id:t1 transfer-mode: data > tvar~ $[*][ @tvar = \"t/out.csv\" yes() ]",
            "~id:t2 transfer-mode: data > tvar~ $[1*][ @tvar = \"t/out2.csv\" @x = int(#b) ]",
        ],
    )
    for method in ("collect_paths", "next_paths_collect", "collect_by_line"):
        scenario("special transfer on bad5", cp, method, "transfer", "bad5", full=True)
        OUT.write(dump_tree("transfers"))
        scenario("special transfer on good", cp, method, "transfer", "good", full=True)
        OUT.write(dump_tree("transfers"))

    # the same group twice without a pause: second run dir gets a suffix
    for _ in range(3):
        scenario("special quick repeat", cp, "collect_paths", "noids", "bad5", full=False)
    for _ in range(2):
        scenario("special quick repeat by line", cp, "collect_by_line", "noids", "bad5", full=False)

    # inputs that do not exist
    for method in ALL_METHODS:
        seen, exc, so = run_method(cp, method, "nosuchpaths", "good")
        p(f"## missing paths :: {method}: {exc_str(exc)} seen={seen}")
        seen, exc, so = run_method(cp, method, "noids", "nosuchfile")
        p(f"## missing file :: {method}: {exc_str(exc)} seen={seen}")
    p("  " + log_digest())

    # a different dialect
    cp2 = new_paths(delimiter=";", quotechar="'")
    cp2.file_manager.add_named_file(
        name="semi", path=_file("semi.csv", "a;b;c\n1;2;3\n'4;4';x;6\n\n7;;9\n")
    )
    cp2.paths_manager.add_named_paths(
        name="semi",
        paths=["~id:one~ $[*][yes()]", "~id:two unmatched-mode:keep~ $[1*][ @x = int(#b) ]"],
    )
    for method in ALL_METHODS:
        scenario("special dialect", cp2, method, "semi", "semi", full=True)

    # the quoted file and a not skipping blank lines instance
    cp3 = CsvPaths(print_default=True, skip_blank_lines=False)
    cp3.file_manager.add_named_file(name="quoted", path=_FILES["quoted.csv"])
    cp3.file_manager.add_named_file(name="bad5", path=_FILES["bad5.csv"])
    cp3.paths_manager.add_named_paths(
        name="q",
        paths=[
            "~id:one~ $[*][ print(\"$.headers.a|$.headers.b\") ]",
            "~id:two~ $[1*][ @x = int(#b) ]",
        ],
    )
    for method in ALL_METHODS:
        scenario("special noskip quoted", cp3, method, "q", "quoted", full=True)
        scenario("special noskip bad5", cp3, method, "q", "bad5", full=False)

    # results manager queries after the runs
    p("# ===== results manager queries =====")
    rm = cp.results_manager
    for name in ("noids", "stops", "limit", "transfer", "nosuch"):
        for label, fn in (
            ("last", lambda: rm.get_last_named_result(name=name).identity_or_index),
            ("specific", lambda: rm.get_specific_named_result(name, "after")),
            ("n", lambda: rm.get_number_of_results(name)),
            ("has_lines", lambda: rm.has_lines(name)),
            ("is_valid", lambda: rm.is_valid(name)),
            ("has_errors", lambda: rm.has_errors(name)),
            ("n_errors", lambda: rm.get_number_of_errors(name)),
            ("metadata", lambda: norm_json(rm.get_metadata(name))),
            (
                "manifest",
                lambda: norm_json(
                    rm.get_specific_named_result_manifest(
                        name, rm.get_last_named_result(name=name).identity_or_index
                    ),
                    name,
                ),
            ),
        ):
            try:
                v = fn()
                if hasattr(v, "identity_or_index"):
                    v = f"Result({v.identity_or_index})"
                p(f"  {name}.{label} = {json.dumps(v, default=str)}")
            except Exception as e:  # pylint: disable=W0718
                p(f"  {name}.{label} ! {type(e).__name__}: {norm_text(str(e))[:160]}")
    p("  list_named_results = " + json.dumps(rm.list_named_results()))
    for name in ("noids", "nosuch"):
        try:
            rm.clean_named_results(name)
            p(f"  clean {name}: ok, left={name in rm.named_results}")
            rm.remove_named_results(name)
        except Exception as e:  # pylint: disable=W0718
            p(f"  remove {name} ! {type(e).__name__}: {norm_text(str(e))[:120]}")

    # a result saved again by hand, with lines that are a plain list, an
    # empty list, and a fresh spooler
    p("# ===== saving by hand =====")
    scenario("by hand base", cp, "collect_paths", "stops", "good", full=False)
    rs = rm.get_named_results("stops")
    for label, lines in (
        ("list", [["a", "b"], ["1", ""], ["0", "x,y"]]),
        ("empty", []),
        ("none", None),
    ):
        r = rs[0]
        try:
            r.lines = lines
            r.unmatched = [["u", "0"]] if label == "list" else None
            rm.save(r)
            p(f"  saved {label}: ok lines-type={type(r.lines).__name__}")
        except Exception as e:  # pylint: disable=W0718
            p(f"  saved {label} ! {type(e).__name__}: {norm_text(str(e))[:160]}")
        map_runs()
        OUT.write(dump_tree(r.instance_dir, "stops"))
    # the manifest of a result whose directory has gone missing
    r = rs[1]
    shutil.rmtree(r.instance_dir)
    try:
        m = rm.get_specific_named_result_manifest("stops", r.identity_or_index)
        p(f"  manifest after rmtree = {json.dumps(norm_json(m, 'stops'))}")
    except Exception as e:  # pylint: disable=W0718
        p(f"  manifest after rmtree ! {type(e).__name__}: {norm_text(str(e))[:160]}")
    OUT.write(dump_tree(os.path.join("archive", "stops", os.path.basename(r.run_dir), r.identity_or_index), "stops"))
    # results handed back to the manager
    held = {"stops": list(rs), "noids2": []}
    try:
        rm.set_named_results(held)
        p("  set_named_results: " + json.dumps({k: len(v) for k, v in rm.named_results.items()}))
        rm.add_named_results(list(rs)[:2])
        p("  add_named_results: " + json.dumps({k: [x.identity_or_index for x in v] for k, v in rm.named_results.items()}))
        p(f"  is_valid={rm.is_valid('stops')} has_errors={rm.has_errors('stops')} last={rm.get_last_named_result(name='stops').identity_or_index}")
    except Exception as e:  # pylint: disable=W0718
        p(f"  set_named_results ! {type(e).__name__}: {norm_text(str(e))[:160]}")
    for attr in ("file_name", "paths_name"):
        r = rs[2]
        keep = getattr(r, attr)
        try:
            setattr(r, attr, None)
            rm.add_named_result(r)
            p(f"  add with {attr}=None: ok")
        except Exception as e:  # pylint: disable=W0718
            p(f"  add with {attr}=None ! {type(e).__name__}: {norm_text(str(e))[:160]}")
        setattr(r, attr, keep)
    p("  named_results now: " + json.dumps({k: [x.identity_or_index for x in v] for k, v in rm.named_results.items()}))
    p("  " + log_digest())

    # standalone csvpath: the error handler without a CsvPaths
    p("# ===== standalone CsvPath =====")
    for path in (
        f"$data/bad5.csv[1*][ @x = int(#b) ]",
        f"~validation-mode: no-raise, collect~ $data/bad5.csv[1*][ @x = int(#b) ]",
        f"$data/bad5.csv[1*][ collect(2) ]",
        f"$data/good.csv[1*][ yes() ]",
    ):
        for how in ("collect", "fast_forward", "next"):
            c = CsvPath(print_default=False)
            lines = []
            exc = None
            so = io.StringIO()
            with contextlib.redirect_stdout(so):
                try:
                    c.parse(path)
                    if how == "collect":
                        lines = c.collect()
                    elif how == "fast_forward":
                        c.fast_forward()
                    else:
                        for ln in c.next():
                            lines.append(ln)
                except Exception as e:  # pylint: disable=W0718
                    exc = e
            p(f"## standalone {how} {path}")
            p(f"  exception: {exc_str(exc)}")
            p(f"  lines: {json.dumps(lines)}")
            p(f"  stdout: {json.dumps(norm_text(so.getvalue()))}")
            p(
                f"  valid={c.is_valid} stopped={c.stopped} aborted={c.aborted} completed={c.completed} "
                f"vars={json.dumps(c.variables)} errors="
                + json.dumps(
                    [(e.line_count, norm_text(str(e.error))) for e in (c.errors or [])]
                )
            )
    p("  " + log_digest())


def final_state() -> None:
    p("# ===== stores and archive at the end =====")
    OUT.write(dump_tree("inputs", None, contents=True))
    map_runs()
    OUT.write(dump_tree("archive", None, contents=False))
    OUT.write(dump_file(os.path.join("archive", "manifest.json")) + "\n")


# --------------------------------------------------------------------------
# main
# --------------------------------------------------------------------------
# the (group size, aborting member, method, line) combinations whose archive
# is printed file by file. every other combination prints the file listing,
# what the manifests and errors.json say, and a hash of the full dump.
FULL_FOR = {
    (1, 0, "collect_paths", 1),
    (2, 1, "fast_forward_paths", 3),
    (3, 1, "next_paths_collect", 4),
    (4, 2, "collect_by_line", 5),
    (4, 3, "next_by_line_collect_agree", 7),
    (3, 0, "next_paths", 2),
    (2, 0, "fast_forward_by_line", 6),
}

if __name__ == "__main__":
    cross_product(FULL_FOR)
    specials()
    final_state()
