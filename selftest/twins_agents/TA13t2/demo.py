#!/usr/bin/env python
"""Differential demo for refactoring t2 (CsvPath._consider_line /
CsvPath.advance in csvpath/csvpath.py).

Prints a deterministic transcript of everything observable about runs that
use stop(), skip(), advance() and last() in all positions among 1-5
side-effecting match components, over files with/without trailing and
interior blank lines, with several scan windows, in AND and OR logic modes,
with onmatch qualifiers, explain mode, error cases and repeated runs.

It also drives CsvPath.advance() programmatically while iterating and runs
the same kinds of csvpaths through CsvPaths (serial and by-line methods,
which call CsvPath._consider_line directly), listing ./archive with the run
directory timestamps normalised. The script writes its own offline
./config/config.ini.

Run from an empty temp dir:
    cd /tmp/demo_TWC13_2 && PYTHONPATH=<csvpath tree> /venv/bin/python demo.py
"""
import io
import json
import os
import sys
import contextlib
import traceback

from csvpath import CsvPath
from csvpath.util.printer import Printer

OUT = sys.stdout


def say(*a):
    print(*a, file=OUT)


class CapturePrinter(Printer):
    def __init__(self):
        self.lines = []

    @property
    def last_line(self):
        return self.lines[-1] if self.lines else None

    @property
    def lines_printed(self):
        return len(self.lines)

    def print(self, string):
        self.print_to(None, string)

    def print_to(self, name, string):
        self.lines.append((name, string))


FILES = {
    # plain file, no trailing blank
    "plain.csv": "a,b,c\n1,2,3\n4,5,6\n7,8,9\n10,11,12\n13,14,15\n16,17,18\n",
    # no newline at end
    "nonl.csv": "a,b,c\n1,2,3\n4,5,6\n7,8,9",
    # one trailing blank line
    "trail1.csv": "a,b,c\n1,2,3\n4,5,6\n7,8,9\n10,11,12\n\n",
    # two trailing blank lines
    "trail2.csv": "a,b,c\n1,2,3\n4,5,6\n7,8,9\n\n\n",
    # interior blanks
    "inner.csv": "a,b,c\n1,2,3\n\n4,5,6\n\n\n7,8,9\n10,11,12\n",
    # interior and trailing blanks
    "both.csv": "a,b,c\n\n1,2,3\n\n4,5,6\n7,8,9\n\n",
    # ragged rows and empty values, zeros
    "ragged.csv": "a,b,c\n1\n4,5\n7,8,9,99\n,,\n0,0,0\n ,x, \n10,,12\n",
    # final line is whitespace only (not blank: has one value)
    "wsend.csv": "a,b,c\n1,2,3\n4,5,6\n   \n",
    # header only
    "header.csv": "a,b,c\n",
    # single data line then blank
    "tiny.csv": "a,b,c\n\n",
    # only a blank line
    "blank.csv": "\n",
}


def write_files():
    for name, content in FILES.items():
        with open(name, "w", encoding="utf-8") as f:
            f.write(content)


def jd(o):
    return json.dumps(o, sort_keys=True, default=str)


def describe_errors(path):
    out = []
    try:
        errs = path.errors
    except Exception as e:  # pragma: no cover
        return [f"<errors raised {type(e).__name__}>"]
    for e in errs or []:
        out.append(
            (
                getattr(e, "line_count", None),
                getattr(e, "match_count", None),
                getattr(e, "scan_count", None),
                type(getattr(e, "error", None)).__name__,
                str(getattr(e, "message", None)),
            )
        )
    return out


def run_one(
    title,
    csvpath,
    *,
    method="collect",
    policy=("collect",),
    setup=None,
    nexts=-1,
    reuse=None,
    skip_blank_lines=True,
):
    say("=" * 78)
    say("CASE", title)
    say("PATH", " ".join(csvpath.split()))
    say("METHOD", method, "POLICY", list(policy), "SBL", skip_blank_lines)
    cap = CapturePrinter()
    buf = io.StringIO()
    path = reuse
    lines = None
    exc = None
    try:
        with contextlib.redirect_stdout(buf), contextlib.redirect_stderr(buf):
            if path is None:
                path = CsvPath(skip_blank_lines=skip_blank_lines)
                path.config.csvpath_errors_policy = list(policy)
                path.add_printer(cap)
                path.parse(csvpath)
                if setup:
                    setup(path)
            else:
                path.add_printer(cap)
            if method == "collect":
                lines = path.collect() if nexts == -1 else path.collect(nexts=nexts)
            elif method == "fast_forward":
                path.fast_forward()
            elif method == "next":
                lines = []
                for ln in path.next():
                    lines.append(
                        (
                            path.line_monitor.physical_line_number,
                            path.scan_count,
                            path.match_count,
                            path.advance_count,
                            path.stopped,
                            list(ln),
                        )
                    )
            elif method == "line_numbers":
                lines = path.collect_line_numbers()
    except Exception as e:  # noqa
        exc = e
    # first line only: lark lists expected tokens in hash (random) order
    say(
        "EXCEPTION",
        None
        if exc is None
        else f"{type(exc).__name__}: {(str(exc).splitlines() or [''])[0]}",
    )
    say("LINES", jd(lines))
    if path is not None:
        say("VARS", jd(path.variables))
        state = {}
        for k, fn in (
            ("is_valid", lambda: path.is_valid),
            ("stopped", lambda: path.stopped),
            ("scan_count", lambda: path.scan_count),
            ("match_count", lambda: path.match_count),
            ("advance_count", lambda: path.advance_count),
            ("is_frozen", lambda: path.is_frozen),
            ("completed", lambda: path.completed),
            ("has_errors", lambda: path.has_errors()),
            ("pln", lambda: path.line_monitor.physical_line_number),
            ("pend", lambda: path.line_monitor.physical_end_line_number),
            ("dln", lambda: path.line_monitor.data_line_number),
            ("matcher_skip", lambda: path.matcher.skip if path.matcher else None),
            ("unmatched", lambda: path.unmatched),
        ):
            try:
                state[k] = fn()
            except Exception as e:  # noqa
                state[k] = f"<{type(e).__name__}>"
        say("STATE", jd(state))
        say("ERRORS", jd(describe_errors(path)))
        if path.matcher:
            say(
                "EXPR_VOTES",
                jd([e[1] for e in path.matcher.expressions]),
                "EXPLAIN_LEN",
                len(path.matcher.explaination),
            )
    say("PRINTED", jd(cap.lines))
    say("STDOUT", jd(buf.getvalue().splitlines()))
    return path


# ---------------------------------------------------------------------------
# side-effecting components; {i} is the component's index
# ---------------------------------------------------------------------------
SIDE = [
    'push("s{i}", line_number())',
    'print("p{i} at $.csvpath.line_number")',
    "@v{i} = count_lines()",
    'push("t{i}", #0)',
    "@w{i} = add(@w{i}, 1)",
]


def controls(n):
    """conditional control components firing at physical line n"""
    return {
        "stop_arg": f"stop(line_number()=={n})",
        "stop_when": f"line_number()=={n} -> stop()",
        "skip_arg": f"skip(line_number()=={n})",
        "skip_when": f"line_number()=={n} -> skip()",
        "adv_when": f"line_number()=={n} -> advance(2)",
        "last_when": 'last() -> push("lasts", line_number())',
        "last_nc": 'last.nocontrib() -> push("lasts", line_number())',
        "last_arg": 'last.nocontrib(push("lasts", line_number()))',
    }


def build(scan, fname, comps):
    return f"${fname}[{scan}][ " + "\n ".join(comps) + " ]"


def positions_suite():
    # every position of each control among k side-effect components
    for k in (1, 2, 3, 5):
        side = [SIDE[i].format(i=i) for i in range(k)]
        for cname, ctrl in controls(3).items():
            for pos in range(k + 1):
                comps = side[:pos] + [ctrl] + side[pos:]
                for fname in ("plain.csv", "trail1.csv", "inner.csv"):
                    if k in (3, 5) and fname == "plain.csv" and pos not in (0, k):
                        continue
                    run_one(
                        f"pos k={k} ctrl={cname} pos={pos} file={fname}",
                        build("*", fname, comps),
                    )


def firing_lines_suite():
    side = [SIDE[i].format(i=i) for i in range(2)]
    for fname in ("plain.csv", "trail1.csv", "trail2.csv", "both.csv", "ragged.csv"):
        for n in range(0, 8):
            for cname in ("stop_arg", "stop_when", "skip_arg", "skip_when", "adv_when"):
                ctrl = controls(n)[cname]
                # control in the middle and as the final component
                run_one(
                    f"fire n={n} ctrl={cname} mid file={fname}",
                    build("*", fname, [side[0], ctrl, side[1]]),
                )
                run_one(
                    f"fire n={n} ctrl={cname} final file={fname}",
                    build("*", fname, [side[0], side[1], ctrl]),
                    method="next",
                )


def windows_suite():
    side = [SIDE[i].format(i=i) for i in range(2)]
    scans = ["*", "1*", "2-4", "4-2", "1+3+5", "0", "3", "5*", "0-1", "2+6", "9", "1-9"]
    for fname in FILES:
        for scan in scans:
            for cname in ("last_when", "last_nc", "last_arg"):
                ctrl = controls(0)[cname]
                run_one(
                    f"window scan={scan} ctrl={cname} file={fname}",
                    build(scan, fname, [side[0], ctrl, side[1]]),
                )
            run_one(
                f"window scan={scan} stop+last file={fname}",
                build(
                    scan,
                    fname,
                    [
                        side[0],
                        'last.nocontrib() -> print("last at $.csvpath.line_number")',
                        "line_number()==3 -> stop()",
                    ],
                ),
            )
            run_one(
                f"window scan={scan} adv+last file={fname}",
                build(
                    scan,
                    fname,
                    [
                        "line_number()==1 -> advance(2)",
                        'last.nocontrib() -> print("last at $.csvpath.line_number")',
                        side[0],
                    ],
                ),
                method="fast_forward",
            )


def logic_suite():
    # OR logic mode, onmatch, explain mode, no blank skipping
    for fname in ("plain.csv", "trail1.csv", "both.csv", "ragged.csv"):
        for mode in ("AND", "OR"):
            for body in (
                ['#a == "4"', 'push("s", line_number())', "skip(line_number()==2)"],
                ["skip(line_number()==2)", '#a == "4"', 'push("s", line_number())'],
                ['#a == "4"', "stop(line_number()==3)", 'push("s", line_number())'],
                ['#a == "7"', 'push("s", line_number())', "line_number()==3 -> stop()"],
                ["no()", 'last() -> print("last!")'],
                ["no()", "yes()", 'print.onmatch("matched $.csvpath.line_number")'],
                [
                    'push.onmatch("m", line_number())',
                    "line_number()==2 -> advance(1)",
                    '#b == "5"',
                ],
                ['@x = line_number()', "skip.once(yes())", "yes()"],
                ["firstmatch() -> skip()", 'push("s", line_number())'],
                ["count() == 2 -> stop()", 'push("c", count())'],
                ["not(last())", 'push("s", line_number())'],
                ["last()", "skip()"],
                ["skip()", "stop()"],
                ["stop()", "skip()"],
                ["stop()"],
                ["skip()"],
                ["advance(3)"],
                ["last()"],
                ['or(last(), line_number()==1) -> push("x", line_number())'],
                ['last(push("z", "set-in-last"))', "no()"],
            ):
                p = f"~ logic-mode: {mode} ~ ${fname}[*][ " + " ".join(body) + " ]"
                run_one(f"logic mode={mode} file={fname}", p)
    for fname in ("plain.csv", "trail1.csv", "both.csv"):
        p = (
            f"~ explain-mode: explain ~ ${fname}[*][ "
            'push("s", line_number()) skip(line_number()==2) line_number()==4 -> stop() ]'
        )
        run_one(f"explain file={fname}", p)
        p = (
            f"${fname}[*][ "
            'push("s", line_number()) skip(line_number()==2) last.nocontrib() -> print("L $.csvpath.line_number") ]'
        )
        run_one(f"no-skip-blank file={fname}", p, skip_blank_lines=False)
        p = f"~ return-mode: no-matches ~ ${fname}[*][ " 'skip(line_number()==2) #a == "4" line_number()==4 -> stop() ]'
        run_one(f"return-mode no-matches file={fname}", p)
        p = f"~ unmatched-mode: keep ~ ${fname}[*][ " 'skip(line_number()==2) #a == "4" line_number()==4 -> stop() ]'
        run_one(f"unmatched keep file={fname}", p)


def error_suite():
    # errors inside and around the control functions, under several policies
    bodies = [
        ['advance("please")', 'push("s", line_number())'],
        ['push("s", line_number())', 'line_number()==2 -> advance("x")'],
        ['last() -> advance("x")'],
        ['last.nocontrib() -> add("five", 1)', 'push("s", line_number())'],
        ['last.nocontrib(add("five", 1))', 'push("s", line_number())'],
        ['add("five", 1)', "skip(line_number()==2)", 'push("s", line_number())'],
        ["skip(line_number()==2)", 'add("five", 1)', 'push("s", line_number())'],
        ['line_number()==2 -> add("five", 1)', "stop(line_number()==2)"],
        ['push("s", line_number())', "fail_and_stop(line_number()==2)", "yes()"],
        ['push("s", line_number())', 'line_number()==1 -> fail()', "last.nocontrib() -> fail()"],
        ['@q = int("abc")', "last.nocontrib() -> @q2 = int(\"abc\")"],
    ]
    policies = [("collect",), ("collect", "stop"), ("collect", "fail"), ("raise",), ("print",), ("collect", "print", "stop", "fail")]
    for fname in ("plain.csv", "trail1.csv", "both.csv"):
        for body in bodies:
            for pol in policies:
                p = f"${fname}[*][ " + " ".join(body) + " ]"
                run_one(f"errors file={fname}", p, policy=pol)
    # structural / validation errors at parse-time
    for p in (
        "$plain.csv[*][ stop(1, 2) ]",
        "$plain.csv[*][ skip(#a) ]",
        "$plain.csv[*][ advance() ]",
        '$plain.csv[*][ last("x") ]',
        "$missing.csv[*][ stop() ]",
    ):
        for pol in (("collect",), ("raise",)):
            run_one("invalid", p, policy=pol)


def repeat_suite():
    # repeated runs on the same instance and programmatic advance()/stop()
    p = '$trail1.csv[*][ push("s", line_number()) line_number()==2 -> advance(1) last.nocontrib() -> print("last $.csvpath.line_number") ]'
    path = run_one("repeat first", p)
    run_one("repeat second (same instance)", p, reuse=path)
    run_one("repeat third (same instance, next)", p, reuse=path, method="next")

    def adv(n):
        def _s(path):
            path.get_total_lines()
            path.line_monitor  # noqa
            path.advance_count = n

        return _s

    for n in (0, 1, 2, 100):
        run_one(
            f"preset advance_count={n}",
            '$trail1.csv[*][ push("s", line_number()) last.nocontrib() -> print("last") ]',
            setup=adv(n),
        )
    for nexts in (0, 1, 2, 3):
        run_one(
            f"collect nexts={nexts}",
            '$inner.csv[*][ push("s", line_number()) skip(line_number()==3) ]',
            nexts=nexts,
        )
    run_one(
        "line numbers",
        '$both.csv[*][ skip(line_number()==2) line_number()==5 -> stop() ]',
        method="line_numbers",
    )

    def stop_first(path):
        path.stop()

    run_one(
        "stopped before start",
        '$plain.csv[*][ push("s", line_number()) ]',
        setup=stop_first,
    )


# ---------------------------------------------------------------------------
# t2 specific: CsvPath.advance() API and CsvPaths runs
# ---------------------------------------------------------------------------
def api_advance_suite():
    body = '[ push("s", line_number()) last.nocontrib() -> print("last $.csvpath.line_number") ]'
    for fname in ("plain.csv", "trail1.csv", "both.csv", "header.csv"):
        for at in (0, 1, 3):
            for ff in (-1, 0, 1, 2, 3, 50, None, 1.5, "x", True):
                say("=" * 78)
                say(f"CASE api advance file={fname} at={at} ff={ff!r}")
                buf = io.StringIO()
                exc = None
                got = []
                path = None
                try:
                    with contextlib.redirect_stdout(buf), contextlib.redirect_stderr(buf):
                        path = CsvPath()
                        path.config.csvpath_errors_policy = ["collect"]
                        path.parse(f"${fname}[*]{body}")
                        for ln in path.next():
                            got.append(
                                (path.line_monitor.physical_line_number, list(ln))
                            )
                            if path.line_monitor.physical_line_number == at:
                                try:
                                    path.advance(ff)
                                    got.append(("advanced", repr(path.advance_count)))
                                except Exception as e:  # noqa
                                    got.append(
                                        (
                                            "advance raised",
                                            type(e).__name__,
                                            str(e),
                                            repr(path.advance_count),
                                        )
                                    )
                                    if not isinstance(path.advance_count, int):
                                        path.advance_count = 0
                except Exception as e:  # noqa
                    exc = e
                say("EXCEPTION", None if exc is None else f"{type(exc).__name__}: {exc}")
                say("GOT", jd(got))
                say("VARS", jd(path.variables))
                say(
                    "STATE",
                    jd(
                        [
                            path.scan_count,
                            path.match_count,
                            repr(path.advance_count),
                            path.stopped,
                            path.is_valid,
                        ]
                    ),
                )
                say("STDOUT", jd(buf.getvalue().splitlines()))
    # advance() before a run has started
    for ff in (-1, 2, None):
        say("=" * 78)
        say(f"CASE api advance before run ff={ff!r}")
        path = CsvPath()
        path.parse(f"$trail1.csv[*]{body}")
        try:
            path.advance(ff)
            say("OK", repr(path.advance_count))
        except Exception as e:  # noqa
            say("RAISED", type(e).__name__, str(e), repr(path.advance_count))


CONFIG_INI = """[csvpath_files]
extensions = txt, csvpath, csvpaths

[csv_files]
extensions = txt, csv, tsv, dat, tab, psv, ssv

[errors]
csvpath = collect, print
csvpaths = collect

[logging]
csvpath = info
csvpaths = info
log_file = logs/csvpath.log
log_files_to_keep = 100
log_file_size = 52428800

[config]
path = config/config.ini

[cache]
path = cache

[listeners]
[marquez]
base_url = http://localhost:5000

[functions]
imports = config/functions.imports

[results]
archive = archive
transfers = transfers

[inputs]
files = inputs/named_files
csvpaths = inputs/named_paths
on_unmatched_file_fingerprints = halt
"""


def write_config():
    os.makedirs("config", exist_ok=True)
    with open("config/config.ini", "w", encoding="utf-8") as f:
        f.write(CONFIG_INI)
    with open("config/functions.imports", "w", encoding="utf-8") as f:
        f.write("")


NAMED_PATHS = {
    "stopping": [
        '~ id: one ~ $[*][ line_number.nocontrib() == 2 -> stop() push("one", line_number()) ]',
        '~ id: two ~ $[*][ push("two", line_number()) line_number.nocontrib() == 3 -> stop() ]',
        '~ id: three ~ $[*][ push("three", line_number()) last.nocontrib() -> print("three last $.csvpath.line_number") ]',
    ],
    "skipping": [
        '~ id: one ~ $[*][ skip(line_number()==2) push("one", line_number()) ]',
        '~ id: two ~ $[1*][ push("two", line_number()) line_number()==3 -> skip() print("two after skip $.csvpath.line_number") ]',
        '~ id: three return-mode: no-matches ~ $[*][ #0 == "4" ]',
        '~ id: four unmatched-mode: keep ~ $[*][ #0 == "4" last.nocontrib() -> print("four last") ]',
    ],
    "advancing": [
        '~ id: one ~ $[*][ push("one", line_number()) line_number()==1 -> advance(2) ]',
        '~ id: two ~ $[1-4][ push("two", line_number()) line_number()==2 -> advance(9) last.nocontrib() -> print("two last $.csvpath.line_number") ]',
        '~ id: three ~ $[*][ push("three", line_number()) ]',
    ],
    "alls": [
        '~ id: one ~ $[*][ push("one", line_number()) line_number()==1 -> advance_all(2) ]',
        '~ id: two ~ $[*][ push("two", line_number()) line_number()==4 -> skip_all() ]',
        '~ id: three ~ $[*][ push("three", line_number()) line_number()==5 -> stop_all() ]',
        '~ id: four ~ $[*][ push("four", line_number()) last.nocontrib() -> print("four last $.csvpath.line_number") ]',
    ],
}


def norm_archive_listing():
    """lists ./archive. run directories are named for the second the run
    started, with .0, .1, ... appended on collision, so both the names and
    their lexical order depend on the wall clock. we order the run dirs of
    each named-paths chronologically and rename them RUN0, RUN1, ..."""
    import re

    pat = re.compile(r"^(\d{4}-\d{2}-\d{2}_\d{2}-\d{2}-\d{2})(?:\.(\d+))?$")
    out = []
    if not os.path.isdir("archive"):
        return out
    for top in sorted(os.listdir("archive")):
        tp = os.path.join("archive", top)
        if not os.path.isdir(tp):
            out.append((tp, tp))
            continue
        runs = []
        for d in os.listdir(tp):
            m = pat.match(d)
            if m and os.path.isdir(os.path.join(tp, d)):
                runs.append((m.group(1), -1 if m.group(2) is None else int(m.group(2)), d))
            else:
                out.append((os.path.join(tp, d), os.path.join(tp, d)))
        for i, (_, _, d) in enumerate(sorted(runs)):
            for root, dirs, files in os.walk(os.path.join(tp, d)):
                dirs.sort()
                for f in sorted(files):
                    real = os.path.join(root, f)
                    rel = os.path.relpath(real, os.path.join(tp, d))
                    out.append((real, os.path.join(tp, f"RUN{i}", rel)))
    return out


def csvpaths_suite():
    from csvpath import CsvPaths

    write_config()
    methods = (
        "collect_paths",
        "fast_forward_paths",
        "next_paths",
        "collect_by_line",
        "fast_forward_by_line",
        "next_by_line",
    )
    for fname in ("trail1.csv", "both.csv", "plain.csv"):
        for pname, plist in NAMED_PATHS.items():
            for method in methods:
                say("=" * 78)
                say(f"CASE csvpaths file={fname} paths={pname} method={method}")
                buf = io.StringIO()
                exc = None
                got = None
                cp = None
                try:
                    with contextlib.redirect_stdout(buf), contextlib.redirect_stderr(buf):
                        cp = CsvPaths()
                        cp.file_manager.add_named_file(name="f", path=fname)
                        cp.paths_manager.add_named_paths(name=pname, paths=plist)
                        m = getattr(cp, method)
                        if method.startswith("next"):
                            got = [list(ln) for ln in m(filename="f", pathsname=pname)]
                        else:
                            got = m(filename="f", pathsname=pname)
                except Exception as e:  # noqa
                    exc = e
                say("EXCEPTION", None if exc is None else f"{type(exc).__name__}: {(str(exc).splitlines() or [''])[0]}")
                say("RETURNED", jd(got))
                try:
                    results = cp.results_manager.get_named_results(pname)
                except Exception as e:  # noqa
                    results = []
                    say("RESULTS RAISED", type(e).__name__)
                for r in results or []:
                    try:
                        lines = r.lines
                        lines = None if lines is None else [list(_) for _ in lines.next()] if hasattr(lines, "next") else list(lines)
                    except Exception as e:  # noqa
                        lines = f"<{type(e).__name__}>"
                    say(
                        "RESULT",
                        r.csvpath.identity,
                        jd(
                            {
                                "lines": lines,
                                "vars": r.csvpath.variables,
                                "valid": r.csvpath.is_valid,
                                "stopped": r.csvpath.stopped,
                                "scan": r.csvpath.scan_count,
                                "match": r.csvpath.match_count,
                                "adv": r.csvpath.advance_count,
                                "errors": len(r.errors or []),
                                "printouts": r.printouts,
                                "unmatched": r.unmatched if hasattr(r, "unmatched") else None,
                            }
                        ),
                    )
                say("STDOUT", jd(buf.getvalue().splitlines()))
    say("=" * 78)
    say("ARCHIVE")
    for real, norm in norm_archive_listing():
        base = os.path.basename(real)
        if base in ("data.csv", "unmatched.csv", "printouts.txt"):
            with open(real, "r", encoding="utf-8") as f:
                say(norm, jd(f.read()))
        elif base == "vars.json":
            with open(real, "r", encoding="utf-8") as f:
                say(norm, jd(json.load(f)))
        else:
            say(norm, os.path.getsize(real) > 0)


def main():
    write_files()
    write_config()
    api_advance_suite()
    csvpaths_suite()
    positions_suite()
    firing_lines_suite()
    windows_suite()
    logic_suite()
    error_suite()
    repeat_suite()
    say("DONE")


if __name__ == "__main__":
    main()
