#!/venv/bin/python
"""Differential demonstration for property C01
("returned lines are exactly the scanned lines that satisfy the match part").

Usage:   cd <empty temp dir> && PYTHONPATH=<csvpath tree> /venv/bin/python demo.py > out.txt

The script is self contained: it creates ./config/config.ini, the CSV files and
the csvpaths it needs in the current working directory, runs a large matrix of
(file x csvpath x logic-mode x run-method) combinations with standalone CsvPath
instances, then runs CsvPaths groups (collect / fast-forward / next / by-line)
and prints a deterministic transcript of everything observable: returned
lines, unmatched lines, variables, validity, stopped state, counts, collected
errors, printouts, exceptions that escape, and the archive tree + file contents
(with run-dir timestamps, uuids, times and traces normalised).

Python tracebacks (Error.trace) are deliberately left out: they contain source
line numbers and so differ after ANY source edit.
"""
import os
import re
import sys
import json
import shutil
import traceback

CONFIG = """[csvpath_files]
extensions = txt, csvpath, csvpaths

[csv_files]
extensions = txt, csv, tsv, dat, tab, psv, ssv

[errors]
csvpath = collect, fail, print
csvpaths = raise, collect

[logging]
csvpath = info
csvpaths = info
log_file = logs/csvpath.log
log_files_to_keep = 100
log_file_size = 52428800

[config]
path = config/config.ini

[cache]
path = cache

[listeners]
[marquez]
base_url = http://localhost:5000

[functions]
imports = config/functions.imports

[results]
archive = archive
transfers = transfers

[inputs]
files = inputs/named_files
csvpaths = inputs/named_paths
on_unmatched_file_fingerprints = halt
"""

FILES = {
    # plain, well formed
    "plain.csv": "a,b,c\n1,x,10\n2,y,20\n3,x,30\n4,z,0\n5,,50\n",
    # ragged rows, blank lines in the middle, empty cells, zero, multi-digit
    "ragged.csv": "a,b,c\n1,x\n\n2,y,20,extra\n3\n,,\n0,zero,0\n123,abc,4567\n  \n7,x,70\n",
    # the last line is blank (last() must still fire)
    "blanklast.csv": "a,b,c\n1,x,10\n3,y,30\n3,x,31\n\n",
    # header only
    "headeronly.csv": "a,b,c\n",
    # repeated values, numbers as text, spaces
    "dups.csv": "a,b,c\n3, x ,1\n3,x,1\n 3 ,X,01\n03,x,1.0\n-3,,\n3.0,x,1\n",
}

MATCHES = [
    # --- booleans / existence
    "yes()",
    "no()",
    "#a",
    "#c",
    "#b #c",
    "not(#c)",
    "empty(#b)",
    "not(empty(#b))",
    "exists(#c)",
    # --- equality tests
    '#a == "3"',
    "#a == 3",
    "#0 == #1",
    '#b == "x" #a == "3"',
    '#b == "x" #c == "30" #a == "3"',
    "#a == #a",
    "@v == #a",
    '#nosuch == "1"',
    # --- comparison
    "gt(#a, 2)",
    "lt(#a, 3)",
    "gte(#c, 20)",
    "lte(#c, 0)",
    "above(#a, 1) below(#a, 4)",
    "between(#a, 1, 4)",
    'in(#b, "x|y")',
    'or(#a == "1", #b == "z")',
    'and(#a == "3", #b == "x")',
    'any(#b, "x")',
    "all(#a, #b, #c)",
    # --- strings
    'concat(#a, #b) == "3x"',
    'upper(#b) == "X"',
    'lower(#b) == "x"',
    "length(#b) == 1",
    'starts_with(#b, "x")',
    'equals(#c, "30")',
    'strip(#b) == "x"',
    'substring(#b, 1) == "x"',
    'regex(#c, /^[0-9]0$/)',
    # --- math
    "add(#a, 1) == 4",
    "subtract(#c, #a) == 27",
    "multiply(#a, 0) == 0",
    "divide(#c, #a) == 10",
    "divide(#a, 0) == 1",
    "mod(#a, 2) == 0",
    "int(#b) == 1",
    "round(divide(#c, 3), 1) == 10.0",
    # --- counting
    "count() == 2",
    "count_lines() == 3",
    "count_scans() == 2",
    "line_number() == 3",
    "count(#b) == 2",
    '#b == "x" count() == 2',
    "count_headers() == 3",
    "every(#a, 2)",
    "first(#b)",
    "increment(#b, 2)",
    "tally(#b)",
    "sum(#a) gt(#a, 1)",
    "max(#a) == 3",
    "has_dups(#a, #b)",
    # --- assignments and qualifiers
    "@x = #a",
    '@x = #a @x == "3"',
    '@x = #a no()',
    "@n.onmatch = count() above(#a, 1)",
    "above(#a, 1) @n.onmatch = count()",
    "@n = count() above(#a, 1)",
    "@l.latch = #b",
    "@c.onchange = #b",
    "@i.increase = int(#a)",
    "@d.decrease = int(#c)",
    "@nn.notnone = #b",
    "@ab.asbool = #b",
    "@ab.asbool = #c",
    "@nc.nocontrib = #a no()",
    "@oc.onchange.nocontrib = #b @oc",
    "@t.onmatch = #a #b",
    "@b.x = #b @b.x",
    "@e = empty(#b) @e.asbool",
    # --- when/do
    'gt(#a, 2) -> @big = #a',
    '#b == "x" -> @xs = count()',
    "#c -> @hasc = line_number()",
    'no() -> @never = "1"',
    'yes() -> @always = #a',
    '#a.nocontrib == "3" -> @three = "yes"',
    'gt.nocontrib(#a, 2) -> @big = #a',
    '#b == "x" -> equals(#c, "30")',
    'not(#b) -> fail()',
    '#a == "3" -> stop()',
    '#a == "2" -> skip() @after = #a',
    '@x = #a #a == "2" -> skip()',
    'line_number() == 1 -> advance(1) @adv = #a',
    # --- last(), always as the last component
    'yes() last() -> print("done at $.csvpath.line_number with $.csvpath.match_count matches")',
    '#a == "3" last() -> @z = count_lines()',
    '@x = #a last() -> @lastx = @x',
    'last() -> @only = count_scans()',
    'last.nocontrib() -> @only = line_number() #b',
    # --- printing
    'print("line $.csvpath.line_number: $.headers.a") #a == "3"',
    '#a == "3" print.onmatch("matched $.csvpath.line_number")',
    'print.onmatch("early $.csvpath.match_count") #a == "3"',
    # --- side effects, validity, stop
    'stop(#a == "3")',
    'fail(#a == "3")',
    'skip(#a == "3") @seen = #a',
    'fail() stop.onmatch()',
    'collect("a", "c") #b',
    "collect(2, 5) #a",
    # --- errors in a component
    'int("x")',
    'add(#b, 1) == 2',
    'gt(#a)',
    '#a == "3" divide(#c, 0)',
    'divide(#c, 0) #a == "3"',
    'end(-1)',
    "end(2)",
]

SCANS = ["*", "1*", "0", "2-3", "1+3+5", "0-2+4", "3-1", "2", "4*"]


def norm(s: str) -> str:
    s = re.sub(r"\d{4}-\d{2}-\d{2}_\d{2}-\d{2}-\d{2}(_\d+)?(\.\d+)?", "<RUNDIR>", s)
    s = re.sub(r"\d{4}-\d{2}-\d{2}[ T]\d{2}:\d{2}:\d{2}(\.\d+)?(\+00:00|Z)?", "<TS>", s)
    s = re.sub(
        r"[0-9a-f]{8}-[0-9a-f]{4}-[0-9a-f]{4}-[0-9a-f]{4}-[0-9a-f]{12}", "<UUID>", s
    )
    s = s.replace(os.getcwd(), "<CWD>")
    # lark lists the expected terminals in set (hash-random) order
    if "Expected one of:" in s:
        head, _, tail = s.partition("Expected one of:")
        toks = sorted(re.findall(r"\* (\w+)", tail))
        rest = re.sub(r"\s*\* \w+\s*", " ", tail)
        s = f"{head}Expected one of: {toks}{rest}"
    return s


def out(s="") -> None:
    sys.stdout.write(norm(f"{s}") + "\n")
    sys.stdout.flush()


def show_errors(errors) -> None:
    if not errors:
        out("    errors: none")
        return
    out(f"    errors: {len(errors)}")
    for e in errors:
        out(
            f"      - line:{e.line_count} scan:{e.scan_count} match:{e.match_count} "
            f"class:{e.error.__class__.__name__} msg:{e.error!s} message:{e.message} "
            f"source:{e.source} file:{e.filename}"
        )


def show_state(p) -> None:
    out(f"    variables: {json.dumps(p.variables, sort_keys=True, default=str)}")
    out(
        f"    is_valid:{p.is_valid} stopped:{p.stopped} match_count:{p.match_count} "
        f"scan_count:{p.scan_count} frozen:{p.is_frozen} advance:{p.advance_count}"
    )
    lm = p.line_monitor
    if lm is not None:
        out(
            f"    lines: physical:{lm.physical_line_number} data:{lm.data_line_number} "
            f"end:{lm.physical_end_line_number} count:{lm.physical_line_count}"
        )
    out(f"    headers: {p.headers}")
    out(f"    unmatched: {p.unmatched}")
    out(f"    limit_collection_to: {p.limit_collection_to}")
    show_errors(p.errors)


def run_one(title, csvpath, how="collect", **kw) -> None:
    from csvpath import CsvPath

    out(f"--- {title}: {how}: {csvpath}")
    p = None
    try:
        p = CsvPath(**kw)
        p.parse(csvpath)
        if how == "collect":
            lines = p.collect()
            out(f"    returned {len(lines)}: {list(lines)}")
        elif how == "collect_unmatched":
            p.unmatched_available = True
            lines = p.collect()
            out(f"    returned {len(lines)}: {list(lines)}")
        elif how == "collect2":
            lines = p.collect(2)
            out(f"    returned {len(lines)}: {list(lines)}")
            out(f"    (after 2) line:{p.line_monitor.physical_line_number}")
        elif how == "next":
            n = 0
            for line in p.next():
                n += 1
                out(
                    f"    next -> {line} at physical:{p.line_monitor.physical_line_number} "
                    f"match_count:{p.match_count} scan_count:{p.scan_count}"
                )
            out(f"    yielded {n}")
        elif how == "fast_forward":
            p.fast_forward()
            out("    fast forwarded")
        elif how == "twice":
            lines = p.collect()
            out(f"    returned {len(lines)}: {list(lines)}")
            show_state(p)
            lines = p.collect()
            out(f"    again returned {len(lines)}: {list(lines)}")
    except Exception as ex:  # pylint: disable=W0718
        cause = ex.__cause__
        out(
            f"    EXCEPTION {ex.__class__.__name__}: {ex} "
            f"(cause: {cause.__class__.__name__ if cause is not None else None}: {cause})"
        )
    if p is not None:
        try:
            show_state(p)
        except Exception as ex:  # pylint: disable=W0718
            out(f"    state EXCEPTION {ex.__class__.__name__}: {ex}")


def standalone() -> None:
    out("=" * 30 + " STANDALONE MATRIX")
    for fname in ["plain.csv", "ragged.csv", "blanklast.csv"]:
        for mode in ["AND", "OR"]:
            for m in MATCHES:
                if mode == "OR" and ".onmatch" in m:
                    # onmatch is only modelled in AND mode
                    continue
                run_one(
                    f"{fname} {mode}",
                    f"~ logic-mode: {mode} ~ ${fname}[*][{m}]",
                )
    out("=" * 30 + " OTHER FILES")
    for fname in ["headeronly.csv", "dups.csv"]:
        for mode in ["AND", "OR"]:
            for m in MATCHES[:20] + MATCHES[-22:]:
                if mode == "OR" and ".onmatch" in m:
                    continue
                run_one(
                    f"{fname} {mode}", f"~ logic-mode: {mode} ~ ${fname}[*][{m}]"
                )
    out("=" * 30 + " SCANS")
    some = [
        "yes()",
        '#b == "x"',
        "@n = count() #c",
        "count_scans() == 2",
        'last() -> print("last! $.csvpath.line_number")',
        '#b == "x" last() -> @z = count()',
        'stop(#a == "3")',
        'line_number() == 1 -> advance(2) yes()',
    ]
    for fname in ["plain.csv", "ragged.csv", "blanklast.csv"]:
        for scan in SCANS:
            for mode in ["AND", "OR"]:
                for m in some:
                    run_one(
                        f"{fname} {mode}",
                        f"~ logic-mode: {mode} ~ ${fname}[{scan}][{m}]",
                    )
    out("=" * 30 + " RUN METHODS")
    some = [
        "yes()",
        '#b == "x"',
        '@x = #a #b == "x"',
        "@n.onmatch = count() gt(#a, 1)",
        'print.onmatch("m $.csvpath.match_count") #b == "x"',
        'stop(#a == "3")',
        'collect("a") #b',
        'collect("nosuch") #b',
        "collect(2) yes()",
        '#a == "3" last() -> print("end $.csvpath.count_matches")',
        "divide(#c, 0)",
    ]
    for fname in ["plain.csv", "ragged.csv", "blanklast.csv"]:
        for how in [
            "next",
            "fast_forward",
            "collect2",
            "collect_unmatched",
            "twice",
        ]:
            for m in some:
                run_one(fname, f"${fname}[*][{m}]", how=how)
    out("=" * 30 + " MODES")
    for fname in ["plain.csv", "ragged.csv", "blanklast.csv"]:
        for meta in [
            "return-mode: no-matches",
            "return-mode: no-matches logic-mode: OR",
            "return-mode: matches",
            "run-mode: no-run",
            "explain-mode: explain",
            "explain-mode: explain logic-mode: OR",
            "validation-mode: raise, print",
            "validation-mode: no-raise, no-print, no-fail",
            "validation-mode: no-raise, stop",
            "validation-mode: no-raise, match",
            "validation-mode: no-raise, no-match",
        ]:
            for m in [
                '#b == "x"',
                '#b == "x" @n = count()',
                'add(#b, 1) == 2',
                '#a == "3" divide(#c, 0)',
                'or(#a == "1", int(#b) == 1)',
                '#nosuch',
                'yes() last() -> @z = divide(1, 0)',
            ]:
                for how in ["collect", "collect_unmatched"]:
                    run_one(fname, f"~ {meta} ~ ${fname}[*][{m}]", how=how)
    out("=" * 30 + " NO SKIP BLANK LINES")
    for fname in ["ragged.csv", "blanklast.csv"]:
        for m in ["yes()", "#a", "not(#a)", "count_lines() == 2", 'last() -> @z = "1"']:
            for mode in ["AND", "OR"]:
                run_one(
                    f"{fname} {mode} noskip",
                    f"~ logic-mode: {mode} ~ ${fname}[*][{m}]",
                    skip_blank_lines=False,
                )
    out("=" * 30 + " BAD INPUTS")
    for cp in [
        "$plain.csv[*][",
        "$plain.csv[*][nosuchfunction()]",
        "$nosuchfile.csv[*][yes()]",
        "$plain.csv[*][yes(1)]",
        '$plain.csv[*][@x = ]',
        "$plain.csv[*][last() -> ]",
    ]:
        run_one("bad", cp)


def dump_archive() -> None:
    out("--- archive tree")
    for root, dirs, files in os.walk("archive"):
        dirs.sort()
        for f in sorted(files):
            path = os.path.join(root, f)
            out(f"  {path}")
            if f in ("data.csv", "unmatched.csv", "printouts.txt", "vars.json"):
                with open(path, "r", encoding="utf-8") as fh:
                    for line in fh.read().splitlines():
                        out(f"      | {line}")
            elif f == "errors.json":
                with open(path, "r", encoding="utf-8") as fh:
                    try:
                        es = json.load(fh)
                    except Exception as ex:  # pylint: disable=W0718
                        out(f"      | unreadable: {ex.__class__.__name__}")
                        continue
                for e in es:
                    e.pop("trace", None)
                    e.pop("at", None)
                    out(f"      | {json.dumps(e, sort_keys=True)}")
            elif f == "meta.json":
                with open(path, "r", encoding="utf-8") as fh:
                    j = json.load(fh)
                rd = j.get("runtime_data", {})
                keep = {
                    k: rd.get(k)
                    for k in [
                        "count_lines",
                        "count_matches",
                        "count_scans",
                        "valid",
                        "stopped",
                        "lines_collected",
                        "unmatched_collected",
                        "logic_mode",
                        "return_mode",
                    ]
                    if k in rd
                }
                out(f"      | keys: {sorted(j.keys())}")
                out(f"      | runtime: {json.dumps(keep, sort_keys=True, default=str)}")
                out(f"      | metadata: {json.dumps(j.get('metadata'), sort_keys=True, default=str)}")
            elif f == "manifest.json":
                with open(path, "r", encoding="utf-8") as fh:
                    j = json.load(fh)
                if isinstance(j, dict):
                    keep = {
                        k: j.get(k)
                        for k in [
                            "valid",
                            "completed",
                            "files_expected",
                            "all_valid",
                            "all_completed",
                            "all_expected_files",
                            "error_count",
                            "has_errors",
                            "instance_identity",
                            "named_paths_name",
                            "named_file_name",
                        ]
                        if k in j
                    }
                    out(f"      | keys: {sorted(j.keys())}")
                    out(f"      | some: {json.dumps(keep, sort_keys=True, default=str)}")
                else:
                    out(f"      | entries: {len(j)}")


def _tolist(lines):
    if lines is None or isinstance(lines, list):
        return lines
    if hasattr(lines, "next"):
        return [f"{lines.__class__.__name__} len:{len(lines)}"] + list(lines.next())
    return f"{lines.__class__.__name__}"


def show_results(cp, name) -> None:
    try:
        results = cp.results_manager.get_named_results(name)
    except Exception as ex:  # pylint: disable=W0718
        out(f"  no results for {name}: {ex.__class__.__name__}: {ex}")
        return
    for r in results:
        out(f"  result {r.identity_or_index}:")
        try:
            lines = r.lines
            lines = _tolist(lines)
        except Exception as ex:  # pylint: disable=W0718
            lines = f"{ex.__class__.__name__}: {ex}"
        out(f"    lines: {lines}")
        try:
            um = r.unmatched
            um = _tolist(um)
        except Exception as ex:  # pylint: disable=W0718
            um = f"{ex.__class__.__name__}: {ex}"
        out(f"    unmatched: {um}")
        out(f"    variables: {json.dumps(r.variables, sort_keys=True, default=str)}")
        out(f"    printouts: {dict(r.all_printouts) if hasattr(r, 'all_printouts') else None}")
        out(
            f"    is_valid:{r.is_valid} stopped:{r.csvpath.stopped} "
            f"match_count:{r.csvpath.match_count} scan_count:{r.csvpath.scan_count}"
        )
        show_errors(r.errors)


GROUPS = {
    "basic": [
        "~id:all~ $[*][yes()]",
        '~id:two~ $[*][#a == "3"]',
        '~id:ors logic-mode: OR~ $[*][#a == "1" #b == "x"]',
        '~id:vars~ $[*][@n.onmatch = count() #b == "x" last() -> print("n is $.variables.n")]',
        '~id:nomatch return-mode: no-matches unmatched-mode: keep~ $[*][#b == "x"]',
        '~id:keep unmatched-mode: keep~ $[1*][gt(#a, 2) -> @big = #a #c]',
    ],
    "errs": [
        '~id:div validation-mode: no-raise, print, fail~ $[*][#a == "3" divide(#c, 0)]',
        '~id:stopper~ $[*][stop(#a == "3")]',
        '~id:failer~ $[*][fail(#a == "3") print("line $.csvpath.line_number")]',
        '~id:skipper~ $[*][skip(#a == "3") @seen = #a]',
        '~id:collector~ $[*][collect("a", "b") #b]',
        '~id:lastblank~ $[*][#a last() -> @z = count_lines()]',
    ],
}


def groups() -> None:
    from csvpath import CsvPaths

    out("=" * 30 + " CSVPATHS GROUPS")
    for method in [
        "collect_paths",
        "fast_forward_paths",
        "next_paths",
        "collect_by_line",
        "fast_forward_by_line",
        "next_by_line",
    ]:
        for fname in ["plain.csv", "ragged.csv", "blanklast.csv"]:
            for gname, paths in GROUPS.items():
                out(f"--- {method} {fname} {gname}")
                cp = CsvPaths()
                try:
                    fkey = fname.replace(".csv", "")
                    cp.file_manager.add_named_file(name=fkey, path=fname)
                    cp.paths_manager.add_named_paths(name=gname, paths=paths)
                    m = getattr(cp, method)
                    if method.startswith("next"):
                        n = 0
                        for line in m(filename=fkey, pathsname=gname):
                            n += 1
                            out(f"    next -> {line}")
                        out(f"    yielded {n}")
                    else:
                        m(filename=fkey, pathsname=gname)
                except Exception as ex:  # pylint: disable=W0718
                    cause = ex.__cause__
                    out(
                        f"    EXCEPTION {ex.__class__.__name__}: {ex} "
                        f"(cause: {cause.__class__.__name__ if cause is not None else None}: {cause})"
                    )
                show_results(cp, gname)
    # repeated run of the same group: a second run dir must appear
    dump_archive()


def main() -> None:
    for d in ["archive", "cache", "logs", "inputs", "transfers", "config"]:
        if os.path.exists(d):
            shutil.rmtree(d)
    os.makedirs("config")
    with open("config/config.ini", "w", encoding="utf-8") as f:
        f.write(CONFIG)
    with open("config/functions.imports", "w", encoding="utf-8") as f:
        f.write("")
    for name, content in FILES.items():
        with open(name, "w", encoding="utf-8") as f:
            f.write(content)
    try:
        standalone()
        groups()
    except Exception:  # pylint: disable=W0718
        out("DEMO CRASHED")
        out(re.sub(r'File "[^"]*", line \d+', 'File "<f>", line <n>', traceback.format_exc()))
    out("END")


if __name__ == "__main__":
    main()
