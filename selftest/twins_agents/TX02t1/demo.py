#!/usr/bin/env python
"""Differential demonstration for property C02 ("the scan part selects exactly
the lines it denotes").

Run it in an EMPTY scratch directory (it creates ./config, ./data, ./archive,
./inputs, ./logs, ./cache there) with PYTHONPATH pointing at the csvpath tree
under test:

    mkdir /tmp/demo && cd /tmp/demo && PYTHONPATH=<tree> python demo.py > out.txt

The transcript is deterministic: timestamps in run directory names are
normalised, tracebacks / memory addresses / wall-clock values are never printed.
"""
import contextlib
import io
import itertools
import json
import os
import re
import sys
import types

CONFIG = """[csvpath_files]
extensions = txt, csvpath, csvpaths

[csv_files]
extensions = txt, csv, tsv, dat, tab, psv, ssv

[errors]
csvpath = raise, collect, stop, fail, print
csvpaths = raise, collect

[logging]
csvpath = info
csvpaths = info
log_file = logs/csvpath.log
log_files_to_keep = 100
log_file_size = 52428800

[config]
path = config/config.ini

[cache]
path = cache

[listeners]
[marquez]
base_url = http://localhost:5000

[functions]
imports = config/functions.imports

[results]
archive = archive
transfers = transfers

[inputs]
files = inputs/named_files
csvpaths = inputs/named_paths
on_unmatched_file_fingerprints = halt
"""

os.makedirs("config", exist_ok=True)
os.makedirs("data", exist_ok=True)
if not os.path.exists("config/config.ini"):
    with open("config/config.ini", "w", encoding="utf-8") as f:
        f.write(CONFIG)
if not os.path.exists("config/functions.imports"):
    with open("config/functions.imports", "w", encoding="utf-8") as f:
        f.write("")

from csvpath import CsvPath, CsvPaths  # noqa: E402 pylint: disable=C0413
from csvpath.scanning.scanner import Scanner  # noqa: E402 pylint: disable=C0413


def out(*a):
    # memory addresses (they show up in a few exception messages) are not behaviour
    print(re.sub(r" at 0x[0-9a-f]+", " at 0x?", " ".join(str(x) for x in a)))


def section(title):
    out("")
    out("=" * 70)
    out(title)
    out("=" * 70)


def exc_str(e):
    return f"{type(e).__name__}: {e}"


def captured(fn):
    """runs fn() with stdout captured. returns (result-or-exception-string, text)"""
    buf = io.StringIO()
    res = None
    with contextlib.redirect_stdout(buf):
        try:
            res = fn()
        except Exception as e:  # pylint: disable=W0718
            res = "RAISED " + exc_str(e)
    return res, buf.getvalue()


# ----------------------------------------------------------------------
# a tiny stand-in for the CsvPath that a Scanner talks to
# ----------------------------------------------------------------------
class _Log:
    def info(self, *a, **k):
        pass

    debug = warning = error = info


def stub_csvpath(end_line_number):
    lm = types.SimpleNamespace(physical_end_line_number=end_line_number)
    return types.SimpleNamespace(logger=_Log(), line_monitor=lm)


def bits(values):
    s = ""
    for v in values:
        if v is True:
            s += "1"
        elif v is False:
            s += "0"
        else:
            s += f"<{v!r}>"
    return s


def call(fn, *a, **k):
    try:
        return fn(*a, **k)
    except Exception as e:  # pylint: disable=W0718
        return "E:" + exc_str(e)


# ======================================================================
# A. the Scanner on its own: what the yacc productions build for a scan
#    part, and what includes()/is_last() answer for each line number
# ======================================================================
SCANS = [
    "*",
    "0*",
    "1*",
    "3*",
    "12*",
    "0",
    "1",
    "5",
    "0-0",
    "0-3",
    "1-3",
    "3-1",
    "3-0",
    "2-2",
    "7-9",
    "9-7",
    "0+1",
    "1+3",
    "3+1",
    "1+1",
    "0+2+4",
    "1+2+3",
    "4+2+0",
    "1-2+4",
    "0-1+3-4",
    "1-3+5-7",
    "1-3+5",
    "1+3-5",
    "0+2-3+5",
    "0+2-3+5-6+9",
    "1+2-4+6+8-9",
    "1-3+2-5",
    "1-3+3",
    "2+1-3",
    "5-3+1",
    "1+5-3",
    "1-3-5",
    "1+2*",
    "1-2+4*",
    "2*+1",
    "*+1",
    "1+*",
    " 1 - 3 ",
    "1 +\t3",
]

LINES = [None] + list(range(0, 13))

section("A1. scan part -> scanner state, includes(), is_last()")
for scan in SCANS:
    s = Scanner(csvpath=stub_csvpath(9))
    res, text = captured(lambda: s.parse(f"$data/f.csv[{scan}]"))  # pylint: disable=W0640
    if isinstance(res, str):
        out(f"[{scan}] parse -> {res} printed={text!r}")
        out(
            f"    state after: from={s.from_line!r} to={s.to_line!r} all={s.all_lines!r} these={s.these!r}"
        )
        continue
    out(
        f"[{scan}] file={s.filename!r} path={s.path!r} from={s.from_line!r} to={s.to_line!r} "
        f"all={s.all_lines!r} these={s.these!r} printed={text!r}"
    )
    out("    includes: " + bits(call(s.includes, n) for n in LINES))
    out("    is_last : " + bits(call(s.is_last, n) for n in LINES))
    # the state must not be touched by asking
    out(
        f"    state after: from={s.from_line!r} to={s.to_line!r} all={s.all_lines!r} these={s.these!r}"
    )
    text = str(s)
    text = re.sub(r"parser: .*", "parser: <parser>", text)
    text = re.sub(r"lexer: .*", "lexer: <lexer>", text)
    out("    str: " + " | ".join(t.strip() for t in text.strip().split("\n")))

section("A2. includes()/is_last() with explicit keyword overrides (full grid)")
FROMS = [-1, None, 0, 2, 5]
TOS = [-1, None, 0, 3, 5]
ALLS = [None, False, True, 0, 1]
THESE = [None, [], [0], [1, 3], [5, 2], (4,)]
GRID_LINES = [None, 0, 1, 2, 3, 4, 5, 6]
for parsed in ["*", "1-3", "4+1", "2*", "3"]:
    s = Scanner(csvpath=stub_csvpath(4))
    s.parse(f"$x[{parsed}]")
    out(f"-- scanner parsed from [{parsed}]")
    for fl, tl, al, th in itertools.product(FROMS, TOS, ALLS, THESE):
        inc = bits(
            call(s.includes, n, from_line=fl, to_line=tl, all_lines=al, these=th)
            for n in GRID_LINES
        )
        lst = bits(
            call(s.is_last, n, from_line=fl, to_line=tl, all_lines=al, these=th)
            for n in GRID_LINES
        )
        out(f"f={fl!r} t={tl!r} a={al!r} th={th!r}: inc={inc} last={lst}")
    out(f"   untouched: from={s.from_line!r} to={s.to_line!r} all={s.all_lines!r} these={s.these!r}")

section("A3. includes()/is_last() odd arguments and error cases")
s = Scanner(csvpath=stub_csvpath(4))
s.parse("$x[1-3]")
ODD = [
    dict(line="2"),
    dict(line="2", from_line=1, all_lines=True),
    dict(line="2", from_line=None, all_lines=True),
    dict(line=2.0),
    dict(line=2.5),
    dict(line=True),
    dict(line=2, from_line="1", to_line=3),
    dict(line=2, from_line=1, to_line="3"),
    dict(line=2, from_line=None, to_line="3", these=[]),
    dict(line=2, from_line=None, to_line=None, these=None),
    dict(line=2, from_line=None, to_line=None, these=7),
    dict(line=2, from_line=None, to_line=None, these="123"),
    dict(line="2", from_line=None, to_line=None, these="123"),
    dict(line=2, from_line=None, to_line=None, these={2: "x"}),
    dict(line=2, from_line=None, to_line=None, these=range(0, 3)),
    dict(line=2, from_line=None, to_line=None, these=[2], all_lines="yes"),
    dict(line=2, from_line=None, to_line=None, these=[], all_lines=""),
    dict(line=-1, from_line=-1, to_line=-1),
    dict(line=0, from_line=0, to_line=0),
    dict(line=0, from_line=None, to_line=0),
    dict(line=-5, from_line=None, to_line=0, these=[]),
    dict(line=[1], from_line=None, to_line=None, these=[[1]]),
]
for kw in ODD:
    kw = dict(kw)
    line = kw.pop("line")
    out(
        f"line={line!r} {kw!r}: includes={call(s.includes, line, **kw)!r} is_last={call(s.is_last, line, **kw)!r}"
    )
# positional misuse must fail the same way
out("positional includes:", call(s.includes, 1, 2))
out("positional is_last :", call(s.is_last, 1, 2))
# a scanner without a csvpath asked about all-lines
s = Scanner()
s.parse("$x[*]")
out("no csvpath, is_last(3):", call(s.is_last, 3))
out("no csvpath, is_last(None):", call(s.is_last, None))
out("no csvpath, includes(3):", call(s.includes, 3))
s = Scanner()
out("unparsed scanner includes(0):", call(s.includes, 0), "is_last(0):", call(s.is_last, 0))

section("A4. scan parts that do not parse (errors and what is printed)")
BAD = [
    "$f[",
    "$f[]",
    "$f[1-*]",
    "$f[1-3*]",
    "$f[1-2-*]",
    "$f[1-2-4*]",
    "$f[1++2]",
    "$f[1+]",
    "$f[-1]",
    "$f[+]",
    "$f[abc]",
    "$f[1,2]",
    "f[1]",
    "$f[1]]",
    "$f[1][2]",
    "$[3]",
    "$ [3]",
    "",
]
for bad in BAD:
    s = Scanner(csvpath=stub_csvpath(4))
    res, text = captured(lambda: s.parse(bad))  # pylint: disable=W0640
    res = res if isinstance(res, str) else "ok"
    # the symbol stack printout holds no addresses, but be safe
    text = re.sub(r"0x[0-9a-f]+", "0x?", text)
    out(f"{bad!r}: {res}")
    out(f"    printed={text!r}")
    out(
        f"    state: file={s.filename!r} from={s.from_line!r} to={s.to_line!r} all={s.all_lines!r} these={s.these!r}"
    )

section("A5. one Scanner parsing twice (state carries over exactly as before)")
s = Scanner(csvpath=stub_csvpath(4))
for scan in ["1-2", "4", "6-7", "*"]:
    res, text = captured(lambda: s.parse(f"$x[{scan}]"))  # pylint: disable=W0640
    out(
        f"then [{scan}]: {'ok' if not isinstance(res, str) else res} from={s.from_line!r} to={s.to_line!r} "
        f"all={s.all_lines!r} these={s.these!r} includes={bits(call(s.includes, n) for n in LINES)}"
    )


section("A6. seeded random scan parts straight through the yacc productions")
import random  # noqa: E402 pylint: disable=C0413,C0411

rnd = random.Random(20240202)


def random_scan():
    n = rnd.randint(1, 6)
    parts = []
    for i in range(n):
        r = rnd.random()
        if r < 0.08:
            parts.append("*")
        elif r < 0.2:
            parts.append(f"{rnd.randint(0, 9)}*")
        else:
            parts.append(str(rnd.randint(0, 9)))
        if i < n - 1:
            parts.append(rnd.choice(["+", "+", "-", "-", " + ", " -"]))
    if rnd.random() < 0.05:
        parts.append(rnd.choice(["+", "-", "]"]))
    return "".join(parts)


for _ in range(1500):
    scan = random_scan()
    s = Scanner(csvpath=stub_csvpath(7))
    res, text = captured(lambda: s.parse(f"$x[{scan}]"))  # pylint: disable=W0640
    res = res if isinstance(res, str) else "ok"
    out(
        f"[{scan}] {res} from={s.from_line!r} to={s.to_line!r} all={s.all_lines!r} these={s.these!r} "
        f"inc={bits(call(s.includes, n) for n in LINES)} last={bits(call(s.is_last, n) for n in LINES)} "
        f"printed={len(text)}"
    )


# ======================================================================
# B. CsvPath end to end over small files with blank records anywhere
# ======================================================================
def write(name, text):
    path = os.path.join("data", name)
    with open(path, "w", encoding="utf-8") as f:
        f.write(text)
    return path


FILES = {
    "empty.csv": "",
    "one.csv": "a,b\n",
    "oneblank.csv": "\n",
    "plain5.csv": "h1,h2,h3\nr1,1,x\nr2,2,y\nr3,3,z\nr4,4,w\n",
    "blank_first.csv": "\nh1,h2\nr2,2\nr3,3\n",
    "blank_last.csv": "h1,h2\nr1,1\nr2,2\n\n",
    "blank_last2.csv": "h1,h2\nr1,1\n\n\n",
    "blank_mid.csv": "h1,h2\n\nr2,2\n\n\nr5,5\nr6,6\n",
    "blank_many.csv": "\n\nh1,h2\n\nr4,4\n\nr6,6\n\n",
    "ragged.csv": "h1,h2,h3\nr1\nr2,,\n,,\nr4,4,x,extra,more\n\nr6, ,0\n",
    "no_eol.csv": "h1,h2\nr1,1\nr2,2",
    "ten.csv": "".join(f"r{i},{i}\n" for i in range(10)),
}
for name, text in FILES.items():
    write(name, text)


def scans_for(n):
    """the scan parts of the property's quantifier for a file of n records"""
    hi = n + 2
    ret = ["*"]
    ret += [f"{i}*" for i in range(0, hi + 1)]
    ret += [f"{i}" for i in range(0, hi + 1)]
    pairs = [(a, b) for a in range(0, hi + 1) for b in range(0, hi + 1)]
    # thin the ranges a little for the bigger files
    step = 1 if n <= 4 else 3
    ret += [f"{a}-{b}" for (a, b) in pairs[::step]]
    plus = [
        "0+1",
        "0+2",
        f"0+{hi}",
        f"1+{n}",
        "0+1+2",
        "0-1+3",
        "0+2-3",
        f"0-1+3-{hi}",
        f"1+3-4+{hi}",
        f"0+2-{n}",
        f"1-2+{n}-{hi}",
    ]
    ret += plus
    return ret


def describe_errors(errors):
    ret = []
    for e in errors or []:
        ret.append(
            f"{type(e.error).__name__}:{e.error}|line={e.line_count}|scan={e.scan_count}|match={e.match_count}"
        )
    return ret


def run_path(pathstr, how="collect", **ctor):
    """runs one csvpath and reports everything observable"""
    p = CsvPath(**ctor)
    buf = io.StringIO()
    lines = None
    res = "ok"
    with contextlib.redirect_stdout(buf):
        try:
            p.parse(pathstr)
            if how == "collect":
                lines = p.collect()
            elif how == "next":
                lines = []
                for ln in p.next():
                    lines.append(
                        (p.line_monitor.physical_line_number, p.scan_count, list(ln))
                    )
            elif how == "ff":
                p.fast_forward()
        except Exception as e:  # pylint: disable=W0718
            res = "RAISED " + exc_str(e)
    lmtxt = None
    try:
        with contextlib.redirect_stdout(buf):
            lm = p.line_monitor
        if lm is not None:
            lmtxt = (
                f"pln={lm.physical_line_number} plc={lm.physical_line_count} dln={lm.data_line_number} "
                f"dlc={lm.data_line_count} pend={lm.physical_end_line_number}"
            )
    except Exception as e:  # pylint: disable=W0718
        lmtxt = "line_monitor E:" + exc_str(e)
    lns = call(p.collect_line_numbers) if p.scanner else None
    unmatched = p.unmatched
    out(f"  {how} {pathstr!r} {ctor if ctor else ''} -> {res}")
    out(f"      lines={None if lines is None else [list(l) if not isinstance(l, tuple) else l for l in lines]}")
    out(
        f"      scan_count={p.scan_count} match_count={p.match_count} valid={p.is_valid} "
        f"stopped={p.stopped} completed={call(lambda: p.completed)} {lmtxt}"
    )
    out(f"      vars={json.dumps(p.variables, sort_keys=True, default=str)}")
    out(f"      line_numbers={lns} unmatched={unmatched}")
    errs = describe_errors(p.errors)
    if errs:
        out(f"      errors={errs}")
    if buf.getvalue():
        out(f"      printed={buf.getvalue()!r}")
    return p


MATCH = '[push("ln", line_number()) @c = count_scans() last.nocontrib() -> @last = line_number()]'

section("B1. every scan part of the quantifier over files with blanks (collect)")
for name, text in FILES.items():
    n = len(text.split("\n")) - (1 if text.endswith("\n") or text == "" else 0)
    out(f"--- {name}: {n} records: {text!r}")
    for scan in scans_for(n):
        run_path(f"$data/{name}[{scan}]{MATCH}")

section("B2. next() and fast_forward() and repeated runs of fresh instances")
for name in ["blank_mid.csv", "blank_last.csv", "ragged.csv", "no_eol.csv"]:
    out(f"--- {name}")
    for scan in ["*", "2*", "1-3", "3-1", "0+2+5", "1+3-4+6", "5", "9", "2-2"]:
        run_path(f"$data/{name}[{scan}][yes()]", how="next")
        run_path(f"$data/{name}[{scan}]{MATCH}", how="ff")
        run_path(f"$data/{name}[{scan}]{MATCH}", how="ff")

section("B3. match parts that interact with scanning: advance, skip, stop, last, return-mode, counts")
VARIANTS = [
    "[yes()]",
    "[no()]",
    "[]",
    '[#0 == "r2"]',
    '[#1 == "2" -> advance(1)]',
    "[count_scans() == 2 -> advance(2) push(\"seen\", line_number())]",
    "[count_lines() == 2 -> skip() push(\"seen\", line_number())]",
    '[push("seen", line_number()) line_number() == 2 -> stop()]',
    '[push("seen", line_number()) line_number() == 2 -> fail_and_stop()]',
    "[last() -> print(\"last line is $.csvpath.line_number scans $.csvpath.scan_count\")]",
    '[print("$.csvpath.line_number/$.csvpath.scan_count/$.csvpath.match_count")]',
    "[@t = total_lines() @s = count_scans() @l = count_lines() @m = count()]",
    "[firstscan.nocontrib() -> @fs = line_number() firstline.nocontrib() -> @fl = line_number() firstmatch.nocontrib() -> @fm = line_number()]",
    '[after_blank() -> push("after_blank", line_number())]',
    '[collect(0) #0 == "r2"]',
    '[empty(#1) -> push("empties", line_number())]',
]
for name in ["blank_mid.csv", "ragged.csv", "blank_last2.csv"]:
    out(f"--- {name}")
    for scan in ["*", "1*", "0-2", "2+5", "1-2+5-6"]:
        for m in VARIANTS:
            run_path(f"$data/{name}[{scan}]{m}")
    for scan in ["*", "1-5", "2+5"]:
        run_path(f"~ return-mode: no-matches ~ $data/{name}[{scan}][#0 == \"r2\"]")
        run_path(f"~ return-mode: no-matches ~ $data/{name}[{scan}][#0 == \"r2\"]", how="next")
        run_path(f"~ unmatched-mode: keep ~ $data/{name}[{scan}][#0 == \"r2\"]")
        run_path(f"~ run-mode: no-run ~ $data/{name}[{scan}][yes()]")
        run_path(f"$data/{name}[{scan}][yes()]", skip_blank_lines=False)
        run_path(f"$data/{name}[{scan}][push(\"n\", line_number())]", how="ff", skip_blank_lines=False)

section("B4. error cases end to end")
for pathstr in [
    "$data/plain5.csv[1-*][yes()]",
    "$data/plain5.csv[1-2-*][yes()]",
    "$data/plain5.csv[1+][yes()]",
    "$data/plain5.csv[][yes()]",
    "$data/plain5.csv[x][yes()]",
    "$data/nothere.csv[*][yes()]",
    "$[*][yes()]",
    "$data/plain5.csv[1*][add(\"a\", none())]",
    "$data/plain5.csv[2-3][push(\"x\", divide(1, 0))]",
    "$data/plain5.csv[2+4][@x = int(#0)]",
]:
    run_path(pathstr)
    run_path(pathstr, how="next")

section("B5. one instance: properties, parse then step through with next(), completed as we go")
p = CsvPath()
for prop in ["from_line", "to_line", "all_lines", "these", "path"]:
    out(f"unparsed {prop}: {call(lambda: getattr(p, prop))}")  # pylint: disable=W0640
out("unparsed collect_line_numbers:", call(p.collect_line_numbers))
out("unparsed completed:", call(lambda: p.completed))
p.parse("$data/blank_mid.csv[1+2-3+5][yes()]")
out("parsed completed:", call(lambda: p.completed))
for prop in ["from_line", "to_line", "all_lines", "these", "path"]:
    out(f"parsed {prop}: {call(lambda: getattr(p, prop))!r}")  # pylint: disable=W0640
out("line_numbers:", list(p.line_numbers()), "collect_line_numbers:", p.collect_line_numbers())
for ln in p.next():
    out(
        f"  yielded {ln} at physical {p.line_monitor.physical_line_number} scan_count={p.scan_count} "
        f"completed={p.completed} stopped={p.stopped} includes_next={p.scanner.includes(p.line_monitor.physical_line_number + 1)}"
    )
out(f"after: scan_count={p.scan_count} match_count={p.match_count} completed={p.completed} stopped={p.stopped}")
out("a second collect() on the same (frozen) instance:", call(p.collect))


# ======================================================================
# C. CsvPaths: groups of csvpaths, serial and by-line, and the archive
# ======================================================================
def norm(text):
    text = re.sub(r"\d{4}-\d{2}-\d{2}_\d{2}-\d{2}-\d{2}(\.\d+)?", "<RUN>", text)
    return text


def run_dirs(pathsname):
    base = os.path.join("archive", pathsname)
    if not os.path.isdir(base):
        return []
    dirs = [d for d in os.listdir(base) if os.path.isdir(os.path.join(base, d))]

    def key(d):
        m = re.match(r"(.*?)(?:\.(\d+))?$", d)
        return (m.group(1), int(m.group(2)) if m.group(2) else -1)

    return sorted(dirs, key=key)


def show_archive(pathsname):
    base = os.path.join("archive", pathsname)
    for i, rd in enumerate(run_dirs(pathsname)):
        out(f"  archive/{pathsname}/<RUN#{i}>")
        top = os.path.join(base, rd)
        for root, dirs, files in os.walk(top):
            dirs.sort()
            rel = os.path.relpath(root, top)
            for fn in sorted(files):
                full = os.path.join(root, fn)
                out(f"    {rel}/{fn}")
                with open(full, "r", encoding="utf-8") as f:
                    text = f.read()
                if fn in ("data.csv", "unmatched.csv", "printouts.txt"):
                    out(f"        {text!r}")
                elif fn == "vars.json":
                    out(f"        {json.dumps(json.loads(text), sort_keys=True)}")
                elif fn == "errors.json":
                    for e in json.loads(text):
                        out(
                            f"        error={e['error']!r} line={e['line_count']} scan={e['scan_count']} match={e['match_count']}"
                        )
                elif fn == "meta.json":
                    j = json.loads(text)
                    rt = j.get("runtime_data", {})
                    keep = {
                        k: rt.get(k)
                        for k in (
                            "count_lines",
                            "count_matches",
                            "count_scans",
                            "scan_part",
                            "match_part",
                            "valid",
                            "stopped",
                            "completed",
                            "files_expected",
                            "lines_collected",
                            "unmatched_collected",
                        )
                        if k in rt
                    }
                    out(f"        {json.dumps(keep, sort_keys=True, default=str)}")


def report_results(cp, pathsname):
    results = cp.results_manager.get_named_results(pathsname)
    for r in results:
        p = r.csvpath
        lines = None
        try:
            lines = r.lines
            if lines is not None and not isinstance(lines, list):
                lines = list(lines.next())
        except Exception as e:  # pylint: disable=W0718
            lines = "E:" + exc_str(e)
        out(
            f"   result {r.identity_or_index}: scan={p.scanner.path if p.scanner else None!r} lines={lines} "
            f"unmatched={r.unmatched} scan_count={p.scan_count} match_count={p.match_count} valid={r.is_valid} "
            f"stopped={p.stopped} completed={call(lambda: p.completed)} vars={json.dumps(r.variables, sort_keys=True, default=str)} "  # pylint: disable=W0640
            f"errors={describe_errors(r.errors)} printouts={r.printouts}"
        )


GROUPS = {
    "g_all": [
        "~id: all~ $[*][yes()]",
        "~id: from2~ $[2*][push(\"ln\", line_number())]",
        "~id: range~ $[1-3][push(\"ln\", line_number())]",
        "~id: rev~ $[5-2][push(\"ln\", line_number()) last() -> @last = line_number()]",
        "~id: plus~ $[0+2-3+6][push(\"ln\", line_number()) print(\"saw $.csvpath.line_number\")]",
        "~id: one~ $[5][#0 == \"r5\"]",
        "~id: beyond~ $[8-9][yes()]",
    ],
    "g_modes": [
        "~id: nomatch return-mode: no-matches~ $[1-5][#0 == \"r2\"]",
        "~id: keep unmatched-mode: keep~ $[0+2+5][#0 == \"r2\"]",
        "~id: adv~ $[1*][line_number() == 2 -> advance(2) push(\"seen\", line_number())]",
        "~id: stopper~ $[*][push(\"seen\", line_number()) line_number() == 2 -> stop()]",
    ],
    "g_bad": [
        "~id: good~ $[1-2][yes()]",
        "~id: badscan~ $[1-*][yes()]",
    ],
    "g_err": [
        "~id: boom~ $[1*][add(\"a\", none())]",
        "~id: after~ $[2+5][yes()]",
    ],
}

section("C. CsvPaths runs")
cp = CsvPaths()
cp.file_manager.add_named_file(name="mid", path="data/blank_mid.csv")
cp.file_manager.add_named_file(name="many", path="data/blank_many.csv")
cp.file_manager.add_named_file(name="ragged", path="data/ragged.csv")
for gname, paths in GROUPS.items():
    cp.paths_manager.add_named_paths(name=gname, paths=paths)

for fname in ["mid", "many", "ragged"]:
    for gname in GROUPS:
        for method in [
            "collect_paths",
            "fast_forward_paths",
            "next_paths",
            "collect_by_line",
            "fast_forward_by_line",
            "next_by_line",
        ]:
            if fname != "mid" and method in ("fast_forward_paths", "fast_forward_by_line"):
                continue
            out(f"-- {method}(filename={fname!r}, pathsname={gname!r})")
            buf = io.StringIO()
            res = "ok"
            got = None
            with contextlib.redirect_stdout(buf):
                try:
                    m = getattr(cp, method)
                    if method.startswith("next"):
                        got = [list(l) for l in m(filename=fname, pathsname=gname)]
                    else:
                        m(filename=fname, pathsname=gname)
                except Exception as e:  # pylint: disable=W0718
                    res = "RAISED " + exc_str(e)
            out(f"   -> {res} yielded={got}")
            if buf.getvalue():
                out(f"   printed={norm(buf.getvalue())!r}")
            try:
                report_results(cp, gname)
            except Exception as e:  # pylint: disable=W0718
                out("   results: E:" + exc_str(e))

section("C2. the archive")
for gname in GROUPS:
    show_archive(gname)

out("")
out("done")
