#!/venv/bin/python
"""Differential demonstration for refactoring t3 (C06).

t3 replaces the if-chain in DataFileReader.__new__ that picks the concrete reader
(registered dataframe / xlsx / s3 / csv) by a module-level table of
(accepts, make) rows that is walked in order.

Run with cwd = an empty scratch directory and PYTHONPATH = the csvpath tree
under test.  Prints a deterministic transcript of everything observable.
"""
import builtins
import contextlib
import csv
import io
import json
import os
import random
import re
import shutil
import sys
import types

CONFIG = """[csvpath_files]
extensions = txt, csvpath, csvpaths

[csv_files]
extensions = txt, csv, tsv, dat, tab, psv, ssv

[errors]
csvpath = raise, collect, stop, fail, print
csvpaths = raise, collect

[logging]
csvpath = info
csvpaths = info
log_file = logs/csvpath.log
log_files_to_keep = 100
log_file_size = 52428800

[config]
path = config/config.ini

[cache]
path = cache

[listeners]
[marquez]
base_url = http://localhost:5000

[functions]
imports = config/functions.imports

[results]
archive = archive
transfers = transfers

[inputs]
files = inputs/named_files
csvpaths = inputs/named_paths
on_unmatched_file_fingerprints = halt
"""


def setup_env():
    for d in ("archive", "cache", "inputs", "logs", "transfers", "config", "data"):
        if os.path.exists(d):
            shutil.rmtree(d)
    os.makedirs("config")
    os.makedirs("data")
    with open("config/config.ini", "w", encoding="utf-8") as f:
        f.write(CONFIG)
    with open("config/functions.imports", "w", encoding="utf-8") as f:
        f.write("")


setup_env()

#
# smart_open is an optional extra that is not installed here. S3DataReader only
# needs its open(uri=, mode=) so we stand in a local-file equivalent. the same
# stand-in is used for HEAD and for the refactored tree.
#
_fake = types.ModuleType("smart_open")


def _fake_open(uri=None, mode="r"):
    OUT.append(f"   [smart_open.open uri={uri!r} mode={mode!r}]")
    return builtins.open(uri, mode, encoding="utf-8", newline="")


_fake.open = _fake_open
sys.modules["smart_open"] = _fake

#
# pandas is not installed either. PandasDataReader only imports it; the frames it
# reads need copy() and itertuples(index=False). the reader is selected by the
# class name of the registered object ending in "DataFrame".
#
sys.modules["pandas"] = types.ModuleType("pandas")


class FakeDataFrame:
    def __init__(self, rows):
        self.rows = rows

    def copy(self):
        return FakeDataFrame([r[:] for r in self.rows])

    def itertuples(self, index=True):
        for r in self.rows:
            yield tuple(r)


class NotAFrame:
    def __init__(self, rows):
        self.rows = rows

OUT = []


def say(*a):
    OUT.append(" ".join(str(_) for _ in a))


from csvpath import CsvPath, CsvPaths  # noqa: E402
from csvpath.util.file_readers import (  # noqa: E402
    DataFileReader,
    CsvDataReader,
    XlsxDataReader,
)
from csvpath.util.s3_data_reader import S3DataReader  # noqa: E402
from csvpath.util.line_counter import LineCounter  # noqa: E402

TS = re.compile(r"\d{4}-\d{2}-\d{2}_\d{2}-\d{2}-\d{2}(\.\d+)?")


def attempt(label, fn):
    """runs fn capturing stdout and any exception; everything goes to the transcript"""
    buf = io.StringIO()
    try:
        with contextlib.redirect_stdout(buf):
            r = fn()
        say(f"{label} -> {r!r}")
    except BaseException as e:  # pylint: disable=W0718
        msg = TS.sub("<TS>", str(e))
        say(f"{label} !! {type(e).__name__}: {msg}")
    printed = buf.getvalue()
    if printed:
        for ln in printed.splitlines():
            say(f"   stdout| {TS.sub('<TS>', ln)}")


# ---------------------------------------------------------------------------
# data
# ---------------------------------------------------------------------------
ALPHABET = [
    "a", "B", "0", "7", " ", "  ", ",", ";", "|", "\t", '"', "'", "\n", "`", "#",
    "é", "ß", "日本", "🙂", " ", "x y", "-1", "0.0", "None", "", "$", "\\",
]


def make_cell(rnd):
    n = rnd.choice([0, 1, 1, 2, 3, 5])
    return "".join(rnd.choice(ALPHABET) for _ in range(n))


def make_records(rnd):
    nrec = rnd.randint(0, 12)
    recs = []
    for _ in range(nrec):
        if rnd.random() < 0.2:
            recs.append([])
        else:
            recs.append([make_cell(rnd) for _ in range(rnd.randint(0, 6))])
    return recs


def write_csv(path, recs, delimiter, quotechar):
    with open(path, "w", encoding="utf-8", newline="") as f:
        w = csv.writer(f, delimiter=delimiter, quotechar=quotechar)
        for r in recs:
            w.writerow(r)


FIXED = {
    "empty": [],
    "only_blank": [[], [], []],
    "header_only": [["a", "b", "c"]],
    "blank_first": [[], [], [" a ", "b;", "c,|"], ["1", "2", "3"], [], ["4"]],
    "ragged": [["a", "b", "c"], ["1"], ["1", "2"], ["1", "2", "3"], ["1", "2", "3", "4"], []],
    "zeros": [["n", "m"], ["0", ""], ["", "0"], ["0", "0"], ["", ""], [" ", "  "]],
    "quoted": [["q,1", 'q"2', "q'3", "q\n4"], ["a,b", 'c"d', "e'f", "g\nh"], ["\n", ",", '"', "'"]],
    "unicode": [["名前", "größe", "🙂"], ["日本", "ß", "é"], [" ", "x y", "ｆｕｌｌ"]],
    "trailing_blank": [["a", "b"], ["1", "2"], [], []],
    "single_empty_cell": [[""], [""], ["x"]],
    "numeric_headers": [["0", "1", "2"], ["p", "q", "r"], ["s", "t"]],
    "dup_headers": [["a", "a", "b"], ["1", "2", "3"]],
}
DIALECTS = [(",", '"'), (";", '"'), ("|", "'"), ("\t", "'"), (",", "'"), ("\t", '"')]


def dialect_name(d, q):
    return {",": "comma", ";": "semi", "|": "pipe", "\t": "tab"}[d] + (
        "_dq" if q == '"' else "_sq"
    )


FILES = []  # (name, path, delimiter, quotechar, records)
for name, recs in FIXED.items():
    for d, q in DIALECTS[:4]:
        path = f"data/{name}_{dialect_name(d, q)}.csv"
        write_csv(path, recs, d, q)
        FILES.append((f"{name}_{dialect_name(d, q)}", path, d, q, recs))
rnd = random.Random(60606)
for i in range(40):
    recs = make_records(rnd)
    d, q = DIALECTS[i % len(DIALECTS)]
    path = f"data/rnd{i:02d}_{dialect_name(d, q)}.csv"
    write_csv(path, recs, d, q)
    FILES.append((f"rnd{i:02d}_{dialect_name(d, q)}", path, d, q, recs))


# ---------------------------------------------------------------------------
# 1. the readers themselves
# ---------------------------------------------------------------------------
say("=== 1. readers: CsvDataReader / DataFileReader factory / S3DataReader")
for name, path, d, q, recs in FILES:
    say(f"--- {name} delimiter={d!r} quotechar={q!r} records={len(recs)}")
    direct = CsvDataReader(path, delimiter=d, quotechar=q)
    say("  type", type(direct).__name__, "path", direct.path)
    lines = list(direct.next())
    say("  direct   ", lines)
    say("  same as written:", lines == recs)
    # repeated runs of the same reader instance start over from the top
    say("  again    ", list(direct.next()) == lines)
    fact = DataFileReader(path, delimiter=d, quotechar=q)
    say("  factory  ", type(fact).__name__, list(fact.next()) == lines)
    # default dialect on the same bytes
    dflt = DataFileReader(path)
    attempt("  default dialect", lambda: list(dflt.next()))
    s3 = S3DataReader(path, delimiter=d, quotechar=q)
    say("  s3 type  ", type(s3).__name__, isinstance(s3, CsvDataReader))
    s3lines = list(s3.next())
    say("  s3       ", s3lines == lines, len(s3lines))
    # partial consumption then close
    g = direct.next()
    first = next(g, "<none>")
    g.close()
    say("  first    ", first)
    # two interleaved iterations of one reader
    g1, g2 = direct.next(), direct.next()
    inter = []
    for a in g1:
        inter.append((a, next(g2, "<none>")))
    say("  interleaved ok", all(a == b for a, b in inter), len(inter))

say("=== 1b. reader construction and failure modes")
attempt("csv with sheet arg", lambda: CsvDataReader("data/ragged_comma_dq.csv", sheet="s"))
attempt("csv with # in path", lambda: CsvDataReader("data/ragged_comma_dq.csv#s"))
attempt("factory csv with # in path", lambda: DataFileReader("data/ragged_comma_dq.csv#s"))
attempt("s3 with # in path", lambda: S3DataReader("data/ragged_comma_dq.csv#s"))
attempt("missing file: construct", lambda: type(CsvDataReader("data/nope.csv")).__name__)
attempt("missing file: next() call is lazy", lambda: type(CsvDataReader("data/nope.csv").next()).__name__)
attempt("missing file: iterate", lambda: list(CsvDataReader("data/nope.csv").next()))
attempt("missing file: s3 iterate", lambda: list(S3DataReader("data/nope.csv").next()))
attempt("directory: iterate", lambda: list(CsvDataReader("data").next()))
attempt("bad delimiter", lambda: list(CsvDataReader("data/ragged_comma_dq.csv", delimiter=",,").next()))
attempt("bad quotechar", lambda: list(CsvDataReader("data/ragged_comma_dq.csv", quotechar="").next()))
attempt("s3 bad delimiter", lambda: list(S3DataReader("data/ragged_comma_dq.csv", delimiter=",,").next()))
attempt("None dialect means defaults", lambda: list(CsvDataReader("data/ragged_comma_dq.csv", delimiter=None, quotechar=None).next()))
with open("data/latin1.csv", "wb") as f:
    f.write("a,b\n\xe9,1\n".encode("latin-1"))
attempt("not utf-8", lambda: list(CsvDataReader("data/latin1.csv").next()))
with open("data/nul.csv", "wb") as f:
    f.write(b"a,b\n1,\x002\n3,4\n")
attempt("NUL byte", lambda: list(CsvDataReader("data/nul.csv").next()))
with open("data/crlf.csv", "wb") as f:
    f.write(b"a,b\r\n1,2\r\n\r\n3,\"x\r\ny\"\r\n")
attempt("crlf", lambda: list(CsvDataReader("data/crlf.csv").next()))
attempt("crlf s3", lambda: list(S3DataReader("data/crlf.csv").next()))
with open("data/noeol.csv", "wb") as f:
    f.write(b"a,b\n1,2")
attempt("no final newline", lambda: list(CsvDataReader("data/noeol.csv").next()))
with open("data/openquote.csv", "wb") as f:
    f.write(b'a,b\n1,"2\n3,4\n')
attempt("unterminated quote", lambda: list(CsvDataReader("data/openquote.csv").next()))

say("=== 1x. which reader does DataFileReader(...) make")


def describe(r):
    d = {"type": type(r).__name__, "path": r.path}
    for k in sorted(vars(r)):
        v = vars(r)[k]
        d[k] = f"<{type(v).__name__}>" if hasattr(v, "rows") else v
    return d


PATHS = [
    "data/ragged_comma_dq.csv",
    "data/ragged_comma_dq.csv#",
    "data/ragged_comma_dq.csv#sheet",
    "data/some.xlsx",
    "data/some.xlsx#",
    "data/some.xlsx#two",
    "data/some.xlsx#data/some.xlsx",
    "data/some.xlsx#a#b",
    "data/some.XLSX",
    "data/somexlsx",
    "xlsx",
    "data/some.xlsx.csv",
    "data/some.xls",
    "s3://bucket/key.csv",
    "s3://bucket/key.xlsx",
    "s3://bucket/key.csv#x",
    "S3://bucket/key.csv",
    "xs3://bucket/key.csv",
    "s3:/bucket/key.csv",
    "",
    "#",
    "#only",
    "frame",
    "frame#sheet",
    "frame.xlsx",
    "s3://frame",
    "notframe",
    "data/registered.csv",
]
FRAME = FakeDataFrame([["a", "b"], [1, 2], [], ["x"]])
DataFileReader.register_data(path="frame", filelike=FRAME)
DataFileReader.register_data(path="frame.xlsx", filelike=FRAME)
DataFileReader.register_data(path="s3://frame", filelike=FRAME)
DataFileReader.register_data(path="notframe", filelike=NotAFrame([["a"]]))
DataFileReader.register_data(path="data/registered.csv", filelike=io.StringIO("a,b\n"))
write_csv("data/registered.csv", [["r", "s"], ["1", "2"]], ",", '"')
say("registered", sorted(DataFileReader.DATA))
for path in PATHS:
    for filetype in (None, "xlsx", "csv", "XLSX", "", "s3"):
        for d, q in ((None, None), (";", "'")):
            attempt(
                f"  DataFileReader({path!r}, filetype={filetype!r}, delimiter={d!r}, quotechar={q!r})",
                lambda: describe(DataFileReader(path, filetype=filetype, delimiter=d, quotechar=q)),
            )
    attempt(f"  DataFileReader({path!r}, sheet='given')", lambda: describe(DataFileReader(path, sheet="given")))
    attempt(f"  DataFileReader({path!r}) rows", lambda: list(DataFileReader(path).next()))
for bad in (None, 5, b"data/x.csv", ["data/x.csv"]):
    attempt(f"  DataFileReader({bad!r})", lambda: describe(DataFileReader(bad)))
attempt("  DataFileReader()", lambda: DataFileReader())
attempt("  DataFileReader(path, ',')", lambda: DataFileReader("data/ragged_comma_dq.csv", ","))
attempt("  DataFileReader(path=)", lambda: describe(DataFileReader(path="data/ragged_comma_dq.csv")))
say("--- concrete classes are constructed directly, no selection")
from csvpath.util.pandas_data_reader import PandasDataReader  # noqa: E402

for cls in (CsvDataReader, XlsxDataReader, S3DataReader, PandasDataReader):
    for path in ("data/ragged_comma_dq.csv", "data/some.xlsx#two", "s3://bucket/key.csv", "frame"):
        attempt(f"  {cls.__name__}({path!r})", lambda: describe(cls(path, delimiter="|")))
say("--- deregistering changes the selection")
DataFileReader.deregister_data("frame")
attempt("  frame after deregister", lambda: describe(DataFileReader("frame")))
attempt("  deregister twice", lambda: DataFileReader.deregister_data("frame"))
DataFileReader.register_data(path="data/ragged_comma_dq.csv", filelike=FRAME)
attempt("  csv path shadowed by a frame", lambda: (lambda r: (describe(r), list(r.next())))(DataFileReader("data/ragged_comma_dq.csv")))
p = CsvPath()
attempt("  CsvPath over the shadowed path", lambda: (p.parse("$data/ragged_comma_dq.csv[*][yes()]"), p.collect(), p.headers)[1:])
DataFileReader.deregister_data("data/ragged_comma_dq.csv")
attempt("  and back", lambda: (lambda r: (describe(r), list(r.next())))(DataFileReader("data/ragged_comma_dq.csv")))
for k in ("frame.xlsx", "s3://frame", "notframe", "data/registered.csv"):
    DataFileReader.deregister_data(k)
say("registered", sorted(DataFileReader.DATA))
say("module public names", sorted(n for n in dir(sys.modules["csvpath.util.file_readers"]) if not n.startswith("_")))
from csvpath.managers.files.file_manager import FileManager  # noqa: E402

for path, ft in (("data/ragged_pipe_sq.csv", None), ("data/ragged_pipe_sq.csv", "xlsx"), ("data/some.xlsx#s", "csv"), ("s3://b/k", None)):
    attempt(f"  FileManager.get_reader({path!r}, filetype={ft!r})", lambda: describe(FileManager.get_reader(path, filetype=ft, delimiter="|", quotechar="'")))

say("=== 1c. file_metadata / next_raw / registry")
for cls in (CsvDataReader, XlsxDataReader, S3DataReader):
    attempt(f"{cls.__name__}.file_metadata existing", lambda: cls("data/ragged_comma_dq.csv").file_metadata())
    attempt(f"{cls.__name__}.file_metadata missing", lambda: cls("data/nope.csv").file_metadata())
    attempt(f"{cls.__name__}.next_raw", lambda: list(cls("data/ragged_comma_dq.csv").next_raw()))
attempt("xlsx by filetype", lambda: type(DataFileReader("data/ragged_comma_dq.csv", filetype="xlsx")).__name__)
attempt("xlsx by extension + sheet", lambda: (lambda r: (type(r).__name__, r.path, r._sheet))(DataFileReader("data/some.xlsx#two")))
attempt("xlsx missing iterate", lambda: list(DataFileReader("data/some.xlsx").next()))
attempt("s3 by scheme", lambda: (lambda r: (type(r).__name__, r.path))(DataFileReader("s3://bucket/key.csv", delimiter=";")))
say("abstract methods", sorted(DataFileReader.__abstractmethods__))
say("CsvDataReader abstract", sorted(CsvDataReader.__abstractmethods__))
say("public names CsvDataReader", sorted(n for n in dir(CsvDataReader) if not n.startswith("_")))
say("public names S3DataReader", sorted(n for n in dir(S3DataReader) if not n.startswith("_")))
say("mro", [c.__name__ for c in S3DataReader.__mro__])


# a user subclass that overrides next() entirely keeps working
class Upper(CsvDataReader):
    def next(self):
        for line in super().next():
            yield [c.upper() for c in line]


say("subclass", list(Upper("data/ragged_comma_dq.csv").next()))


# ---------------------------------------------------------------------------
# 2. CsvPath on top of the readers
# ---------------------------------------------------------------------------
def run_path(path, d, q, pathstr, *, skip_blank=True, method="collect"):
    p = CsvPath(delimiter=d, quotechar=q, skip_blank_lines=skip_blank)
    p.config.csvpath_errors_policy = ["collect", "print"]
    res = {}

    def go():
        p.parse(pathstr.replace("FILE", path))
        if method == "collect":
            return p.collect()
        if method == "next":
            return [ln for ln in p.next()]
        p.fast_forward()
        return None

    attempt(f"  {method} {pathstr!r} skip_blank={skip_blank}", go)
    say("    headers", p._headers, "valid", p.is_valid, "stopped", p.stopped)
    say("    vars", json.dumps(p.variables, sort_keys=True, default=str, ensure_ascii=False))
    say("    counts", p.scan_count, p.match_count, "monitor", p._line_monitor.dump() if p._line_monitor else None)
    say("    errors", [(type(e).__name__, e.message, e.line_count) for e in (p.errors or [])])
    return res


say("=== 2. CsvPath collect/next/fast_forward")
for name, path, d, q, recs in FILES:
    say(f"--- {name}")
    p = CsvPath(delimiter=d, quotechar=q)
    p.parse(f"${path}[*][yes()]")
    got = p.collect()
    expect = [r for r in recs if len(r) > 0]
    say("  all lines", got)
    say("  equals nonblank records", got == expect)
    first = next((r for r in recs if len(r) > 0), [])
    say("  headers", p.headers, "expected-first", first)
    p2 = CsvPath(delimiter=d, quotechar=q, skip_blank_lines=False)
    p2.parse(f"${path}[*][yes()]")
    attempt("  keep blanks", p2.collect)
    lc = LineCounter(CsvPath(delimiter=d, quotechar=q))
    lm, hs = lc.get_lines_and_headers(path)
    say("  counter", hs, lm.dump())

say("=== 2b. header name / index / missing on short rows")
for name in ("ragged", "blank_first", "zeros", "numeric_headers", "dup_headers", "quoted", "unicode"):
    for d, q in DIALECTS[:4]:
        path = f"data/{name}_{dialect_name(d, q)}.csv"
        say(f"--- {name} {dialect_name(d, q)}")
        run_path(path, d, q, "$FILE[*][ @n0 = #0 @n1 = #1 @n2 = #2 @n3 = #3 push(\"c\", count_headers_in_line()) ]")
        run_path(path, d, q, "$FILE[1*][ #2 push(\"two\", #2) ]")
        run_path(path, d, q, "$FILE[1*][ not(#2) push(\"lines\", line_number()) ]", method="next")
        run_path(path, d, q, "$FILE[*][ collect(0) ]")
        run_path(path, d, q, "$FILE[*][ collect(0, 2) ]")
        run_path(path, d, q, "$FILE[*][ yes() ]", skip_blank=False, method="next")
        run_path(path, d, q, "$FILE[*][ last() -> @last = line_number() @t = total_lines() ]", method="fast_forward")
for d, q in DIALECTS[:4]:
    path = f"data/ragged_{dialect_name(d, q)}.csv"
    say(f"--- ragged by name {dialect_name(d, q)}")
    run_path(path, d, q, "$FILE[*][ @a = #a @b = #b @c = #c #c == #2 ]")
    run_path(path, d, q, "$FILE[*][ @same = equals(#b, #1) push(\"b\", #b) push(\"i\", #1) ]")
    run_path(path, d, q, "$FILE[*][ #nosuch ]")
    run_path(path, d, q, "$FILE[1-3][ append(\"x\", \"y\") ]")
    run_path(path, d, q, "$FILE[*][ replace(#0, \"z\") ]")
    run_path(path, d, q, "$FILE[2*][ reset_headers() push(\"h\", header_name(0)) ]")
    path = f"data/blank_first_{dialect_name(d, q)}.csv"
    say(f"--- blank_first by cleaned name {dialect_name(d, q)}")
    run_path(path, d, q, "$FILE[*][ @a = #a @b = #b @c = #c ]")
    run_path(path, d, q, "$FILE[*][ @a = #a ]", skip_blank=False)

say("=== 2c. missing / odd files through CsvPath")
run_path("data/nope.csv", ",", '"', "$FILE[*][yes()]")
run_path("data/openquote.csv", ",", '"', "$FILE[*][yes()]")
run_path("data/nul.csv", ",", '"', "$FILE[*][yes()]")
run_path("data/crlf.csv", ",", '"', "$FILE[*][yes()]")


# ---------------------------------------------------------------------------
# 3. CsvPaths with archive
# ---------------------------------------------------------------------------
VOLATILE = re.compile(r"^(time|time_completed|run_time|lines_time|last_line_time|uuid|named_paths_uuid|run_started_at|file_fingerprints|trace|run)$")
RUNSFX = re.compile(r"<TS>\.\d+")


def scrub(o):
    if isinstance(o, dict):
        return {k: ("<V>" if VOLATILE.search(k) else scrub(v)) for k, v in o.items()}
    if isinstance(o, list):
        return [scrub(v) for v in o]
    if isinstance(o, str):
        s = RUNSFX.sub("<TS>", TS.sub("<TS>", o))
        s = s.replace(os.getcwd(), "<CWD>")
        s = re.sub(r"\d{4}-\d{2}-\d{2}[T ]\d{2}:\d{2}:\d{2}[.\d+:Z]*", "<DT>", s)
        return s
    return o


def run_key(name):
    m = re.fullmatch(r"(\d{4}-\d{2}-\d{2}_\d{2}-\d{2}-\d{2})(?:\.(\d+))?", name)
    if not m:
        return (name, -2)
    return (m.group(1), -1 if m.group(2) is None else int(m.group(2)))


def dump_tree(root):
    if not os.path.exists(root):
        say(f"  (no {root})")
        return
    for dirpath, dirnames, filenames in os.walk(root):
        # run directories are <timestamp>[.<n>]; order them chronologically and
        # show them by ordinal so that the transcript does not depend on the clock
        dirnames.sort(key=run_key)
        for fn in sorted(filenames):
            full = os.path.join(dirpath, fn)
            parts = []
            for i, part in enumerate(full.split(os.sep)):
                if TS.fullmatch(part.split(".")[0]) and os.path.isdir(os.sep.join(full.split(os.sep)[: i + 1])):
                    parent = os.sep.join(full.split(os.sep)[:i])
                    sibs = sorted((d for d in os.listdir(parent) if TS.match(d)), key=run_key)
                    part = f"<RUN {sibs.index(part)}>"
                parts.append(part)
            shown = os.sep.join(parts)
            say(f"  file {shown}")
            if fn.endswith(".json"):
                try:
                    with open(full, encoding="utf-8") as f:
                        j = json.load(f)
                    say("     ", json.dumps(scrub(j), sort_keys=True, ensure_ascii=False))
                except Exception as e:  # pylint: disable=W0718
                    say("      unreadable json", type(e).__name__)
            elif fn.endswith((".csv", ".txt")):
                with open(full, encoding="utf-8", newline="") as f:
                    say("     ", repr(scrub(f.read())))


say("=== 3. CsvPaths")
for tag, d, q in (("comma_dq", ",", '"'), ("pipe_sq", "|", "'"), ("tab_sq", "\t", "'")):
    cp = CsvPaths(delimiter=d, quotechar=q)
    for name in ("ragged", "blank_first", "quoted", "unicode", "empty", "trailing_blank"):
        cp.file_manager.add_named_file(name=f"{name}_{tag}", path=f"data/{name}_{tag}.csv")
    cp.paths_manager.add_named_paths(
        name=f"p_{tag}",
        paths=[
            "~id:all~ $[*][yes()]",
            "~id:two unmatched-mode:keep~ $[*][#2]",
            "~id:proj~ $[*][collect(0)]",
            "~id:pr~ $[*][print(\"$.csvpath.line_number: $.headers.0 / $.headers.1\")]",
        ],
    )
    for name in ("ragged", "blank_first", "quoted", "unicode", "empty", "trailing_blank"):
        say(f"--- {tag} {name}")
        attempt("  collect_paths", lambda: cp.collect_paths(filename=f"{name}_{tag}", pathsname=f"p_{tag}"))
        try:
            for r in cp.results_manager.get_named_results(f"p_{tag}"):
                say("   result", r.csvpath.identity, "valid", r.is_valid, "lines", list(r.lines.next()) if r.lines is not None else None)
                say("     unmatched", r.unmatched, "errors", [e.message for e in (r.errors or [])])
                say("     printouts", r.printouts, "headers", r.csvpath.headers)
        except BaseException as e:  # pylint: disable=W0718
            say("   results !!", type(e).__name__, e)
    say(f"--- {tag} by-line run")
    attempt("  collect_by_line", lambda: cp.collect_by_line(filename=f"ragged_{tag}", pathsname=f"p_{tag}"))
    attempt("  fast_forward_paths", lambda: cp.fast_forward_paths(filename=f"quoted_{tag}", pathsname=f"p_{tag}"))
    attempt("  next_paths", lambda: [ln for ln in cp.next_paths(filename=f"unicode_{tag}", pathsname=f"p_{tag}")])
say("--- archive")
dump_tree("archive")
say("--- cache (entry names are hashes of path+size+mtime: shown by content only)")
entries = []
for fn in os.listdir("cache"):
    with open(os.path.join("cache", fn), encoding="utf-8", newline="") as f:
        entries.append((fn.split(".")[-1], f.read()))
for ext, content in sorted(entries):
    say(f"  cache <SHA>.{ext} {content!r}")

sys.stdout.write("\n".join(OUT) + "\n")
