#!/usr/bin/env python
"""Differential demonstration for refactoring t3 (Expression.matches, Equality.matches/_do_equality,
Function.matches validation-mode handling).

Run in an empty scratch directory (NOT in the source tree):

    mkdir -p /tmp/demo_TWC01_3 && cd /tmp/demo_TWC01_3
    PYTHONPATH=<csvpath tree> /venv/bin/python demo.py > out.txt

The script is self-contained: it writes its own ./config/config.ini (offline,
no listeners), its own CSV files and prints a deterministic transcript of
everything observable: returned lines, unmatched lines, variables, counters,
validity, stopped flag, collected errors (without traces/timestamps),
printouts and raised exceptions; for CsvPaths runs also the archive listing
and file contents with run-dir timestamps, uuids, times and traces normalised.
"""
import contextlib
import io
import json
import os
import random
import re
import shutil
import sys

CONFIG = """[csvpath_files]
extensions = txt, csvpath, csvpaths

[csv_files]
extensions = txt, csv, tsv, dat, tab, psv, ssv

[errors]
csvpath = raise, collect, stop, fail, print
csvpaths = raise, collect

[logging]
csvpath = info
csvpaths = info
log_file = logs/csvpath.log
log_files_to_keep = 100
log_file_size = 52428800

[config]
path = config/config.ini

[cache]
path = cache

[listeners]
[marquez]
base_url = http://localhost:5000

[functions]
imports = config/functions.imports

[results]
archive = archive
transfers = transfers

[inputs]
files = inputs/named_files
csvpaths = inputs/named_paths
on_unmatched_file_fingerprints = halt
"""

FILES = {
    # header, numbers, text, empty cells, zero, multi-digit numbers, a blank
    # line in the middle, ragged (short and long) rows
    "basic.csv": "a,b,c\n1,2,3\n\n4,5\nx,,z,w\n0,0,0\n10,200,3000\n7,7,7\n,,\n12,y,12\n",
    # same but the file ends with a blank line (last line blank)
    "trailing.csv": "a,b,c\n1,2,3\n4,5,6\n\n7,8,9\n\n",
    # only a header
    "header_only.csv": "a,b,c\n",
    # empty file
    "empty.csv": "",
    # blank first line, blank lines in a row, whitespace cells
    "blanks.csv": "\n\na,b,c\n 1 , 2 ,3\n\n\n3,2,1\n",
    # one column, repeated values, zero and negative numbers
    "single.csv": "n\n0\n1\n1\n-5\n22\n\n0\n",
    # quoted and ragged
    "ragged.csv": 'a,b,c\n"1,5",2\n3\n4,5,6,7,8\n"",""\n9,9,9\n',
}


def setup() -> None:
    for d in ("archive", "cache", "inputs", "logs", "transfers", "config"):
        shutil.rmtree(d, ignore_errors=True)
    os.makedirs("config", exist_ok=True)
    with open("config/config.ini", "w", encoding="utf-8") as f:
        f.write(CONFIG)
    with open("config/functions.imports", "w", encoding="utf-8") as f:
        f.write("")
    for name, content in FILES.items():
        with open(name, "w", encoding="utf-8") as f:
            f.write(content)


setup()

from csvpath import CsvPath, CsvPaths  # noqa: E402  pylint: disable=C0413


def out(*args) -> None:
    print(*args)


def show_errors(p) -> None:
    es = p.errors
    out("  errors:", 0 if es is None else len(es))
    for e in es or []:
        out(
            "    -",
            e.error.__class__.__name__,
            "|",
            f"{e.error}",
            "| line",
            e.line_count,
            "match",
            e.match_count,
            "scan",
            e.scan_count,
            "| source",
            re.sub(r"0x[0-9a-f]+", "0x?", f"{e.source}"),
            "| msg",
            e.message,
        )


def show_state(p) -> None:
    out("  variables:", repr(p.variables))
    out(
        "  is_valid:",
        p.is_valid,
        "stopped:",
        p.stopped,
        "match_count:",
        p.match_count,
        "scan_count:",
        p.scan_count,
        "advance_count:",
        p.advance_count,
    )
    lm = p.line_monitor
    out(
        "  line_monitor: physical",
        lm.physical_line_number,
        "data",
        lm.data_line_number,
        "end",
        lm.physical_end_line_number,
        "data_count",
        lm.data_line_count,
    )
    out("  unmatched:", repr(p.unmatched))
    out("  frozen:", p._freeze_path, "metadata:", repr(p.metadata))  # pylint: disable=W0212
    show_errors(p)
    for i, pr in enumerate(p.printers):
        out(f"  printer[{i}] lines_printed:", pr.lines_printed, "last:", repr(pr.last_line))


def run_standalone(label, path, *, how="collect", policy=None, tweak=None) -> None:
    out("=" * 78)
    out(f"RUN {label} how={how} policy={policy}")
    out("  csvpath:", path)
    buf = io.StringIO()
    p = CsvPath()
    lines = None
    try:
        with contextlib.redirect_stdout(buf):
            if policy is not None:
                p.config.csvpath_errors_policy = policy
            p.parse(path)
            if tweak is not None:
                tweak(p)
            if how == "collect":
                lines = p.collect()
            elif how == "collect2":
                lines = p.collect(2)
            elif how == "next":
                lines = []
                for line in p.next():
                    # what the caller sees at the time of the yield
                    lines.append(
                        (
                            p.line_monitor.physical_line_number,
                            p.match_count,
                            p.scan_count,
                            list(line),
                        )
                    )
            elif how == "ff":
                p.fast_forward()
            elif how == "next_break":
                lines = []
                for line in p.next():
                    lines.append(list(line))
                    if len(lines) == 2:
                        break
            else:
                raise ValueError(how)
    except Exception as ex:  # pylint: disable=W0718
        out("  RAISED:", ex.__class__.__name__, "|", f"{ex}")
        c = ex.__cause__
        while c is not None:
            out("    caused by:", c.__class__.__name__, "|", f"{c}")
            c = c.__cause__
    out("  lines:", repr(lines if lines is None else list(lines)))
    try:
        show_state(p)
    except Exception as ex:  # pylint: disable=W0718
        out("  STATE RAISED:", ex.__class__.__name__, "|", f"{ex}")
    printed = buf.getvalue()
    out("  stdout:")
    for ln in printed.splitlines():
        out("    |" + ln)



# ----------------------------------------------------------------------------
# 1. hand written csvpaths: equality tests, assignments, when/do, functions whose
#    argument validation fails on some lines
# ----------------------------------------------------------------------------
CORE = [
    # --- equality tests: strings, numbers, empties, whitespace, functions
    ("eq-int", "[#a == 1]"),
    ("eq-str", '[#a == "1"]'),
    ("eq-float", "[#a == 1.0]"),
    ("eq-zero", "[#a == 0]"),
    ("eq-zero-str", '[#a == "0"]'),
    ("eq-big", "[#c == 3000]"),
    ("eq-text", '[#a == "x"]'),
    ("eq-headers", "[#a == #b]"),
    ("eq-headers-ac", "[#a == #c]"),
    ("eq-empty", '[#b == ""]'),
    ("eq-none", "[#b == none()]"),
    ("eq-var-unset", "[@nope == #b]"),
    ("eq-short-row", '[#c == "3"]'),
    ("eq-beyond", '[#3 == "w"]'),
    ("eq-unknown", '[#zzz == "w"]'),
    ("eq-count", "[count() == 2]"),
    ("eq-line", "[line_number() == 4]"),
    ("eq-add", "[add(#a, 1) == 2]"),
    ("eq-length", "[length(#b) == 0]"),
    ("eq-upper", '[upper(#a) == "X"]'),
    ("eq-concat", '[concat(#a, #b) == "45"]'),
    ("eq-bools", "[yes() == no()]"),
    ("eq-bool-str", '[yes() == "True"]'),
    ("eq-not", "[not(#b) == yes()]"),
    ("eq-empty-fn", "[empty(#b) == yes()]"),
    ("eq-mult-float", "[multiply(#a, 1.0) == #a]"),
    ("eq-divide", "[divide(#c, #a) == 3]"),
    ("eq-int-fn", "[int(#a) == 7]"),
    ("eq-float-fn", "[float(#a) == 7]"),
    ("eq-mod", "[mod(#a, 2) == 1]"),
    ("eq-in-not", "[not(#a == 7)]"),
    ("eq-in-and", "[and(#a == 7, #b == 7)]"),
    ("eq-in-or", "[or(#a == 1, #a == 4)]"),
    ("eq-in-count", "[count(#a == 7) == 1]"),
    ("eq-two", '[#a == 7 #b == "7"]'),
    ("eq-var", "[@x = #a @x == 7]"),
    # --- assignments and their qualifiers
    ("as-plain", "[@x = #a]"),
    ("as-none", "[@x = none()]"),
    ("as-notnone", "[@x.notnone = #b]"),
    ("as-latch", "[@x.latch = #a]"),
    ("as-onchange", "[@x.onchange = #a]"),
    ("as-increase", "[@x.increase = int(#c)]"),
    ("as-decrease", "[@x.decrease = int(#c)]"),
    ("as-asbool", "[@x.asbool = #b]"),
    ("as-nocontrib", "[@x.nocontrib = #b no()]"),
    ("as-onmatch", "[@x.onmatch = #a gt(#c, 3)]"),
    ("as-count", "[@c = count() #b]"),
    ("as-has-matches", "[@h = has_matches() #b]"),
    ("as-tracking", "[@x.fish = #a]"),
    ("as-var", "[@x = #a @y = @x]"),
    ("as-self", "[@x = add(@x, 1)]"),
    ("as-latch-onchange", "[@x.latch.onchange = #b]"),
    ("as-asbool-nocontrib", "[@x.asbool.nocontrib = #b #c]"),
    ("as-notnone-increase", "[@x.notnone.increase = length(#b)]"),
    # --- when/do
    ("wd-eq", "[#a == 7 -> @s = line_number()]"),
    ("wd-header", "[#b -> @s = #b]"),
    ("wd-not", "[not(#b) -> @e = line_number()]"),
    ("wd-print", '[yes() -> print("l$.csvpath.line_number")]'),
    ("wd-no", '[no() -> print("never")]'),
    ("wd-nocontrib", "[#a.nocontrib == 7 -> @n = 1 #b]"),
    ("wd-last", "[last() -> @l = count_lines()]"),
    ("wd-latch", "[gt(#c, 3) -> @x.latch = #a]"),
    ("wd-skip", "[#a == 4 -> skip() @seen = line_number()]"),
    ("wd-fail", "[#a == 4 -> fail()]"),
    ("wd-two", "[#a == 7 -> @s = 1 #b == 7 -> @t = 2]"),
    ("wd-error-left", "[gt(add(#a, 1), 3) -> @s = line_number()]"),
    ("wd-error-right", "[yes() -> @s = add(#a, 1)]"),
    # --- functions whose arg validation fails on some lines / never / always
    ("fn-gt-add", "[gt(add(#a, 1), 3)]"),
    ("fn-add", "[add(#a, #b)]"),
    ("fn-between", "[between(#a, 1, 8)]"),
    ("fn-in", '[in(#a, "1|7|x")]'),
    ("fn-int", "[int(#a)]"),
    ("fn-divide", "[divide(#c, #a)]"),
    ("fn-starts", '[starts_with(#a, "1")]'),
    ("fn-regex", "[regex(/^[0-9]+$/, #a)]"),
    ("fn-empty", "[empty(#b)]"),
    ("fn-exists", "[exists(#c)]"),
    ("fn-all", "[all(#a, #b, #c)]"),
    ("fn-length", "[gt(length(#a), 1)]"),
    ("fn-lower-num", "[lower(add(#a, 1))]"),
    ("fn-subtract-text", '[subtract(#a, "q")]'),
    ("fn-notnone", "[add.notnone(#a, #b)]"),
    ("fn-onmatch", "[gt.onmatch(add(#a, 1), 3) #b]"),
    ("fn-count", "[@c = count(#a == 7)]"),
    ("fn-count-lines", "[count_lines() == 3]"),
    ("fn-count-scans", "[count_scans() == 2]"),
    ("fn-increment", "[increment.i(gt(#c, 3), 2)]"),
    ("fn-every", "[every.e(#b == 7, 2)]"),
    ("fn-tally", "[tally(#a) no()]"),
    ("fn-counter", "[counter.k(2)]"),
    ("fn-sum", "[@s = sum(#a)]"),
    ("fn-max", "[@m = max(#c)]"),
    ("fn-min", "[@m = min(#a)]"),
    ("fn-first", "[first(#a)]"),
    ("fn-has-dups", "[has_dups(#a)]"),
    ("fn-nested-bad", "[and(gt(add(#a, 1), 3), lt(subtract(#b, 1), 100))]"),
    ("fn-two-bad", "[gt(add(#a, 1), 3) lt(subtract(#b, 1), 100)]"),
    ("fn-wrong-arity", "[add(#a)]"),
    ("fn-wrong-type", "[print(yes())]"),
]
MODES = [
    ("and", "~ validation-mode: no-raise, no-stop, print ~"),
    ("or", "~ logic-mode: OR validation-mode: no-raise, no-stop, print ~"),
    ("and-match-errors", "~ validation-mode: no-raise, no-stop, no-print, match ~"),
    ("and-nomatch-errors", "~ validation-mode: no-raise, no-stop, no-print, no-match ~"),
    ("or-match-errors", "~ logic-mode: OR validation-mode: no-raise, no-stop, no-print, match ~"),
    ("and-stop", "~ validation-mode: no-raise, stop, print ~"),
    ("and-fail", "~ validation-mode: no-raise, no-stop, fail, no-print ~"),
    ("and-stop-fail-match", "~ validation-mode: no-raise, stop, fail, match, print ~"),
    ("and-raise", "~ validation-mode: raise, no-print ~"),
    ("and-inverted", "~ return-mode: no-matches unmatched-mode: keep validation-mode: no-raise, no-stop, print ~"),
    ("and-explain", "~ explain-mode: explain validation-mode: no-raise, no-stop, no-print ~"),
    ("and-config", ""),
]
CORE_FILES = ["basic.csv", "blanks.csv"]

for mname, comment in MODES:
    for fname in CORE_FILES:
        for label, match in CORE:
            if mname.startswith("or") and ".onmatch" in match:
                continue
            run_standalone(
                f"{label}/{mname}/{fname}",
                f"{comment} ${fname}[*]{match}",
                how="collect",
                policy=["collect", "print"],
            )

# the same under other error policies
for policy in (None, ["raise", "collect"], ["collect", "stop", "fail"], ["quiet", "collect", "print"]):
    for label, match in CORE:
        if label.startswith(("fn-", "wd-error", "eq-unknown", "eq-beyond", "eq-divide", "eq-int-fn", "as-increase")):
            run_standalone(
                f"{label}/policy",
                f"$trailing.csv[*]{match}",
                how="next",
                policy=policy,
            )
            run_standalone(
                f"{label}/policy-or",
                f"~ logic-mode: OR ~ $ragged.csv[1*]{match}",
                how="collect",
                policy=policy,
            )

# repeated values / zero / negative numbers: latch, onchange, increase, decrease
SINGLE = [
    "[@x.latch = #n]",
    "[@x.onchange = #n]",
    "[@x.increase = int(#n)]",
    "[@x.decrease = int(#n)]",
    "[@x.notnone = #n]",
    "[@x.asbool = #n]",
    "[#n == 0]",
    '[#n == "0"]',
    "[#n == -5]",
    "[#n == 1 -> @ones = add(@ones, 1)]",
    "[@t = add(@t, int(#n)) gt(@t, 1)]",
    "[#n == #0]",
    "[@p = #n @p == #n]",
    "[gt(#n, 0)]",
    "[int(#n) == 22]",
    "[not(#n)]",
    "[equals(#n, 1)]",
]
for comment in ("~ validation-mode: no-raise, no-stop, print ~", "~ logic-mode: OR validation-mode: no-raise, no-stop, print ~"):
    for scan in ("*", "1*", "2-5"):
        for match in SINGLE:
            for how in ("collect", "next"):
                run_standalone(
                    "single",
                    f"{comment} $single.csv[{scan}]{match}",
                    how=how,
                    policy=["collect", "print"],
                )

# ----------------------------------------------------------------------------
# 2. generated csvpaths over the modelled function set
# ----------------------------------------------------------------------------
rnd = random.Random(424242)
HEADERS = ["#a", "#b", "#c", "#0", "#2"]
TERMS = ['"x"', '"7"', "0", "1", "3", "7", "12", '""', '"z"', "200"]


def gen_value(depth):
    r = rnd.random()
    if depth <= 0 or r < 0.35:
        return rnd.choice(HEADERS + TERMS + ["@v", "@w"])
    k = rnd.choice(
        ["add", "subtract", "multiply", "concat", "length", "upper", "lower", "count", "line_number", "mod"]
    )
    if k in ("count", "line_number"):
        return f"{k}()"
    if k in ("length", "upper", "lower"):
        return f"{k}({gen_value(depth - 1)})"
    return f"{k}({gen_value(depth - 1)}, {gen_value(depth - 1)})"


def gen_bool(depth):
    r = rnd.random()
    if depth <= 0 or r < 0.2:
        return rnd.choice(["yes()", "no()", "#a", "#b", "#c", "@v", "empty(#b)", "exists(#c)"])
    k = rnd.choice(["eq", "gt", "lt", "not", "and", "or", "in", "between", "empty", "equals"])
    if k == "eq":
        # the grammar does not take a term on the left of ==
        left = gen_value(depth - 1)
        while left in TERMS:
            left = gen_value(depth - 1)
        return f"{left} == {gen_value(depth - 1)}"
    if k in ("gt", "lt"):
        return f"{k}({gen_value(depth - 1)}, {gen_value(depth - 1)})"
    if k == "not":
        return f"not({gen_bool(depth - 1)})"
    if k in ("and", "or"):
        return f"{k}({gen_bool(depth - 1)}, {gen_bool(depth - 1)})"
    if k == "in":
        return f'in({gen_value(depth - 1)}, "1|7|x|12")'
    if k == "between":
        return f"between({gen_value(depth - 1)}, 0, 10)"
    if k == "empty":
        return f"empty({gen_value(depth - 1)})"
    return f"equals({gen_value(depth - 1)}, {gen_value(depth - 1)})"


def gen_component(depth):
    r = rnd.random()
    if r < 0.2:
        return f"@{rnd.choice('vw')} = {gen_value(depth - 1)}"
    if r < 0.3:
        q = rnd.choice([".onmatch", ".latch", ".onchange", ".notnone", ".increase", ".asbool", ".nocontrib"])
        return f"@{rnd.choice('vw')}{q} = {gen_value(depth - 1)}"
    if r < 0.36:
        return rnd.choice(["skip", "stop"]) + f"({gen_bool(depth - 1)})"
    if r < 0.5:
        rhs = rnd.choice(
            [
                f"@{rnd.choice('vw')} = {gen_value(depth - 2)}",
                'print("p $.csvpath.line_number")',
                "@hits = add(@hits, 1)",
            ]
        )
        return f"{gen_bool(depth - 1)} -> {rhs}"
    return gen_bool(depth - 1)


def gen_path(filename):
    n = rnd.randint(1, 6)
    comps = [gen_component(rnd.randint(1, 4)) for _ in range(n)]
    if rnd.random() < 0.25:
        comps.append("last() -> @done = count_lines()")
    mode = rnd.choice(["AND", "AND", "OR"])
    if mode == "OR":
        comps = [c for c in comps if ".onmatch" not in c] or ["yes()"]
    scan = rnd.choice(["*", "*", "1*", "1-6", "2+4+5", "0-3"])
    extra = rnd.choice(["", "", "", " return-mode: no-matches", " unmatched-mode: keep"])
    comment = f"~ logic-mode: {mode}{extra} validation-mode: no-raise, no-stop, print ~ "
    return f"{comment}${filename}[{scan}][{' '.join(comps)}]"


GEN_FILES = ["basic.csv", "trailing.csv", "blanks.csv", "single.csv", "ragged.csv"]
for i in range(220):
    fname = GEN_FILES[i % len(GEN_FILES)]
    path = gen_path(fname)
    run_standalone(f"gen-{i}", path, how="collect" if i % 3 else "next", policy=["collect", "print"])


# ----------------------------------------------------------------------------
# 3. CsvPaths: collect_paths / fast_forward_paths / next_by_line / collect_by_line
# ----------------------------------------------------------------------------
def norm(s: str) -> str:
    s = re.sub(r"\d{4}-\d{2}-\d{2}_\d{2}-\d{2}-\d{2}(_\d+|\.\d+)?", "<RUNDIR>", s)
    s = re.sub(r"\d{4}-\d{2}-\d{2}[T ]\d{2}:\d{2}:\d{2}(\.\d+)?(\+00:00|Z)?", "<TIME>", s)
    s = re.sub(r"[0-9a-f]{8}-[0-9a-f]{4}-[0-9a-f]{4}-[0-9a-f]{4}-[0-9a-f]{12}", "<UUID>", s)
    s = re.sub(r"0x[0-9a-f]+", "0x?", s)
    return s


VOLATILE_KEYS = (
    "trace",
    "at",
    "time",
    "uuid",
    "run_uuid",
    "hostname",
    "ip_address",
    "username",
    "total_iteration_time",
    "rows_time",
    "last_row_time",
    "cwd",
    "pid",
)


def volatile(k: str) -> bool:
    return (
        k in VOLATILE_KEYS
        or k.endswith("_time")
        or k.endswith("_at")
        or k == "named_file_last_change"
        # fingerprints of files that hold timestamps, uuids and traces
        or k in ("meta.json", "errors.json", "manifest.json")
    )


def scrub(o):
    if isinstance(o, dict):
        return {
            k: ("<X>" if volatile(k) else scrub(v))
            for k, v in o.items()
        }
    if isinstance(o, list):
        return [scrub(_) for _ in o]
    if isinstance(o, str):
        return norm(o.replace(os.getcwd(), "<CWD>"))
    return o


def dump_tree(root: str) -> None:
    out(f"  TREE {root}")
    if not os.path.exists(root):
        out("    (missing)")
        return
    entries = []
    for dirpath, dirnames, filenames in os.walk(root):
        dirnames.sort()
        for fn in sorted(filenames):
            entries.append(os.path.join(dirpath, fn))
    # normalise first, then sort, so that ordering does not depend on timestamps
    for full in sorted(entries, key=norm):
        out("    FILE", norm(full))
        try:
            with open(full, "r", encoding="utf-8") as f:
                content = f.read()
        except Exception as ex:  # pylint: disable=W0718
            out("      (unreadable)", ex.__class__.__name__)
            continue
        if full.endswith(".json"):
            try:
                j = scrub(json.loads(content))
                content = json.dumps(j, indent=1, sort_keys=True)
            except Exception:  # pylint: disable=W0718
                content = norm(content)
        else:
            content = norm(content.replace(os.getcwd(), "<CWD>"))
        for ln in content.splitlines():
            out("      |" + ln)


GROUP = [
    "~ id: skipper ~ $[*][@b = line_number() skip(#a == 4) @a = line_number()]",
    "~ id: onmatcher ~ $[*][@m.onmatch = count() gt(#a, 3) print.onmatch(\"hit $.csvpath.line_number\")]",
    "~ id: orer logic-mode: OR ~ $[*][#a == 1 #b == 5 no()]",
    "~ id: midstop ~ $[*][@b = line_number() stop(#a == 0) @a = line_number()]",
    "~ id: yes ~ $[*][yes()]",
    '~ id: three ~ $[*][#a == "4" @c = count()]',
    "~ id: big unmatched-mode: keep ~ $[*][gt(#a, 3) @l.onmatch = line_number()]",
    "~ id: inverted return-mode: no-matches ~ $[1*][gt(#a, 3)]",
    '~ id: stopper ~ $[*][#a == 0 -> stop() collect("a", "c") yes()]',
    '~ id: printer ~ $[*][last() -> print("the end: $.csvpath.count_lines") #b]',
    "~ id: err validation-mode: no-raise, no-stop, print ~ $[*][gt(add(#a, 1), 3)]",
    "~ id: norun run-mode: no-run ~ $[*][yes()]",
]


def result_lines(r):
    lines = r.lines
    if lines is None:
        return None
    if hasattr(lines, "next"):
        return [list(_) for _ in lines.next()]
    return [list(_) for _ in lines]


def run_group(method: str, filename: str, **kw) -> None:
    out("=" * 78)
    out(f"GROUP {method} file={filename} kw={kw}")
    shutil.rmtree("archive", ignore_errors=True)
    shutil.rmtree("inputs", ignore_errors=True)
    shutil.rmtree("cache", ignore_errors=True)
    buf = io.StringIO()
    cp = None
    got = None
    try:
        with contextlib.redirect_stdout(buf):
            cp = CsvPaths()
            cp.file_manager.add_named_file(name="f", path=filename)
            cp.paths_manager.add_named_paths(name="grp", paths=GROUP)
            m = getattr(cp, method)
            if method.startswith("next"):
                got = []
                for line in m(filename="f", pathsname="grp", **kw):
                    got.append(list(line))
            else:
                got = m(filename="f", pathsname="grp", **kw)
    except Exception as ex:  # pylint: disable=W0718
        out("  RAISED:", ex.__class__.__name__, "|", norm(f"{ex}"))
    out("  returned:", repr(got))
    if cp is not None:
        try:
            for r in cp.results_manager.get_named_results("grp"):
                c = r.csvpath
                out(
                    "  result",
                    c.identity,
                    "| lines",
                    result_lines(r),
                    "| unmatched",
                    repr(r.unmatched),
                )
                out(
                    "     valid",
                    c.is_valid,
                    "stopped",
                    c.stopped,
                    "match",
                    c.match_count,
                    "scan",
                    c.scan_count,
                    "vars",
                    repr(c.variables),
                    "errors",
                    len(r.errors or []),
                    "printouts",
                    norm(repr(r.get_printouts())),
                )
        except Exception as ex:  # pylint: disable=W0718
            out("  RESULTS RAISED:", ex.__class__.__name__, "|", norm(f"{ex}"))
    out("  stdout:")
    for ln in buf.getvalue().splitlines():
        out("    |" + norm(ln))
    dump_tree("archive")


for fname in ("basic.csv", "trailing.csv"):
    run_group("collect_paths", fname)
    run_group("fast_forward_paths", fname)
    run_group("next_paths", fname)
    run_group("collect_by_line", fname)
    run_group("collect_by_line", fname, if_all_agree=True)
run_group("collect_paths", "blanks.csv")
run_group("collect_by_line", "ragged.csv")
out("DONE")
