#!/usr/bin/env python
"""Differential demonstration for property C09 ("the archived results of a run
say what the run did").

Run it in an EMPTY scratch directory (it creates ./config, ./inputs, ./archive,
./cache, ./logs, ./transfers below the cwd and wipes them at start):

    mkdir /tmp/demo && cd /tmp/demo && PYTHONPATH=<csvpath tree> python demo.py > out.txt

It prints a deterministic transcript of everything observable: what the run
methods return, the in-memory results (validity, completion, variables, errors,
printouts, collected and unmatched lines) and the complete content of
./archive (listing + every file), with run-directory time stamps, uuids, clock
times, timings and object addresses normalised. Fingerprints in manifests are
checked against the bytes on disk.
"""
import contextlib
import csv
import hashlib
import io
import json
import os
import random
import re
import shutil
import sys
import warnings

warnings.simplefilter("ignore")

CONFIG = """[csvpath_files]
extensions = txt, csvpath, csvpaths

[csv_files]
extensions = txt, csv, tsv, dat, tab, psv, ssv

[errors]
csvpath = raise, collect, stop, fail, print
csvpaths = raise, collect

[logging]
csvpath = info
csvpaths = info
log_file = logs/csvpath.log
log_files_to_keep = 100
log_file_size = 52428800

[config]
path = config/config.ini

[cache]
path = cache

[listeners]
[marquez]
base_url = http://localhost:5000

[functions]
imports = config/functions.imports

[results]
archive = archive
transfers = transfers

[inputs]
files = inputs/named_files
csvpaths = inputs/named_paths
on_unmatched_file_fingerprints = halt
"""

CWD = os.getcwd()


def setup():
    for d in ["archive", "inputs", "cache", "logs", "transfers", "config", "data", "moved"]:
        if os.path.exists(d):
            shutil.rmtree(d)
    os.makedirs("config")
    os.makedirs("data")
    with open("config/config.ini", "w", encoding="utf-8") as f:
        f.write(CONFIG)
    with open("config/functions.imports", "w", encoding="utf-8") as f:
        f.write("")


setup()

# import only after the config exists: csvpath reads ./config/config.ini
from csvpath import CsvPaths, CsvPath  # noqa: E402
from csvpath.managers.results.result import Result  # noqa: E402
from csvpath.managers.results.result_registrar import ResultRegistrar  # noqa: E402
from csvpath.managers.results.result_serializer import ResultSerializer  # noqa: E402
from csvpath.managers.results.result_metadata import ResultMetadata  # noqa: E402
from csvpath.util.line_spooler import (  # noqa: E402
    CsvLineSpooler,
    ListLineSpooler,
    LineSpooler,
)

OUT = sys.stdout


def say(*a):
    print(*a, file=OUT)
    OUT.flush()


# ---------------------------------------------------------------- normalising

RUNS = {}  # (pathsname, actual run dir name) -> label
TS = re.compile(r"\d{4}-\d\d-\d\d_\d\d-\d\d-\d\d(\.\d+)?")
ISO = re.compile(
    r"\d{4}-\d\d-\d\d[T ]\d\d:\d\d:\d\d(\.\d+)?(\+\d\d:\d\d)?"
)
ADDR = re.compile(r"0x[0-9a-fA-F]+")
UUID = re.compile(
    r"[0-9a-f]{8}-[0-9a-f]{4}-[0-9a-f]{4}-[0-9a-f]{4}-[0-9a-f]{12}"
)
FRAME = re.compile(r'File "([^"]*)", line \d+, in (\S+)')


def note_runs():
    """labels run dirs in the order they appear: archive/<name>/RUN<n>"""
    if not os.path.isdir("archive"):
        return
    for name in sorted(os.listdir("archive")):
        d = os.path.join("archive", name)
        if not os.path.isdir(d):
            continue
        new = [
            r for r in os.listdir(d) if (name, r) not in RUNS and TS.fullmatch(r)
        ]

        def _k(x):
            t, dot, n = x.partition(".")
            return (t, int(n) if dot else -1)

        for r in sorted(new, key=_k):
            n = len([k for k in RUNS if k[0] == name]) + 1
            RUNS[(name, r)] = f"RUN{n}"


def norm(s):
    if not isinstance(s, str):
        return s
    s = s.replace(CWD, "<CWD>")
    keys = sorted(RUNS.keys(), key=lambda k: -len(k[1]))
    for name, r in keys:
        s = s.replace(f"{name}{os.sep}{r}", f"{name}{os.sep}{RUNS[(name, r)]}")
    s = TS.sub("<RUN_TS>", s)
    s = ISO.sub("<TIME>", s)
    s = UUID.sub("<UUID>", s)
    s = ADDR.sub("0x..", s)
    return s


def norm_trace(t):
    if t is None:
        return None
    frames = []
    for m in FRAME.finditer(t):
        p = m.group(1)
        i = p.rfind("csvpath" + os.sep)
        p = p[i:] if i > -1 else os.path.basename(p)
        frames.append(f"{os.path.basename(p)}:{m.group(2)}")
    last = t.strip().splitlines()[-1] if t.strip() else ""
    return {"frames": frames, "last": norm(last)}


TIME_KEYS = {
    "time",
    "time_completed",
    "time_started",
    "run_time",
    "run_started_at",
    "at",
    "named_file_last_change",
}
UUID_KEYS = {"uuid", "named_paths_uuid"}
NUM_KEYS = {"lines_time", "last_line_time"}
STABLE_FILES = {"data.csv", "unmatched.csv", "printouts.txt", "vars.json"}


def sha(path):
    with open(path, "rb") as f:
        return hashlib.sha256(f.read()).hexdigest()


def norm_json(o, *, where=None):
    if isinstance(o, dict):
        d = {}
        for k, v in o.items():
            if k in TIME_KEYS:
                d[k] = None if v is None else ("<TIME>" if v != "None" else "None")
            elif k in UUID_KEYS:
                d[k] = None if v is None else "<UUID>"
            elif k in NUM_KEYS:
                d[k] = None if v is None else "<NUM>"
            elif k == "trace":
                d[k] = norm_trace(v)
            elif k == "file_fingerprints" and isinstance(v, dict) and where:
                fp = {}
                for name, h in v.items():
                    p = os.path.join(where, name)
                    ok = os.path.exists(p) and sha(p) == h
                    if name in STABLE_FILES:
                        fp[name] = f"{h} on-disk:{ok}"
                    else:
                        fp[name] = f"<sha256> on-disk:{ok}"
                d[k] = fp
            else:
                d[k] = norm_json(v, where=where)
        return d
    if isinstance(o, (list, tuple)):
        return [norm_json(_, where=where) for _ in o]
    if isinstance(o, str):
        return norm(o)
    return o


def dump_file(path):
    note_runs()
    say(f"  ## {norm(path)} ({'empty' if os.path.getsize(path) == 0 else 'bytes'})")
    base = os.path.basename(path)
    if base.endswith(".json"):
        with open(path, "r", encoding="utf-8") as f:
            try:
                j = json.load(f)
            except Exception as e:  # pylint: disable=W0718
                say(f"     not json: {type(e).__name__}")
                return
        j = norm_json(j, where=os.path.dirname(path))
        say("     " + json.dumps(j, sort_keys=True))
    else:
        with open(path, "r", encoding="utf-8", newline="") as f:
            t = f.read()
        say(f"     sha256:{sha(path)}")
        say("     " + repr(norm(t)))


def dump_tree(root):
    note_runs()
    if not os.path.exists(root):
        say(f"  (no {root})")
        return
    entries = []
    for dp, dns, fns in os.walk(root):
        dns.sort()
        if not fns and not dns:
            entries.append((norm(dp) + os.sep, None))
        for fn in fns:
            p = os.path.join(dp, fn)
            entries.append((norm(p), p))
    for n, p in sorted(entries, key=lambda e: e[0]):
        if p is None:
            say(f"  ## {n} (empty dir)")
        else:
            dump_file(p)


def read_csv(path, delimiter=",", quotechar='"'):
    if not os.path.exists(path):
        return None
    with open(path, "r", encoding="utf-8", newline="") as f:
        return [row for row in csv.reader(f, delimiter=delimiter, quotechar=quotechar)]


def lines_of(result):
    ls = result.lines
    if isinstance(ls, CsvLineSpooler):
        return [list(_) for _ in ls.next()]
    if isinstance(ls, LineSpooler):
        return list(ls.sink)
    return ls


def show_result(r):
    say(f"  -- result {r.run_index} identity_or_index={r.identity_or_index!r}")
    say(f"     run_dir={norm(r.run_dir)} instance_dir={norm(r.instance_dir)}")
    p = r.csvpath
    say(
        f"     is_valid={r.is_valid} csvpath.is_valid={p.is_valid} completed={p.completed} "
        f"stopped={p.stopped} aborted={p.aborted} by_line={r.by_line}"
    )
    say(
        f"     match_count={p.match_count} scan_count={p.scan_count} "
        f"line_number={p.line_monitor.physical_line_number if p.line_monitor else None}"
    )
    say(f"     variables={json.dumps(r.variables, sort_keys=True, default=str)}")
    say(f"     metadata={json.dumps(norm_json(p.metadata), sort_keys=True, default=str)}")
    say(f"     errors_count={r.errors_count} has_errors={r.has_errors()}")
    for e in r.errors:
        say(f"       error: {json.dumps(norm_json(e.to_json()), sort_keys=True, default=str)}")
    say(f"     printouts={json.dumps(norm_json(r.get_printouts()), sort_keys=True)}")
    say(f"     lines_printed={r.lines_printed} last_line={norm(r.last_line)!r}")
    try:
        ls = lines_of(r)
        say(f"     type(lines)={type(r.lines).__name__} len(result)={len(r)} lines={ls!r}")
        disk = read_csv(
            os.path.join(r.instance_dir, "data.csv"), p.delimiter, p.quotechar
        )
        say(f"     data.csv parses back to lines: {disk == ls if disk is not None else 'no data.csv'}")
    except Exception as e:  # pylint: disable=W0718
        say(f"     lines raised {type(e).__name__}: {norm(str(e))}")
    say(f"     unmatched={r.unmatched!r}")
    um = read_csv(os.path.join(r.instance_dir, "unmatched.csv"), p.delimiter, p.quotechar)
    say(
        f"     unmatched.csv parses back to unmatched: {um == r.unmatched if um is not None else 'no unmatched.csv'}"
    )
    say(
        f"     actual_data_file={norm(r.actual_data_file)} origin_data_file={norm(r.origin_data_file)} "
        f"source_mode_preceding={r.source_mode_preceding}"
    )


def show_results(cp, name):
    rm = cp.results_manager
    try:
        rs = rm.get_named_results(name)
    except Exception as e:  # pylint: disable=W0718
        say(f"  get_named_results raised {type(e).__name__}")
        return
    say(
        f"  results: n={rm.get_number_of_results(name)} is_valid={rm.is_valid(name)} "
        f"has_errors={rm.has_errors(name)} has_lines={rm.has_lines(name)}"
    )
    say(f"  get_variables={json.dumps(rm.get_variables(name), sort_keys=True, default=str)}")
    for r in rs:
        show_result(r)
        m = rm.get_specific_named_result_manifest(name, r.identity_or_index)
        mp = os.path.join(r.instance_dir, "manifest.json")
        with open(mp, "r", encoding="utf-8") as f:
            say(f"     get_specific_named_result_manifest equals manifest.json on disk: {json.load(f) == m}")


def newest_run(name):
    note_runs()
    d = os.path.join("archive", name)
    if not os.path.isdir(d):
        return None
    best = None
    for (n, r), label in RUNS.items():
        if n == name and (best is None or int(label[3:]) > int(best[1][3:])):
            best = (r, label)
    return os.path.join(d, best[0]) if best else None


# ------------------------------------------------------------------- the data

FILES = {}


def write(name, text, newline="\n"):
    p = os.path.join("data", name + ".csv")
    with open(p, "w", encoding="utf-8", newline="") as f:
        f.write(text)
    FILES[name] = p


def make_files():
    write("plain", "a,b,c\n1,2,3\n4,5,6\n7,8,9\n1,0,3\n")
    write(
        "quoted",
        'a,b,c\n1,"x,y",3\n4,"he said ""hi""",6\n7,"two\nlines",9\n1,\'single\',"",\n" lead",0,"trail "\n',
    )
    write("blank", "a,b,c\n1,2,3\n\n4,5\n7,8,9,10\n,,\n1,,3\n\n")
    write("headeronly", "a,b,c\n")
    write("nonl", "a,b,c\n1,2,3\n4,5,6")
    write("semi", "a;b;c\n1;'x;y';3\n4;'it''s';6\n1;0;'a,b'\n")
    rnd = random.Random(9)
    cells = ["", "0", "1", "2", "x", "x,y", 'q"q', "nl\nnl", " sp ", "3.5", "-1", "'", ";"]
    for i in range(3):
        buf = io.StringIO()
        w = csv.writer(buf, lineterminator="\n")
        w.writerow(["a", "b", "c"])
        for _ in range(rnd.randint(3, 9)):
            k = rnd.choice([0, 1, 2, 3, 3, 3, 4])
            if k == 0:
                buf.write("\n")
            else:
                w.writerow([rnd.choice(cells) for _ in range(k)])
        write(f"gen{i}", buf.getvalue())


GROUPS = {
    "noid": ["$[*][yes()]", '$[*][#0=="1"]', "$[1-2][no()]"],
    "ids": [
        '~id:one~ $[*][yes() print("one sees $.csvpath.line_number")]',
        '~name:two unmatched-mode:keep~ $[*][#0=="1" @hits=count() @zero=0 @empty="" ]',
        '~ID:three description: uses ID~ $[0][ @heads=count_headers() push("seen", #1) ]',
    ],
    "vars": [
        '~id:v1~ $[*][ @n=count_lines() @last=#0 push("firsts", #0) @f=3.5 @t=yes() @none=none() ]',
        '~id:v2~ $[*][ tally(#1) @n=line_number() ]',
    ],
    "stop": [
        "~id:stopper~ $[*][ line_number()==2 -> stop() ]",
        "~id:after~ $[*][ yes() ]",
        "~id:stopall~ $[*][ line_number()==1 -> stop_all() ]",
        "~id:stopped-before-start~ $[*][ yes() ]",
    ],
    "fail": [
        '~id:failer~ $[*][ line_number()==1 -> fail() print("failing") ]',
        "~id:fine~ $[*][ #0 ]",
        "~id:failstop~ $[*][ line_number()==1 -> fail_and_stop() ]",
    ],
    "errs": [
        "~id:quiet-err validation-mode:no-raise, no-print, no-stop, fail~ $[*][ @x = divide(#0, 0) ]",
        '~id:loud-err validation-mode:no-raise, print, stop~ $[*][ add("a", #1) ]',
        "~id:ok~ $[*][ yes() ]",
    ],
    "boom": [
        "~id:first~ $[*][ yes() ]",
        '~id:boom unmatched-mode:keep~ $[*][ line_number()==2 -> add("a", #1) ]',
        "~id:never~ $[*][ yes() ]",
    ],
    "unmatched": [
        '~id:um unmatched-mode:keep~ $[*][ #0=="1" ]',
        '~id:limit unmatched-mode:keep~ $[*][ #0=="1" collect(0, 2) ]',
        '~id:inverse return-mode:no-matches unmatched-mode:keep~ $[*][ #0=="1" ]',
    ],
    "pre": [
        "~id:src~ $[1*][ #0 ]",
        '~id:pre source-mode:preceding~ $[*][ #0=="1" ]',
        "~id:pre2 source-mode:preceding~ $[*][ yes() ]",
    ],
    "files": [
        '~id:fm files-mode: data, unmatched, printouts~ $[1*][ yes() print("x") ]',
        "~id:fm2 files-mode: all unmatched-mode:keep~ $[*][ #0 print(\"y\") ]",
        "~id:nr run-mode:no-run~ $[*][ yes() ]",
        "~id:nomatch files-mode: data~ $[*][ no() ]",
    ],
    "transfer": [
        '~id:tr transfer-mode: data > tvar, unmatched > uvar unmatched-mode:keep~ $[*][ @tvar="out/copy.csv" @uvar="out/um.csv" #0=="1" ]',
    ],
    "transfer2": [
        '~id:tr2 transfer-mode: data > tvar~ $[*][ @tvar="out/copy2.csv" #0=="1" ]',
    ],
    "same": ["~id:same~ $[*][ yes() ]", "~id:same~ $[*][ no() @second=yes() ]"],
}

SERIAL = ["collect_paths", "fast_forward_paths", "next_paths", "next_paths_collect"]
BYLINE = [
    "collect_by_line",
    "fast_forward_by_line",
    "next_by_line",
    "collect_by_line_agree",
    "next_by_line_notmatched",
]


def new_paths(**kw):
    cp = CsvPaths(**kw)
    for n, p in FILES.items():
        cp.file_manager.add_named_file(name=n, path=p)
    for n, ps in GROUPS.items():
        cp.paths_manager.add_named_paths(name=n, paths=ps)
    return cp


def _call(cp, method, group, file):
    if method == "collect_paths":
        ret = cp.collect_paths(pathsname=group, filename=file)
    elif method == "fast_forward_paths":
        ret = cp.fast_forward_paths(pathsname=group, filename=file)
    elif method == "next_paths":
        ret = [list(_) for _ in cp.next_paths(pathsname=group, filename=file)]
    elif method == "next_paths_collect":
        ret = [
            list(_)
            for _ in cp.next_paths(pathsname=group, filename=file, collect=True)
        ]
    elif method == "collect_by_line":
        ret = cp.collect_by_line(pathsname=group, filename=file)
    elif method == "collect_by_line_agree":
        ret = cp.collect_by_line(pathsname=group, filename=file, if_all_agree=True)
    elif method == "fast_forward_by_line":
        ret = cp.fast_forward_by_line(pathsname=group, filename=file)
    elif method == "next_by_line":
        ret = [list(_) for _ in cp.next_by_line(pathsname=group, filename=file)]
    elif method == "next_by_line_notmatched":
        ret = [
            list(_)
            for _ in cp.next_by_line(
                pathsname=group,
                filename=file,
                collect=True,
                collect_when_not_matched=True,
            )
        ]
    else:
        raise ValueError(method)
    return ret


def run(cp, method, group, file):
    """runs one method; prints what it returns or raises"""
    say(f"\n=== {method} paths={group} file={file}")
    cap = io.StringIO()
    try:
        with contextlib.redirect_stdout(cap):
            ret = _call(cp, method, group, file)
        outcome = f"  returned: {ret!r}"
        exc = None
    except Exception as e:  # pylint: disable=W0718
        outcome = None
        exc = e
    # label the run dir this run made before anything is printed
    note_runs()
    say(f"  stdout during the run: {norm(cap.getvalue())!r}")
    if exc is None:
        say(outcome)
    else:
        say(f"  raised: {type(exc).__name__}: {norm(str(exc))}")
        c = exc.__cause__
        while c is not None:
            say(f"    caused by: {type(c).__name__}: {norm(str(c))}")
            c = c.__cause__
    note_runs()
    show_results(cp, group)
    rd = newest_run(group)
    say(f"  archive of this run: {norm(rd) if rd else None}")
    if rd:
        dump_tree(rd)


def core():
    say("##### every group, every method, on the file with blank and ragged lines")
    for g in GROUPS:
        for m in SERIAL + BYLINE:
            cp = new_paths()
            run(cp, m, g, "blank")
    say("\n##### quoted cells, delimiters and newlines in cells: all methods")
    for g in ["ids", "unmatched", "pre", "vars"]:
        for m in SERIAL + BYLINE:
            cp = new_paths()
            run(cp, m, g, "quoted")
    say("\n##### other files")
    for f in ["plain", "headeronly", "nonl", "gen0", "gen1", "gen2"]:
        for g, m in [
            ("ids", "collect_paths"),
            ("unmatched", "collect_by_line"),
            ("stop", "next_paths_collect"),
            ("errs", "fast_forward_paths"),
            ("files", "next_by_line_notmatched"),
        ]:
            cp = new_paths()
            run(cp, m, g, f)
    say("\n##### another delimiter and quotechar")
    for m in ["collect_paths", "next_paths_collect", "collect_by_line", "fast_forward_by_line"]:
        cp = new_paths(delimiter=";", quotechar="'")
        run(cp, m, "unmatched", "semi")
        cp = new_paths(delimiter=";", quotechar="'")
        run(cp, m, "pre", "semi")
    say("\n##### the same CsvPaths instance used again and again")
    cp = new_paths(print_default=False)
    for m, g, f in [
        ("collect_paths", "ids", "plain"),
        ("collect_paths", "ids", "plain"),
        ("fast_forward_paths", "ids", "quoted"),
        ("collect_by_line", "ids", "blank"),
        ("next_paths_collect", "stop", "plain"),
        ("collect_paths", "boom", "plain"),
        ("collect_paths", "ids", "plain"),
        ("next_by_line", "fail", "plain"),
        ("collect_paths", "files", "plain"),
    ]:
        run(cp, m, g, f)
    say("\n##### a named file rewritten between runs of one instance")
    cp = new_paths(print_default=False)
    run(cp, "collect_paths", "unmatched", "plain")
    with open(FILES["plain"], "a", encoding="utf-8") as f:
        f.write('1,"added, later",x\n')
    cp.file_manager.add_named_file(name="plain", path=FILES["plain"])
    run(cp, "collect_paths", "unmatched", "plain")
    run(cp, "collect_by_line", "unmatched", "plain")
    say("\n##### the archive-wide manifest, the listing of the archive, and transfers")
    dump_file(os.path.join("archive", "manifest.json"))
    note_runs()
    for dp, dns, fns in os.walk("archive"):
        dns.sort()
        for fn in sorted(fns):
            say("  " + norm(os.path.join(dp, fn)))
    dump_tree("transfers")


# ------------------------------------------------- direct use of the pieces

import datetime as _dt  # noqa: E402

FIXED = _dt.datetime(2020, 1, 2, 3, 4, 5, tzinfo=_dt.timezone.utc)


def attempt(label, fn):
    """prints what fn() returns or raises"""
    cap = io.StringIO()
    try:
        with contextlib.redirect_stdout(cap):
            v = fn()
        if isinstance(v, (dict, list, tuple)):
            v = json.dumps(norm_json(v), sort_keys=True, default=str)
        say(f"  {label} -> {norm(v) if isinstance(v, str) else v!r}")
    except Exception as e:  # pylint: disable=W0718
        say(f"  {label} raised {type(e).__name__}: {norm(str(e))}")
    if cap.getvalue():
        say(f"    stdout: {norm(cap.getvalue())!r}")


def quiet(fn):
    """runs fn() with what it prints to stdout returned, normalised, as a string"""
    cap = io.StringIO()
    with contextlib.redirect_stdout(cap):
        fn()
    note_runs()
    return norm(cap.getvalue())


def manifest_brief(mp):
    keys = [
        "instance_identity",
        "source_mode_preceding",
        "preceding_instance_identity",
        "valid",
        "completed",
        "files_expected",
        "file_count",
        "serial",
        "named_results_name",
        "run_home",
        "instance_home",
        "named_file_name",
    ]
    with open(mp, "r", encoding="utf-8") as f:
        m = json.load(f)
    b = {k: m[k] for k in keys if k in m}
    b["fingerprinted"] = sorted(m["file_fingerprints"]) if m.get("file_fingerprints") else None
    b["keys"] = len(m)
    return norm_json(b)


def listing(root):
    note_runs()
    out = []
    for dp, dns, fns in os.walk(root):
        dns.sort()
        if not dns and not fns:
            out.append(norm(dp) + os.sep)
        for fn in sorted(fns):
            p = os.path.join(dp, fn)
            out.append(f"{norm(p)}[{os.path.getsize(p)}]" if not fn.endswith(".json") else norm(p))
    return sorted(out)


def fingerprints_ok(rr):
    fps = rr.file_fingerprints
    d = {}
    for k, v in fps.items():
        p = os.path.join(rr.result.instance_dir, k)
        ok = os.path.exists(p) and sha(p) == v
        d[k] = (v if k in STABLE_FILES else "<sha256>") + f" on-disk:{ok}"
    return d


ALLFILES = [
    "data.csv",
    "meta.json",
    "unmatched.csv",
    "printouts.txt",
    "errors.json",
    "vars.json",
    "manifest.json",
    "nothing.txt",
]


def show_registrar(rr, label):
    say(f" -- registrar: {label}")
    attempt("result_path", lambda: rr.result_path)
    attempt("result_path again", lambda: rr.result_path)
    attempt("manifest_path", lambda: rr.manifest_path)
    attempt("named_paths_manifest_path", lambda: rr.named_paths_manifest_path)
    attempt("archive_name", lambda: rr.archive_name)
    attempt("completed", lambda: rr.completed)
    attempt("has_file", lambda: {t: rr.has_file(t) for t in ALLFILES})
    attempt("all_expected_files", lambda: rr.all_expected_files)
    attempt("file_fingerprints", lambda: fingerprints_ok(rr))
    attempt("manifest", lambda: norm_json(rr.manifest, where=rr.result.instance_dir))
    attempt("named_paths_manifest", lambda: rr.named_paths_manifest)


EXPECTED = [
    None,
    [],
    ["data"],
    ["no-data"],
    ["unmatched"],
    ["no-unmatched"],
    ["printouts"],
    ["no-printouts"],
    ["all"],
    [" data ", "printouts"],
    ["vars"],
    ["errors", "meta"],
    ["bogus"],
    [""],
    ["no-data", "no-unmatched", "no-printouts"],
    ["data", "no-data"],
]


def expected_matrix(rr, label):
    r = rr.result
    keep = r.csvpath.all_expected_files
    row = []
    for efs in EXPECTED:
        r.csvpath.all_expected_files = efs
        try:
            row.append(rr.all_expected_files)
        except Exception as e:  # pylint: disable=W0718
            row.append(type(e).__name__)
    r.csvpath.all_expected_files = keep
    say(f"  all_expected_files matrix [{label}]: {row}")


def registrar_section():
    say("\n##### ResultRegistrar used directly")
    cp = new_paths(print_default=False)
    out = quiet(lambda: cp.collect_paths(pathsname="files", filename="plain"))
    say(f"  stdout of the run: {out!r}")
    rs = cp.results_manager.get_named_results("files")
    ser = ResultSerializer(cp.config.archive_path)
    regs = []
    for r in rs:
        rr = ResultRegistrar(csvpaths=cp, result=r, result_serializer=ser)
        regs.append(rr)
        show_registrar(rr, f"files/{r.identity_or_index}")
        expected_matrix(rr, "as archived")
    # one registrar, the directory changing under it
    rr = regs[1]
    r = rr.result
    home = r.instance_dir
    say(f" -- files disappear one by one from {norm(home)}")
    for t in ["printouts.txt", "data.csv", "unmatched.csv", "vars.json", "errors.json", "meta.json"]:
        p = os.path.join(home, t)
        if os.path.exists(p):
            os.remove(p)
        say(f"  removed {t}")
        attempt("has_file", lambda: {t: rr.has_file(t) for t in ALLFILES})
        attempt("file_fingerprints", lambda: fingerprints_ok(rr))
        expected_matrix(rr, f"without {t}")
    say(" -- files come back with other content")
    for t, text in [("data.csv", "a,b\n1,2\n"), ("vars.json", "{}"), ("meta.json", "{}"), ("errors.json", "[]")]:
        with open(os.path.join(home, t), "w", encoding="utf-8") as f:
            f.write(text)
        attempt(f"fingerprints after writing {t}", lambda: fingerprints_ok(rr))
        expected_matrix(rr, f"after writing {t}")
    with open(os.path.join(home, "data.csv"), "w", encoding="utf-8") as f:
        f.write("a,b\n3,4\n")
    attempt("fingerprints after rewriting data.csv", lambda: fingerprints_ok(rr))
    say(" -- the instance dir is deleted")
    shutil.rmtree(home)
    say(f"  exists before: {os.path.exists(home)}")
    attempt("result_path", lambda: rr.result_path)
    say(f"  exists after: {os.path.exists(home)} listing={listing(home)}")
    shutil.rmtree(home)
    attempt("has_file", lambda: {t: rr.has_file(t) for t in ALLFILES})
    say(f"  exists after has_file: {os.path.exists(home)}")
    shutil.rmtree(home)
    attempt("all_expected_files", lambda: rr.all_expected_files)
    say(f"  exists after all_expected_files: {os.path.exists(home)}")
    shutil.rmtree(home)
    attempt("file_fingerprints", lambda: rr.file_fingerprints)
    say(f"  exists after file_fingerprints: {os.path.exists(home)}")
    shutil.rmtree(home)
    attempt("manifest", lambda: rr.manifest)
    say(f"  listing after manifest: {listing(home)}")
    attempt("manifest again", lambda: rr.manifest)
    say(" -- the instance dir is replaced by a file")
    shutil.rmtree(home)
    with open(home, "w", encoding="utf-8") as f:
        f.write("not a dir")
    attempt("result_path", lambda: rr.result_path)
    attempt("has_file", lambda: rr.has_file("data.csv"))
    attempt("all_expected_files", lambda: rr.all_expected_files)
    attempt("file_fingerprints", lambda: rr.file_fingerprints)
    os.remove(home)
    attempt("result_path when the file is gone", lambda: rr.result_path)
    say(f"  listing: {listing(home)}")
    say(" -- the run dir of the result changes")
    keep = r.run_dir
    r.run_dir = os.path.join("moved", "files", "run")
    attempt("result_path", lambda: rr.result_path)
    attempt("manifest_path", lambda: rr.manifest_path)
    attempt("has_file", lambda: {t: rr.has_file(t) for t in ALLFILES})
    say(f"  listing: {listing('moved')}")
    r.run_dir = keep
    attempt("result_path back", lambda: rr.result_path)
    say(" -- the identity of the csvpath changes")
    md = r.csvpath.metadata
    oldid = md.get("id")
    md["id"] = "renamed"
    attempt("result_path", lambda: rr.result_path)
    md["id"] = "  "
    attempt("result_path with a blank id", lambda: rr.result_path)
    del md["id"]
    attempt("result_path without id", lambda: rr.result_path)
    r.run_index = "41"
    md.pop("NAME", None)
    attempt("result_path by another index", lambda: rr.result_path)
    md["id"] = 5
    attempt("result_path with an int id", lambda: rr.result_path)
    md["id"] = None
    attempt("result_path with a None id", lambda: rr.result_path)
    md["id"] = oldid
    r.run_index = "1"
    attempt("result_path restored", lambda: rr.result_path)
    say(" -- the registrar is given another serializer, another result")
    rr.result_serializer = None
    attempt("result_path without serializer", lambda: rr.result_path)
    attempt("has_file without serializer", lambda: rr.has_file("data.csv"))
    rr.result_serializer = ResultSerializer("elsewhere")
    attempt("result_path with another serializer", lambda: rr.result_path)
    rr.result_serializer = ser
    rr.result = regs[0].result
    attempt("result_path for another result", lambda: rr.result_path)
    attempt("has_file for another result", lambda: {t: rr.has_file(t) for t in ALLFILES})
    attempt("file_fingerprints for another result", lambda: fingerprints_ok(rr))
    rr.result = None
    attempt("result_path without result", lambda: rr.result_path)
    rr.result = r
    say(f"  listing of the run: {listing(r.run_dir)}")

    say(" -- register_start / register_complete called directly")
    for group, fname in [("pre", "plain"), ("ids", "blank"), ("noid", "quoted")]:
        cp = new_paths(print_default=False)
        out = quiet(lambda: cp.collect_paths(pathsname=group, filename=fname))
        say(f"  stdout of the run: {out!r}")
        ser = ResultSerializer(cp.config.archive_path)
        rs = cp.results_manager.get_named_results(group)
        for r in rs:
            rr = ResultRegistrar(csvpaths=cp, result=r, result_serializer=ser)
            keep = r.run_index
            for ri in [keep, "0", "", "1", "2", "3", "4", "-1", "x", None, 1, 0]:
                r.run_index = ri
                for which in ["start", "complete", "complete-none"]:
                    md = ResultMetadata(cp.config)

                    def go():
                        if which == "start":
                            rr.register_start(md)
                        elif which == "complete":
                            rr.register_complete(md)
                        else:
                            rr.register_complete()
                        return md.preceding_instance_identity

                    attempt(f"{group}/{r.identity_or_index} run_index={ri!r} register_{which}: preceding", go)
                    mp = os.path.join(r.run_dir, f"{r.identity_or_index}", "manifest.json")
                    if os.path.exists(mp):
                        say(f"      manifest: {json.dumps(manifest_brief(mp), sort_keys=True)}")
            r.run_index = keep
            rr.register_complete()
        say(f"  listing: {listing(rs[0].run_dir)}")


class Boom:
    """a sink that cannot close"""

    def __init__(self, real=None, msg="disk full"):
        self.real = real
        self.msg = msg
        self.calls = 0

    def write(self, s):
        return self.real.write(s) if self.real else len(s)

    def close(self):
        self.calls += 1
        if self.real:
            self.real.close()
        raise OSError(self.msg)


def spool_result(cp, index, match="[*][yes()]", *, file="plain", comment="", **kw):
    csvpath = cp.csvpath()
    for k, v in kw.items():
        setattr(csvpath, k, v)
    csvpath.parse(f"{comment}${FILES[file]}{match}")
    return Result(
        csvpath=csvpath,
        file_name=file,
        paths_name="spool",
        run_index=index,
        run_time=FIXED,
        run_dir=os.path.join("archive", "spool", "fixedrun"),
    )


def spooler_state(sp, r):
    d = {
        "len": len(sp),
        "closed": sp.closed,
        "sink": type(sp.sink).__name__,
        "writer": sp.writer is not None,
        "path": norm(sp.path),
    }
    if r is not None:
        d.update(
            {
                "errors": [norm_json(e.to_json()) for e in r.errors],
                "is_valid": r.csvpath.is_valid,
                "stopped": r.csvpath.stopped,
                "aborted": r.csvpath.aborted,
                "printouts": r.get_printouts(),
            }
        )
    say("    state: " + json.dumps(norm_json(d), sort_keys=True, default=str))


ROWS = [
    ["a", "b", "c"],
    ["1", "x,y", ""],
    ['he said "hi"', "two\nlines", " sp "],
    [],
    ["only"],
    ["'", ";", "0"],
]


def spooler_section():
    say("\n##### CsvLineSpooler used directly")
    cp = new_paths(print_default=False)
    root = os.path.join("archive", "spool")

    say(" -- S1 nothing appended, not collecting")
    r = spool_result(cp, 0)
    sp = r.lines
    say(f"  type={type(sp).__name__}")
    spooler_state(sp, r)
    attempt("bytes_written", sp.bytes_written)
    attempt("close", sp.close)
    spooler_state(sp, r)
    say(f"  listing: {listing(root)}")

    say(" -- S2 nothing appended, collecting")
    r.csvpath.collecting = True
    attempt("close", sp.close)
    spooler_state(sp, r)
    attempt("close again", sp.close)
    spooler_state(sp, r)
    attempt("next", lambda: list(sp.next()))
    attempt("len(result)", lambda: len(r))
    say(f"  listing: {listing(root)}")

    say(" -- S3 rows with quotes, delimiters, newlines, empty and ragged rows")
    r = spool_result(cp, 1)
    sp = r.lines
    for row in ROWS:
        attempt(f"append {row!r}", lambda: sp.append(row))
    spooler_state(sp, r)
    attempt("bytes_written before close", sp.bytes_written)
    attempt("close", sp.close)
    spooler_state(sp, r)
    attempt("bytes_written after close", sp.bytes_written)
    attempt("next", lambda: list(sp.next()))
    attempt("len(result)", lambda: len(r))
    dump_file(os.path.join(r.instance_dir, "data.csv"))
    attempt("append after close", lambda: sp.append(["late"]))
    attempt("close after late append", sp.close)
    spooler_state(sp, r)
    dump_file(os.path.join(r.instance_dir, "data.csv"))

    say(" -- S4 another delimiter and quotechar")
    r = spool_result(cp, 2, file="semi", delimiter=";", quotechar="'")
    sp = r.lines
    for row in ROWS:
        sp.append(row)
    attempt("close", sp.close)
    attempt("next", lambda: list(sp.next()))
    dump_file(os.path.join(r.instance_dir, "data.csv"))

    say(" -- S5 result.lines replaced: the setter closes the spooler")
    r = spool_result(cp, 3)
    sp = r.lines
    sp.append(["1", "2"])
    r.lines = [["x"]]
    spooler_state(sp, r)
    attempt("len(result)", lambda: len(r))
    dump_file(os.path.join(r.instance_dir, "data.csv"))

    say(" -- S6 close fails opening the data file: default error policy (raise, collect, stop, fail, print)")
    r = spool_result(cp, 4)
    r.csvpath.collecting = True
    r.csvpath.delimiter = "ab"
    sp = r.lines
    attempt("close", sp.close)
    spooler_state(sp, r)
    attempt("close again", sp.close)
    spooler_state(sp, r)
    say(f"  listing: {listing(r.instance_dir)}")

    say(" -- S7 close fails opening the data file: csvpath says no-raise, no-stop, no-fail, no-print")
    r = spool_result(cp, 5, comment="~validation-mode: no-raise, no-stop, no-fail, no-print~ ")
    r.csvpath.collecting = True
    r.csvpath.quotechar = "too long"
    sp = r.lines
    attempt("close", sp.close)
    spooler_state(sp, r)

    say(" -- S8 the sink cannot be closed")
    for i, comment in [(6, ""), (7, "~validation-mode: no-raise, print~ ")]:
        r = spool_result(cp, i, comment=comment)
        sp = r.lines
        sp.append(["1", "2", "3"])
        boom = Boom(sp.sink)
        sp.sink = boom
        attempt("close", sp.close)
        spooler_state(sp, r)
        say(f"    sink.close calls: {boom.calls}")
        attempt("close again", sp.close)
        spooler_state(sp, r)
        say(f"    sink.close calls: {boom.calls}")
        dump_file(os.path.join(r.instance_dir, "data.csv"))

    say(" -- S9 a spooler without a result")
    sp = CsvLineSpooler(None)
    attempt("close", sp.close)
    spooler_state(sp, None)
    attempt("append", lambda: sp.append(["1"]))
    attempt("bytes_written", sp.bytes_written)
    attempt("next", lambda: list(sp.next()))
    sp.sink = Boom()
    attempt("close with a failing sink", sp.close)
    spooler_state(sp, None)

    say(" -- S10 the in-memory spooler")
    attempt("no lines", lambda: ListLineSpooler(lines=None))
    ls = []
    sp = ListLineSpooler(lines=ls)
    for row in ROWS:
        sp.append(row)
    attempt("close", sp.close)
    say(f"  len={len(sp)} closed={sp.closed} bytes={sp.bytes_written()} same list={sp.sink is ls} lines={ls!r}")
    say(f"  listing: {listing(root)}")


def manager_section():
    say("\n##### ResultsManager used directly")
    cp = new_paths(print_default=False)
    rm = cp.results_manager
    attempt("get_named_results of nothing", lambda: rm.get_named_results("nothing"))
    attempt("remove_named_results of nothing", lambda: rm.remove_named_results("nothing"))
    attempt("clean_named_results of nothing", lambda: rm.clean_named_results("nothing"))
    attempt("get_number_of_results of nothing", lambda: rm.get_number_of_results("nothing"))
    r = spool_result(cp, 0)
    r.file_name = None
    attempt("add_named_result without file name", lambda: rm.add_named_result(r))
    r.file_name = "plain"
    r.paths_name = None
    attempt("add_named_result without paths name", lambda: rm.add_named_result(r))
    say(f"  named_results={rm.named_results}")
    from csvpath.managers.results.results_manager import ResultsManager

    attempt("save without CsvPaths", lambda: ResultsManager(csvpaths=None).save(r))

    out = quiet(lambda: cp.collect_paths(pathsname="pre", filename="plain"))
    say(f"  stdout of the run: {out!r}")
    rs = rm.get_named_results("pre")
    attempt("get_last_named_result", lambda: rm.get_last_named_result(name="pre").identity_or_index)
    attempt("get_specific_named_result", lambda: rm.get_specific_named_result("pre", "pre").identity_or_index)
    attempt("get_specific_named_result missing", lambda: rm.get_specific_named_result("pre", "zzz"))
    attempt("get_specific_named_result_manifest missing", lambda: rm.get_specific_named_result_manifest("pre", "zzz"))
    attempt("get_number_of_results", lambda: rm.get_number_of_results("pre"))
    attempt("get_number_of_errors", lambda: rm.get_number_of_errors("pre"))
    attempt("get_metadata", lambda: rm.get_metadata("pre"))
    attempt("list_named_results", rm.list_named_results)
    say(" -- the results are set again: each is registered as started again")
    attempt("set_named_results", lambda: rm.set_named_results({"pre": list(rs)}))
    say(f"  names={sorted(rm.named_results)} n={len(rm.named_results['pre'])} same objects={[a is b for a, b in zip(rs, rm.named_results['pre'])]}")
    dump_tree(rs[0].run_dir)
    say(" -- and saved again")
    for r in rs:
        attempt(f"save {r.identity_or_index}", lambda: rm.save(r))
    attempt(
        "complete_run",
        lambda: rm.complete_run(run_dir=rs[0].run_dir, pathsname="pre", results=list(rs)),
    )
    dump_tree(rs[0].run_dir)
    say(" -- results added under a name that exists, the name removed, a result added again")
    attempt("add_named_results", lambda: rm.add_named_results(list(rs)))
    say(f"  n={len(rm.named_results['pre'])}")
    attempt("remove_named_results", lambda: rm.remove_named_results("pre"))
    say(f"  names={sorted(rm.named_results)}")
    attempt("add_named_result", lambda: rm.add_named_result(rs[0]))
    say(f"  names={sorted(rm.named_results)} n={len(rm.named_results['pre'])}")
    dump_file(os.path.join("archive", "manifest.json"))


def main():
    core_first = os.environ.get("DEMO_SKIP_CORE") is None
    make_files()
    registrar_section()
    spooler_section()
    manager_section()
    if core_first:
        core()


if __name__ == "__main__":
    main()
