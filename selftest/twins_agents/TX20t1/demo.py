#!/usr/bin/env python
"""Differential demonstration for property C20 (data and values flow between
csvpaths as declared).

Run with PYTHONPATH pointing at the csvpath tree under test. The script makes
its own scratch working directory (config, inputs, archive, logs, cache), so it
can be started from anywhere. Everything observable is printed to stdout as a
deterministic transcript: run-directory timestamps, uuids, clock times and
object addresses are normalised; tracebacks (which embed source line numbers)
are not printed.
"""
import contextlib
import datetime
import io
import json
import os
import re
import shutil
import sys
import tempfile
import time

CONFIG = """[csvpath_files]
extensions = txt, csvpath, csvpaths

[csv_files]
extensions = txt, csv, tsv, dat, tab, psv, ssv

[errors]
csvpath = raise, collect, stop, fail, print
csvpaths = raise, collect

[logging]
csvpath = info
csvpaths = info
log_file = logs/csvpath.log
log_files_to_keep = 100
log_file_size = 52428800

[config]
path = config/config.ini

[cache]
path = cache

[listeners]
[marquez]
base_url = http://localhost:5000

[functions]
imports = config/functions.imports

[results]
archive = archive
transfers = transfers

[inputs]
files = inputs/named_files
csvpaths = inputs/named_paths
on_unmatched_file_fingerprints = halt
"""

WORK = tempfile.mkdtemp(prefix="demo_TXC20_")
os.chdir(WORK)
os.makedirs("config")
with open("config/config.ini", "w", encoding="utf-8") as _f:
    _f.write(CONFIG)
with open("config/functions.imports", "w", encoding="utf-8") as _f:
    _f.write("")

from csvpath import CsvPath, CsvPaths  # noqa: E402  pylint: disable=C0413
from csvpath.matching.productions import Reference  # noqa: E402  pylint: disable=C0413

# ----------------------------------------------------------------------------
# normalisation helpers
# ----------------------------------------------------------------------------
RUN_RE = r"\d{4}-\d\d-\d\d_\d\d-\d\d-\d\d(?:\.\d+)?"


def _run_key(x):
    t, dot, n = x.partition(".")
    return (datetime.datetime.strptime(t, "%Y-%m-%d_%H-%M-%S"), int(n) if dot else -1)


def _run_ordinal(group, run):
    d = os.path.join("archive", group)
    if not os.path.isdir(d):
        return "RUN?"
    names = sorted([n for n in os.listdir(d) if re.fullmatch(RUN_RE, n)], key=_run_key)
    return f"RUN{names.index(run)}" if run in names else "RUN?"


def norm(s) -> str:
    s = f"{s}"
    s = s.replace(WORK, "<WORK>")
    s = re.sub(
        r"archive/([^/\s'\"]+)/(" + RUN_RE + ")",
        lambda m: f"archive/{m.group(1)}/{_run_ordinal(m.group(1), m.group(2))}",
        s,
    )
    s = re.sub(RUN_RE, "RUNDIR", s)
    s = re.sub(r"\d{4}-\d\d-\d\d[ T]\d\d:\d\d:\d\d(\.\d+)?(\+00:00)?", "<TIME>", s)
    s = re.sub(
        r"[0-9a-f]{8}-[0-9a-f]{4}-[0-9a-f]{4}-[0-9a-f]{4}-[0-9a-f]{12}", "<UUID>", s
    )
    s = re.sub(r"0x[0-9a-f]+", "<ADDR>", s)
    return s


def fresh_second():
    """run dirs are named for the second they start in, with a .N suffix on
    collision. references that name a run dir exactly cannot carry the suffix,
    so the runs they point at must each start in a second of their own."""
    time.sleep(1.02 - (time.time() % 1.0))


def out(*args):
    print(norm(" ".join(f"{a}" for a in args)))


def section(title):
    out("")
    out("=" * 70)
    out(title)
    out("=" * 70)


def exc_str(e):
    # first line only: some messages dump whole object graphs
    first = f"{e}".split("\n")[0]
    return f"{type(e).__name__}: {first}"


def attempt(label, fn):
    """runs fn capturing anything the library prints. prints the captured
    printouts, then the result or the exception."""
    buf = io.StringIO()
    try:
        with contextlib.redirect_stdout(buf):
            ret = fn()
        for line in buf.getvalue().splitlines():
            out(f"  [stdout] {line}")
        out(f"{label} -> {ret!r}")
        return ret
    except Exception as e:  # pylint: disable=W0718
        for line in buf.getvalue().splitlines():
            out(f"  [stdout] {line}")
        out(f"{label} !! {exc_str(e)}")
        c = e.__cause__
        while c is not None:
            out(f"     caused by {exc_str(c)}")
            c = c.__cause__
        return None


def write(name, text):
    with open(name, "w", encoding="utf-8", newline="") as f:
        f.write(text)
    return name


def read_text(path):
    if not os.path.exists(path):
        return None
    with open(path, "r", encoding="utf-8", newline="") as f:
        return f.read()


def err_summary(errors):
    ret = []
    for e in errors or []:
        ret.append(
            (
                type(e.error).__name__,
                f"{e.error}".split("\n")[0],
                e.line_count,
                e.match_count,
                e.scan_count,
                e.filename,
            )
        )
    return ret


RUNTIME_KEYS = [
    "file_name",
    "total_lines",
    "count_lines",
    "line_number",
    "count_matches",
    "count_scans",
    "scan_part",
    "match_part",
    "headers",
    "valid",
    "stopped",
    "source-mode",
    "lines_collected",
]
INSTANCE_KEYS = [
    "instance_identity",
    "files_expected",
    "file_count",
    "valid",
    "completed",
    "source_mode_preceding",
    "preceding_instance_identity",
    "actual_data_file",
    "origin_data_file",
    "named_file_name",
]
RUN_KEYS = [
    "serial",
    "all_completed",
    "all_valid",
    "error_count",
    "all_expected_files",
    "status",
    "run_home",
    "named_results_name",
    "named_paths_name",
    "named_file_name",
    "named_file_path",
    "named_file_fingerprint",
]


def load_json(path):
    t = read_text(path)
    if t is None:
        return None
    try:
        return json.loads(t)
    except Exception as e:  # pylint: disable=W0718
        return f"unparseable: {exc_str(e)}"


def dump_instance_dir(d):
    out(f"    dir {d}: {sorted(os.listdir(d)) if os.path.isdir(d) else None}")
    out(f"    data.csv: {read_text(os.path.join(d, 'data.csv'))!r}")
    out(f"    unmatched.csv: {read_text(os.path.join(d, 'unmatched.csv'))!r}")
    out(f"    vars.json: {load_json(os.path.join(d, 'vars.json'))!r}")
    errs = load_json(os.path.join(d, "errors.json"))
    if isinstance(errs, list):
        errs = [
            {k: v for k, v in e.items() if k not in ("trace", "at", "source")}
            for e in errs
        ]
    out(f"    errors.json: {errs!r}")
    out(f"    printouts.txt: {read_text(os.path.join(d, 'printouts.txt'))!r}")
    meta = load_json(os.path.join(d, "meta.json"))
    if isinstance(meta, dict):
        out(f"    meta.metadata: {meta.get('metadata')!r}")
        rt = meta.get("runtime_data") or {}
        out(f"    meta.runtime: { {k: rt.get(k) for k in RUNTIME_KEYS} !r}")
    else:
        out(f"    meta.json: {meta!r}")
    man = load_json(os.path.join(d, "manifest.json"))
    if isinstance(man, dict):
        out(f"    manifest: { {k: man.get(k) for k in INSTANCE_KEYS} !r}")
        fps = man.get("file_fingerprints") or {}
        out(
            f"    manifest fingerprints: { {k: fps.get(k) for k in sorted(fps) if k in ('data.csv', 'vars.json', 'unmatched.csv')} !r}"
        )
    else:
        out(f"    manifest.json: {man!r}")


def dump_results(cp, group, *, archive=True):
    rm = cp.results_manager
    try:
        results = rm.get_named_results(group)
    except Exception as e:  # pylint: disable=W0718
        out(f"  no results for {group}: {exc_str(e)}")
        return
    out(f"  results for {group}: {len(results)}")
    prev = None
    for r in results:
        out(f"  - member {r.identity_or_index} (run_index {r.run_index})")
        out(f"    run_dir: {r.run_dir}")
        out(f"    lines: {list(r.lines.next()) if hasattr(r.lines, 'next') else r.lines!r}")
        out(f"    len(lines)/len(result): {len(r.lines)} / {len(r)}")
        out(f"    unmatched: {r.unmatched!r}")
        out(f"    variables: {r.csvpath.variables!r}")
        out(f"    is_valid: {r.is_valid}  stopped: {r.csvpath.stopped}")
        out(f"    errors: {err_summary(r.errors)!r}")
        out(f"    printouts: {r.get_printouts()!r}")
        out(f"    metadata: {r.csvpath.metadata!r}")
        out(f"    data_from_preceding: {r.csvpath.data_from_preceding!r}")
        out(f"    scanner file: {r.csvpath.scanner.filename if r.csvpath.scanner else None}")
        out(f"    actual_data_file: {attempt_quiet(lambda: r.actual_data_file)}")
        out(f"    data_file_path: {r.data_file_path}")
        if prev is not None and r.csvpath.data_from_preceding is True:
            same = r.csvpath.scanner is not None and (
                r.csvpath.scanner.filename == prev.data_file_path
            )
            out(f"    PROPERTY reads predecessor data.csv: {same}")
        if archive:
            dump_instance_dir(r.instance_dir)
        prev = r
    if archive and results:
        man = load_json(os.path.join(results[0].run_dir, "manifest.json"))
        if isinstance(man, dict):
            out(f"  run manifest: { {k: man.get(k) for k in RUN_KEYS} !r}")
        else:
            out(f"  run manifest: {man!r}")


def attempt_quiet(fn):
    try:
        return fn()
    except Exception as e:  # pylint: disable=W0718
        return f"!! {exc_str(e)}"


def manager_api(cp, group):
    rm = cp.results_manager
    attempt(f"  rm.get_variables({group})", lambda: rm.get_variables(group))
    attempt(f"  rm.has_lines({group})", lambda: rm.has_lines(group))
    attempt(f"  rm.is_valid({group})", lambda: rm.is_valid(group))
    attempt(f"  rm.has_errors({group})", lambda: rm.has_errors(group))
    attempt(f"  rm.get_number_of_results({group})", lambda: rm.get_number_of_results(group))
    attempt(f"  rm.get_number_of_errors({group})", lambda: rm.get_number_of_errors(group))
    for ident in ["one", "two", "0", "1", "", "nosuch", None]:
        attempt(
            f"  rm.get_specific_named_result({group},{ident!r})",
            lambda ident=ident: (
                lambda r: None if r is None else r.identity_or_index
            )(rm.get_specific_named_result(group, ident)),
        )
    attempt(
        f"  rm.get_last_named_result({group})",
        lambda: (lambda r: None if r is None else r.identity_or_index)(
            rm.get_last_named_result(name=group)
        ),
    )
    attempt(
        f"  rm.get_metadata({group})",
        lambda: {
            k: v
            for k, v in rm.get_metadata(group).items()
            if k
            in (
                "paths_name",
                "file_name",
                "data_lines",
                "csvpaths_applied",
                "csvpaths_completed",
                "valid",
            )
        },
    )


def tree(root):
    ret = []
    for base, dirs, files in os.walk(root):
        dirs.sort()
        for f in sorted(files):
            ret.append(os.path.join(base, f))
    return ret


# ----------------------------------------------------------------------------
# data
# ----------------------------------------------------------------------------
FILES = {
    "plain": write(
        "plain.csv",
        "a,b,c\n1,x,10\n2,y,20\n3,z,30\n4,x,0\n5,,50\n",
    ),
    "messy": write(
        "messy.csv",
        'a,b,c\n1,x,10\n\n2,,20\n3,"q,r",0\n4,z\n,,\n5,w,7,extra\n0,0,0\n\n6," sp ","say ""hi"""\n',
    ),
    "header_only": write("header_only.csv", "a,b,c\n"),
    "one_col": write("one_col.csv", "a\n1\n\n0\n3\n"),
    "empty": write("empty.csv", ""),
}

FILTERS = [
    "yes()",
    "#a",
    'not(#b == "x")',
    "gt(#c, 5)",
    '#a == "3"',
    "no()",
    "mod(line_number(), 2) == 0",
    "count() == 2",
]

ERRORS_QUIET = "validation-mode: no-raise, no-stop, print"


def chain(n, k, offset, extra=""):
    """n filter csvpaths; members k.. run in source-mode preceding."""
    paths = []
    for i in range(n):
        flt = FILTERS[(offset + i * 3) % len(FILTERS)]
        mode = " source-mode: preceding" if i >= k else ""
        paths.append(
            f"~ id: m{i}{mode} {extra} ~ $[*][ {flt} @seen.m{i} = count_lines() push(\"as{i}\", #0) ]"
        )
    return paths


# ----------------------------------------------------------------------------
section("1. chains of 2-4 filter csvpaths, source-mode preceding on every suffix")
# ----------------------------------------------------------------------------
offset = 0
for fname in FILES:
    for n in (2, 3, 4):
        for k in range(1, n):
            offset += 1
            cp = CsvPaths()
            cp.file_manager.add_named_file(name=fname, path=FILES[fname])
            group = f"c_{fname}_{n}_{k}"
            paths = chain(n, k, offset, ERRORS_QUIET)
            cp.paths_manager.add_named_paths(name=group, paths=paths)
            out("")
            out(f"--- chain {group}")
            for p in paths:
                out(f"    {p}")
            attempt(
                f"  collect_paths({fname},{group})",
                lambda: cp.collect_paths(filename=fname, pathsname=group),
            )
            dump_results(cp, group)

# ----------------------------------------------------------------------------
section("2. same chains under the default (raising) error policy, other run methods")
# ----------------------------------------------------------------------------
for fname in ("messy", "empty", "plain"):
    cp = CsvPaths()
    cp.file_manager.add_named_file(name=fname, path=FILES[fname])
    group = f"r_{fname}"
    cp.paths_manager.add_named_paths(name=group, paths=chain(3, 1, 3))
    out("")
    out(f"--- {group}: collect_paths")
    attempt("  collect_paths", lambda: cp.collect_paths(filename=fname, pathsname=group))
    dump_results(cp, group)
    out(f"--- {group}: fast_forward_paths")
    attempt(
        "  fast_forward_paths",
        lambda: cp.fast_forward_paths(filename=fname, pathsname=group),
    )
    dump_results(cp, group)
    manager_api(cp, group)
    out(f"--- {group}: next_paths(collect=True)")
    attempt(
        "  next_paths",
        lambda: list(cp.next_paths(filename=fname, pathsname=group, collect=True)),
    )
    dump_results(cp, group)
    manager_api(cp, group)
    out(f"--- {group}: collect_by_line (breadth-first does not allow preceding)")
    attempt(
        "  collect_by_line",
        lambda: cp.collect_by_line(filename=fname, pathsname=group),
    )
    out(f"--- {group}: first member is preceding (nothing precedes it)")
    cp.paths_manager.add_named_paths(
        name=group + "_p0",
        paths=[
            "~ id: first source-mode: preceding ~ $[*][ #a ]",
            "~ id: second source-mode: preceding ~ $[*][ yes() ]",
        ],
    )
    attempt(
        "  collect_paths",
        lambda: cp.collect_paths(filename=fname, pathsname=group + "_p0"),
    )
    dump_results(cp, group + "_p0")

# ----------------------------------------------------------------------------
section("3. variable and header references after 1-3 runs of the referenced group")
# ----------------------------------------------------------------------------
REFERRERS = [
    "$[1][ @x = $vars.variables.n ]",
    "$[*][ @x = $vars.variables.n @y = $vars.variables.seen ]",
    "$[1][ @x = $vars.variables.tot.x @y = $vars.variables.tot.nosuch ]",
    "$[1][ @x = $vars.variables.zero @y = $vars.variables.blank @z = $vars.variables.bs ]",
    "$[1][ @x = $vars.variables.only_two ]",
    "$[1][ @x = $vars.variables.unknown ]",
    "$[1][ @x = $vars.headers.a ]",
    "$[1][ @x = $vars.headers.a.one @y = $vars.headers.b.two @z = $vars.headers.c.two ]",
    "$[*][ @x = $vars.headers.b.one ]",
    "$[1][ @x = $vars.headers.a.nosuch ]",
    "$[1][ @x = $vars.headers.nosuch.one ]",
    "$[1][ @x = $single.headers.a @y = $single.headers.b @z = $single.headers.c ]",
    "$[*][ $single.headers.b ]",
    "$[*][ $single.headers.c ]",
    "$[1][ @x = $single.headers.nosuch ]",
    "$[1][ @x = $single.variables.n @y = $single.variables.k.y ]",
    "$[*][ $single.variables.never ]",
    "$[*][ $single.variables.zero ]",
    "$[*][ $single.variables.k.nosuch ]",
    '$[1][ @x = in("x", $single.headers.b) @y = in("nope", $single.headers.b) ]',
    "$[1][ @x = $nogroup.variables.n ]",
    "$[1][ @x = $nogroup.headers.a ]",
    "$[1][ @x = $vars.csvpaths.one @y = $single.csvpaths.whatever ]",
    "$[1][ @x = $vars.metadata.id ]",
    "$[1][ @x = $ffonly.headers.a ]",
    "$[1][ @x = $ffonly.variables.n ]",
    "$[1][ @x = $empties.headers.a ]",
    "$[1][ @x = $empties.variables.n ]",
]


def run_referrers(cp, errors_quiet):
    for ref in REFERRERS:
        for method in ("collect", "fast_forward"):
            path = cp.csvpath()
            if errors_quiet:
                path.config.csvpath_errors_policy = ["collect", "print"]
            pathstr = ref.replace("$[", f"${FILES['plain']}[", 1)

            def go(path=path, pathstr=pathstr, method=method):
                path.parse(pathstr)
                return path.collect() if method == "collect" else path.fast_forward()

            ret = attempt(f"  {method} {ref}", go)
            out(
                f"      variables={path.variables!r} valid={path.is_valid} stopped={path.stopped}"
                f" errors={err_summary(path.errors)!r}"
            )
            if method == "collect" and ret is not None:
                out(f"      lines={list(ret)!r}")


cp = CsvPaths()
run_files = ["plain", "messy", "one_col"]
cp.paths_manager.add_named_paths(
    name="vars",
    paths=[
        '~ id: one ~ $[*][ @n = count() @tot.x = #a tally(#b) @zero = 0 @blank = "" push("bs", #b) @seen = line_number() yes() ]',
        '~ id: two ~ $[*][ @n = "from two" @only_two = count_lines() @seen.two = #0 #a == "3" ]',
    ],
)
cp.paths_manager.add_named_paths(
    name="single",
    paths=['~ id: solo ~ $[1*][ @n = count() @k.y = #b @zero = 0 not(#a == "2") ]'],
)
cp.paths_manager.add_named_paths(
    name="ffonly", paths=["~ id: ff ~ $[*][ @n = count() yes() ]"]
)
cp.paths_manager.add_named_paths(
    name="empties", paths=["~ id: e ~ $[*][ @n = count() no() ]"]
)
for runs in (1, 2, 3):
    out("")
    out(f"--- after run {runs} of each group")
    fname = run_files[runs - 1]
    cp.file_manager.add_named_file(name="data", path=FILES[fname])
    attempt(
        f"  collect_paths(vars) on {fname}",
        lambda: cp.collect_paths(filename="data", pathsname="vars"),
    )
    attempt(
        f"  collect_paths(single) on {fname}",
        lambda: cp.collect_paths(filename="data", pathsname="single"),
    )
    attempt(
        f"  fast_forward_paths(ffonly) on {fname}",
        lambda: cp.fast_forward_paths(filename="data", pathsname="ffonly"),
    )
    attempt(
        f"  collect_paths(empties) on {fname}",
        lambda: cp.collect_paths(filename="data", pathsname="empties"),
    )
    for g in ("vars", "single", "ffonly", "empties"):
        dump_results(cp, g, archive=False)
        manager_api(cp, g)
    attempt("  rm.get_variables(nogroup)", lambda: cp.results_manager.get_variables("nogroup"))
    attempt("  rm.has_lines(nogroup)", lambda: cp.results_manager.has_lines("nogroup"))
    out("  .. referrers, raising policy")
    run_referrers(cp, False)
    out("  .. referrers, collect+print policy")
    run_referrers(cp, True)

out("")
out("--- references inside a named-paths group (a later group reads an earlier one)")
cp.paths_manager.add_named_paths(
    name="reader",
    paths=[
        "~ id: r1 ~ $[*][ @n = $vars.variables.n @bs = $single.headers.b $single.variables.n ]",
        "~ id: r2 source-mode: preceding ~ $[*][ @k = $single.variables.k.y in(#b, $single.headers.b) ]",
    ],
)
attempt("  collect_paths(reader)", lambda: cp.collect_paths(filename="data", pathsname="reader"))
dump_results(cp, "reader")

out("")
out("--- a reference without any CsvPaths")
p = CsvPath()
attempt(
    "  standalone variables ref",
    lambda: (p.parse(f"${FILES['plain']}[1][ @x = $vars.variables.n ]"), p.collect())[1],
)
out(f"      variables={p.variables!r} errors={err_summary(p.errors)!r}")
p = CsvPath()
attempt(
    "  standalone csvpaths ref",
    lambda: (p.parse(f"${FILES['plain']}[1][ @x = $vars.csvpaths.one ]"), p.collect())[1],
)
out(f"      variables={p.variables!r} errors={err_summary(p.errors)!r}")

out("")
out("--- Reference objects directly")
for name in [
    "zipcodes.variables.zipcodes.Boston",
    "zipcodes.headers.zipcodes",
    "zipcodes.csvpaths.zipcodes",
    "zipcodes.metadata.zipcodes.Boston",
    "a.variables.b.c.d",
    "a.variables",
    "a",
]:
    def mk(name=name):
        r = Reference(matcher=None, name=name)
        return (
            r.name_parts,
            r._get_reference_for_parts(r.name_parts),
            r.data_type(),
            r.is_header(),
            r.is_variable(),
            r.data_name(),
            r.tracking_name(),
        )

    attempt(f"  Reference({name})", mk)

# ----------------------------------------------------------------------------
section("4. results references used as a file name (replay)")
# ----------------------------------------------------------------------------
cp = CsvPaths()
cp.file_manager.add_named_file(name="plain", path=FILES["plain"])
cp.file_manager.add_named_file(name="messy", path=FILES["messy"])
cp.paths_manager.add_named_paths(
    name="chain",
    paths=[
        "~ id: one ~ $[*][ #a @n = count() ]",
        '~ id: two source-mode: preceding ~ $[*][ not(#b == "x") @n2 = count() ]',
        "~ id: three source-mode: preceding ~ $[*][ gt(#c, 5) ]",
    ],
)
cp.paths_manager.add_named_paths(
    name="other", paths=["~ id: o1 ~ $[*][ yes() @lines = count_lines() ]"]
)
rm = cp.results_manager


def check_replay(refstr):
    def go():
        p = rm.data_file_for_reference(refstr)
        return (p, read_text(p))

    return attempt(f"  data_file_for_reference({refstr})", go)


REFS = [
    "$chain.results.202:last.one",
    "$chain.results.202:first.one",
    "$chain.results.202:last.two",
    "$chain.results.202:first.three",
    "$chain.results.2:last.three",
    "$chain.results.:last.one",
    "$chain.results.202:last.nosuch",
    "$chain.results.1999:last.one",
    "$chain.results.1999-01-01_00-00-00.one",
    "$chain.results.202:bogus.one",
    "$chain.results.202:0.one",
    "$nochain.results.202:last.one",
    "$chain.variables.n",
    "$chain.headers.a",
    "$chain.results.202:last",
    "$chain.bogus.202:last.one",
    "chain.results.202:last.one",
]
for runs, fname in ((1, "plain"), (2, "messy"), (3, "plain")):
    out("")
    out(f"--- run {runs} of chain on {fname}")
    fresh_second()
    attempt("  collect_paths(chain)", lambda: cp.collect_paths(filename=fname, pathsname="chain"))
    dump_results(cp, "chain", archive=False)
    for refstr in REFS:
        check_replay(refstr)
    run_dirs = sorted(
        [n for n in os.listdir("archive/chain") if re.fullmatch(RUN_RE, n)], key=_run_key
    )
    for i, rd in enumerate(run_dirs):
        out(f"  exact run dir #{i}:")
        check_replay(f"$chain.results.{rd}.two")
    out(f"  .. replaying into another group, after run {runs}")
    for refstr in [
        "$chain.results.202:last.one",
        "$chain.results.202:first.two",
        "$chain.results.202:last.three",
        "$chain.results.202:last.nosuch",
        "$chain.results.1999:last.one",
        "$nochain.results.202:last.one",
        "$chain.variables.n",
    ]:
        attempt(
            f"  collect_paths(other) on {refstr}",
            lambda refstr=refstr: cp.collect_paths(filename=refstr, pathsname="other"),
        )
        dump_results(cp, "other", archive=False)
        res = attempt_quiet(lambda: rm.get_named_results("other"))
        if isinstance(res, list) and res:
            dump_instance_dir(res[0].instance_dir)

out("")
out("--- replaying a suffix of the chain from a member's data.csv")
attempt(
    "  collect_paths(two:from) on last one",
    lambda: cp.collect_paths(
        filename="$chain.results.202:last.one", pathsname="$chain.csvpaths.two:from"
    ),
)
dump_results(cp, "chain")
attempt(
    "  fast_forward_paths(three:from) on first two",
    lambda: cp.fast_forward_paths(
        filename="$chain.results.202:first.two", pathsname="$chain.csvpaths.three:from"
    ),
)
dump_results(cp, "chain")
attempt(
    "  next_paths(two:from) on first one",
    lambda: list(
        cp.next_paths(
            filename="$chain.results.202:first.one",
            pathsname="$chain.csvpaths.two:from",
            collect=True,
        )
    ),
)
dump_results(cp, "chain")
attempt(
    "  collect_by_line(chain) on first one",
    lambda: cp.collect_by_line(
        filename="$chain.results.202:first.one", pathsname="chain"
    ),
)

out("")
out("--- a member that was only fast-forwarded has no data.csv to replay")
cp.paths_manager.add_named_paths(name="ffchain", paths=["~ id: f1 ~ $[*][ yes() ]"])
attempt("  fast_forward_paths(ffchain)", lambda: cp.fast_forward_paths(filename="plain", pathsname="ffchain"))
check_replay("$ffchain.results.202:last.f1")
attempt(
    "  collect_paths(other) on ffchain",
    lambda: cp.collect_paths(filename="$ffchain.results.202:last.f1", pathsname="other"),
)

out("")
out("--- picking run dirs by name")
NAMES = [
    "2024-01-01_10-15-20",
    "2024-01-01_10-15-20.0",
    "2024-01-01_10-15-20.1",
    "2024-01-01_10-15-20.10",
    "2024-01-01_10-15-20.2",
    "2024-01-01_10-15-21",
    "2024-02-01_00-00-00",
    "2023-12-31_23-59-59",
    "2025-01-01_00-00-00.3",
]
for names in (NAMES, list(reversed(NAMES)), NAMES[:1], [], ["2024-01-01_10-15-20", "junk"], ["junk"]):
    for inst in ("2024-01-01_10-15-", "2024-01-01_10-15-20", "2024-", "202", "", "2026", "j"):
        for last in (True, False, 1, 0, None):
            attempt(
                f"  _find_in_dir_names({inst!r}, {len(names)} names, {last!r})",
                lambda names=names, inst=inst, last=last: rm._find_in_dir_names(
                    inst, list(names), last
                ),
            )
attempt("  list_named_results", rm.list_named_results)

# ----------------------------------------------------------------------------
section("5. archive listing")
# ----------------------------------------------------------------------------
for f in sorted(norm(f) for f in tree("archive")):
    out(f"  {f}")

os.chdir("/")
shutil.rmtree(WORK, ignore_errors=True)
