#
# differential demonstration for property C19:
#   "Results depend only on the csvpath, the file and the configuration"
#
# usage:   cd <empty temp dir> && PYTHONPATH=<csvpath tree> python demo.py > out.txt
#
# the script is self-contained: it creates ./config/config.ini (offline, no
# listeners), the data files and everything else in the current directory and
# prints a deterministic transcript of everything observable. run-directory
# timestamps, cache file names (which hash the file's mtime), uuids and times
# are normalised or left out.
#
import contextlib
import io
import json
import os
import shutil
import subprocess
import sys

CONFIG = """[csvpath_files]
extensions = txt, csvpath, csvpaths

[csv_files]
extensions = txt, csv, tsv, dat, tab, psv, ssv

[errors]
csvpath = raise, collect, stop, fail, print
csvpaths = raise, collect

[logging]
csvpath = info
csvpaths = info
log_file = logs/csvpath.log
log_files_to_keep = 100
log_file_size = 52428800

[config]
path = config/config.ini

[cache]
path = cache

[listeners]
[marquez]
base_url = http://localhost:5000

[functions]
imports = config/functions.imports

[results]
archive = archive
transfers = transfers

[inputs]
files = inputs/named_files
csvpaths = inputs/named_paths
on_unmatched_file_fingerprints = halt
"""

FILES = {
    "plain.csv": "a,b,c\n1,2,3\n4,5,6\n0,0,0\n",
    "blanks.csv": "\n\na,b,c\n1,2,3\n\n4,5\n7,,9,10\n\n",
    "quoted.csv": '"first name"," last, name ","say ""hi""",d;e,f|g,`tick`,"t\tab",\n'
    'Ann,"Lee, jr",hello,1,2,3,4,\n'
    '"",,"",0,0,0,0,0\n'
    'Bob,"x ""y"" z",,,,,,\n',
    "empty.csv": "",
    "onlyblank.csv": "\n\n\n",
    "headeronly.csv": "x,y\n",
    "zeros.csv": "n,m\n0,\n,0\n0,0\n00,0.0\n",
    "spaces.csv": "  lead , trail  ,  ,mid dle\n 1 ,2, ,3\n",
    "pipes.psv": "a|b,c|'d|e'\n1|2|3\n\n4|5\n",
    "noeol.csv": "k,v\n1,one\n2,two",
}

# (csvpath template, kwargs for CsvPath). FILE is replaced by the file name
PATHS = [
    "$FILE[*][yes()]",
    "$FILE[*][@t = total_lines() @c = count_lines() @n = line_number() last() -> @last = line_number()]",
    '$FILE[1*][@h = count_headers() @hl = count_headers_in_line() not(@h == @hl) -> print("ragged at $.csvpath.line_number: $.headers.0")]',
    '$FILE[*][line_number() == 3 -> reset_headers() push("names", header_name(0)) @e = end()]',
    '$FILE[0-2][ #0 == "0" -> fail() @z = empty(#1) print("$.csvpath.count_lines/$.csvpath.total_lines valid=$.csvpath.valid")]',
    "$FILE[*][ advance(1) @l = line_number() @x = #zzz ]",
    '$FILE[*][ add("x", #0) ]',
]


def setup() -> None:
    os.makedirs("config", exist_ok=True)
    with open("config/config.ini", "w", encoding="utf-8") as f:
        f.write(CONFIG)
    with open("config/functions.imports", "w", encoding="utf-8") as f:
        f.write("")
    for name, content in FILES.items():
        with open(name, "w", encoding="utf-8", newline="") as f:
            f.write(content)


def say(*args) -> None:
    print(*args)
    sys.stdout.flush()


def errs(errors) -> list:
    if errors is None:
        return None
    return [
        (e.line_count, e.match_count, e.scan_count, type(e.error).__name__, e.message)
        for e in errors
    ]


def lm_str(lm) -> str:
    return "None" if lm is None else lm.dump()


def show_exc(e) -> str:
    return f"{type(e).__name__}: {str(e).splitlines()[0] if str(e) else ''}"


def direct_job(template: str, filename: str, csvpaths=None, **kw) -> None:
    """runs one csvpath directly (no CsvPaths unless given) and prints everything"""
    from csvpath import CsvPath

    path = template.replace("FILE", filename)
    out = io.StringIO()
    p = None
    lines = None
    exc = None
    with contextlib.redirect_stdout(out):
        try:
            p = CsvPath(csvpaths=csvpaths, **kw)
            p.parse(path)
            lines = p.collect()
        except Exception as e:  # pylint: disable=W0718
            exc = e
    say(f"  JOB {path} {kw if kw else ''}")
    say(f"    exception: {show_exc(exc) if exc else None}")
    say(f"    lines: {lines}")
    if p is not None:
        say(f"    variables: {p.variables}")
        say(f"    valid: {p.is_valid} stopped: {p.stopped}")
        say(f"    errors: {errs(p.errors)}")
        try:
            say(f"    headers: {p.headers}")
            say(f"    line_monitor: {lm_str(p.line_monitor)}")
        except Exception as e:  # pylint: disable=W0718
            say(f"    headers/line_monitor exception: {show_exc(e)}")
        say(
            f"    counts: lines={p.line_monitor.physical_line_count if p._line_monitor else None} scans={p.scan_count} matches={p.match_count}"
        )
    say("    printouts:")
    for line in out.getvalue().splitlines():
        say(f"      | {line}")


# ---------------------------------------------------------------- CsvPaths

RUNS = {}


def new_run_dirs(name: str) -> list:
    base = os.path.join("archive", name)
    seen = RUNS.setdefault(name, [])
    found = []
    if os.path.exists(base):
        for d in sorted(os.listdir(base)):
            if os.path.isdir(os.path.join(base, d)) and d not in seen:
                seen.append(d)
                found.append(d)
    return found


META_KEYS = [
    "total_lines",
    "count_lines",
    "line_number",
    "count_matches",
    "count_scans",
    "headers",
    "valid",
    "stopped",
    "lines_collected",
    "match_part",
]
MANIFEST_KEYS = ["valid", "completed", "files_expected", "file_count"]
FINGERPRINTED = ["data.csv", "vars.json", "printouts.txt", "unmatched.csv"]


def show_archive(name: str) -> None:
    """prints the run dirs created since last call, timestamps normalised"""
    for d in new_run_dirs(name):
        label = f"RUN{RUNS[name].index(d)}"
        home = os.path.join("archive", name, d)
        say(f"    archive/{name}/{label}:")
        for root, dirs, files in os.walk(home):
            dirs.sort()
            for fn in sorted(files):
                full = os.path.join(root, fn)
                rel = os.path.relpath(full, home)
                with open(full, "r", encoding="utf-8") as f:
                    text = f.read()
                if fn in ("data.csv", "vars.json", "printouts.txt", "unmatched.csv"):
                    say(f"      {rel}: {text!r}")
                elif fn == "errors.json":
                    j = json.loads(text)
                    es = [
                        (e.get("line_count"), e.get("error"), e.get("message"))
                        for e in j
                    ]
                    say(f"      {rel}: {es}")
                elif fn == "meta.json":
                    j = json.loads(text)
                    rd = j.get("runtime_data", {})
                    say(f"      {rel}: { {k: rd.get(k) for k in META_KEYS} }")
                elif fn == "manifest.json":
                    j = json.loads(text)
                    if "file_fingerprints" in j:
                        fp = j["file_fingerprints"]
                        picked = {k: j.get(k) for k in MANIFEST_KEYS}
                        picked["fingerprints"] = {
                            k: fp[k][0:12] for k in sorted(fp) if k in FINGERPRINTED
                        }
                        say(f"      {rel}: {picked}")
                    else:
                        picked = {
                            k: j.get(k)
                            for k in [
                                "all_completed",
                                "all_valid",
                                "error_count",
                                "all_expected_files",
                                "status",
                            ]
                        }
                        say(f"      {rel}: {picked}")
                else:
                    say(f"      {rel}: ({len(text)} chars)")


def show_cache() -> None:
    """cache file names hash the data file's mtime so we print contents only"""
    entries = []
    if os.path.exists("cache"):
        for fn in os.listdir("cache"):
            with open(os.path.join("cache", fn), "r", encoding="utf-8", newline="") as f:
                entries.append((fn[fn.rfind(".") :], f.read()))
    say(f"    cache: {len(entries)} files")
    for ext, text in sorted(entries):
        say(f"      {ext}: {text!r}")


def group_job(cp, filename: str, pathsname: str, method: str = "collect_paths") -> None:
    """runs a named-paths group against a named-file with the CsvPaths given"""
    out = io.StringIO()
    exc = None
    with contextlib.redirect_stdout(out):
        try:
            getattr(cp, method)(filename=filename, pathsname=pathsname)
        except Exception as e:  # pylint: disable=W0718
            exc = e
    say(f"  GROUP {method} file={filename} paths={pathsname}")
    say(f"    exception: {show_exc(exc) if exc else None}")
    try:
        results = cp.results_manager.get_named_results(pathsname)
    except Exception as e:  # pylint: disable=W0718
        say(f"    no results: {show_exc(e)}")
        results = []
    for i, r in enumerate(results):
        say(f"    result {i} identity={r.identity_or_index}")
        try:
            lines = list(r.lines.next()) if hasattr(r.lines, "next") else list(r.lines)
            lines = (len(r), lines)
        except Exception as e:  # pylint: disable=W0718
            lines = show_exc(e)
        say(f"      lines: {lines}")
        say(f"      variables: {r.csvpath.variables}")
        say(f"      valid: {r.csvpath.is_valid} stopped: {r.csvpath.stopped}")
        say(f"      errors: {errs(r.errors)}")
        say(f"      printouts: {r.printouts}")
        say(f"      headers: {r.csvpath.headers}")
        say(f"      line_monitor: {lm_str(r.csvpath._line_monitor)}")
    say("    stdout:")
    for line in out.getvalue().splitlines():
        say(f"      | {line}")
    show_archive(pathsname)


def new_csvpaths(**kw):
    from csvpath import CsvPaths

    return CsvPaths(**kw)


GROUPS = {
    "all": [
        "$[*][yes()]",
        '~id:two~ $[*][#0=="0" print("zero at $.csvpath.line_number")]',
    ],
    "stats": [
        "~id:stats~ $[*][@t = total_lines() @c = count_lines() last() -> @last = line_number()]",
        '~id:ragged~ $[1*][@h = count_headers() @hl = count_headers_in_line() not(@h == @hl) -> print("ragged at $.csvpath.line_number: $.headers.0")]',
        '~id:reset~ $[*][line_number() == 3 -> reset_headers() push("names", header_name(0))]',
    ],
    "bad": [
        '~id:adder~ $[*][ add("x", #0) ]',
        "~id:after~ $[*][ yes() ]",
    ],
}


def register(cp, files=None) -> None:
    for name in files if files else FILES:
        cp.file_manager.add_named_file(name=name[0 : name.rfind(".")], path=name)
    for name, paths in GROUPS.items():
        cp.paths_manager.add_named_paths(name=name, paths=paths)


def child(args: list) -> None:
    """a fresh process: runs the jobs given as kind:a:b triples, in order"""
    cp = None
    for job in args:
        kind, a, b = job.split(":")
        if kind == "d":
            direct_job(PATHS[int(a)], b)
        elif kind == "dp":
            if cp is None:
                cp = new_csvpaths()
            direct_job(PATHS[int(a)], b, csvpaths=cp)
        else:
            if cp is None:
                cp = new_csvpaths()
            group_job(cp, a, b, "collect_paths" if kind == "g" else kind)


def spawn(*jobs) -> None:
    say(f" PROCESS {' '.join(jobs)}")
    r = subprocess.run(
        [sys.executable, os.path.abspath(__file__), "child", *jobs],
        capture_output=True,
        text=True,
        check=False,
    )
    sys.stdout.write(r.stdout)
    if r.returncode != 0:
        say(f"  child exit code {r.returncode}: {r.stderr.strip().splitlines()[-1:]}")
    sys.stdout.flush()


def wipe(*dirs) -> None:
    for d in dirs:
        if os.path.exists(d):
            shutil.rmtree(d)


def psv_kw(fname: str) -> dict:
    return {"delimiter": "|", "quotechar": "'"} if fname.endswith(".psv") else {}


def section_direct() -> None:
    say("== A. direct CsvPath jobs: every path on every file")
    for fname in FILES:
        for t in PATHS:
            direct_job(t, fname, **psv_kw(fname))
    say("== A2. repeats and interleavings in this process")
    for fname in ["blanks.csv", "quoted.csv", "empty.csv", "blanks.csv"]:
        for t in [PATHS[1], PATHS[3], PATHS[1]]:
            direct_job(t, fname)
    direct_job(PATHS[0], "missing.csv")
    direct_job("$[*][yes()]", "")
    direct_job(PATHS[0], "blanks.csv", skip_blank_lines=False)
    direct_job(PATHS[1], "onlyblank.csv", skip_blank_lines=False)


def section_processes() -> None:
    say("== B. fresh processes; cold cache then warm cache; different job orders")
    wipe("cache", "archive", "inputs")
    cp = new_csvpaths()
    register(cp)
    show_cache()
    spawn("g:blanks:stats", "g:quoted:all", "dp:1:blanks.csv", "g:blanks:stats")
    show_cache()
    spawn("g:quoted:all")
    spawn("dp:1:blanks.csv", "g:blanks:stats", "g:zeros:all", "g:empty:stats")
    spawn("g:zeros:all", "fast_forward_paths:spaces:stats", "g:onlyblank:all")
    spawn("g:plain:bad", "g:plain:all", "d:6:plain.csv", "d:0:plain.csv")
    show_cache()
    say("== B2. cache dir emptied: same jobs again from a cold cache")
    wipe("cache")
    spawn("g:zeros:all", "g:blanks:stats", "g:quoted:all", "g:empty:stats")
    show_cache()


def section_in_process() -> None:
    say("== C. one CsvPaths instance, then another, different orders")
    wipe("cache")
    cp = new_csvpaths()
    for f, p in [("noeol", "all"), ("quoted", "stats"), ("noeol", "all"), ("pipes", "all")]:
        group_job(cp, f, p)
    direct_job(PATHS[1], "quoted.csv", csvpaths=cp)
    direct_job(PATHS[1], "quoted.csv")
    cp2 = new_csvpaths(delimiter="|", quotechar="'")
    wipe("cache")
    for f, p in [("pipes", "all"), ("pipes", "stats")]:
        group_job(cp2, f, p)
    cp3 = new_csvpaths()
    for f, p in [("quoted", "stats"), ("noeol", "all"), ("headeronly", "stats")]:
        group_job(cp3, f, p, "fast_forward_paths")
    show_cache()


def section_totals() -> None:
    say("== D. CsvPath.get_total_lines_and_headers / get_total_lines / lazy headers and line_monitor")
    from csvpath import CsvPath

    def attempt(label, fn):
        out = io.StringIO()
        with contextlib.redirect_stdout(out):
            try:
                r = fn()
                r = f"-> {r!r}"
            except Exception as e:  # pylint: disable=W0718
                r = f"raised {show_exc(e)}"
        say(f"    {label} {r}")
        for line in out.getvalue().splitlines():
            say(f"      | {line}")

    def state(p):
        say(f"    state: _headers={p._headers!r} _line_monitor={lm_str(p._line_monitor)}")

    say("  -- a CsvPath that has parsed nothing")
    p = CsvPath()
    attempt("get_total_lines_and_headers()", p.get_total_lines_and_headers)
    attempt("headers", lambda: p.headers)
    attempt("line_monitor", lambda: p.line_monitor)
    attempt("get_total_lines()", p.get_total_lines)
    state(p)

    wipe("cache")
    cp = new_csvpaths()
    for owner_name, owner in [("standalone", None), ("with CsvPaths", cp), ("with CsvPaths again", cp)]:
        for fname in FILES:
            say(f"  -- {owner_name}: {fname}")
            kw = psv_kw(fname) if owner is None else {}
            p = CsvPath(csvpaths=owner, **kw)
            attempt("parse", lambda: type(p.parse(f"${fname}[*][yes()]")).__name__)
            state(p)
            before = p._line_monitor
            attempt("get_total_lines_and_headers()", p.get_total_lines_and_headers)
            say(f"    line monitor replaced: {before is not p._line_monitor}")
            before = p._line_monitor
            attempt("get_total_lines()", p.get_total_lines)
            say(f"    line monitor replaced: {before is not p._line_monitor}")
            state(p)
            p.headers = None
            attempt("headers after headers=None", lambda: p.headers)
            p.line_monitor = None
            attempt("get_total_lines() after line_monitor=None", p.get_total_lines)
            p.headers.append("mutated")
            p.line_monitor.next_line(last_line=[], data=["x"])
            state(p)
            attempt("collect()", p.collect)
            state(p)
            attempt("get_total_lines() after the run", p.get_total_lines)
            if owner is not None:
                stored = owner.file_manager.cacher.pathed_lines_and_headers[fname]
                say(f"    cacher holds: {stored[0].dump()} {stored[1]!r}")
                say(f"    ours are copies: {stored[0] is not p._line_monitor} {stored[1] is not p._headers}")
    show_cache()

    say("  -- scanner present but no filename")
    p = CsvPath()
    p.parse("$plain.csv[*][yes()]")
    p.scanner.filename = None
    p.headers = None
    attempt("get_total_lines_and_headers()", p.get_total_lines_and_headers)
    attempt("headers", lambda: p.headers)
    p.scanner.filename = ""
    attempt("get_total_lines_and_headers()", p.get_total_lines_and_headers)
    state(p)
    p.scanner.filename = "zeros.csv"
    attempt("get_total_lines_and_headers()", p.get_total_lines_and_headers)
    state(p)

    say("  -- missing file")
    for owner in [None, cp]:
        p = CsvPath(csvpaths=owner)
        attempt("parse", lambda: type(p.parse("$missing.csv[*][yes()]")).__name__)
        state(p)
        attempt("get_total_lines()", p.get_total_lines)
        attempt("headers", lambda: p.headers)
        state(p)

    say("  -- the cacher fails on the second call: line monitor is set, headers are not")
    cp2 = new_csvpaths()

    def broken(filename):
        raise RuntimeError(f"no headers for {filename}")

    cp2.file_manager.cacher.get_original_headers = broken
    p = CsvPath(csvpaths=cp2)
    attempt("parse", lambda: type(p.parse("$blanks.csv[*][yes()]")).__name__)
    state(p)
    attempt("get_total_lines()", p.get_total_lines)
    attempt("headers", lambda: p.headers)
    state(p)
    say("  -- the cacher fails on the first call: neither is set")
    cp3 = new_csvpaths()
    cp3.file_manager.cacher.get_new_line_monitor = broken
    p = CsvPath(csvpaths=cp3)
    attempt("parse", lambda: type(p.parse("$blanks.csv[*][yes()]")).__name__)
    state(p)

    say("  -- the counter's result is used as is (standalone); calls are recorded in order")
    from csvpath.util.line_counter import LineCounter
    from csvpath.util.line_monitor import LineMonitor

    original = LineCounter.get_lines_and_headers
    calls = []
    for fake in [
        lambda self, path: (calls.append(path) or (LineMonitor(), ["fake", 0, None])),
        lambda self, path: (calls.append(path) or (None, None)),
        lambda self, path: (calls.append(path) or [LineMonitor(), []]),
        lambda self, path: (calls.append(path) or (1, 2, 3)),
        lambda self, path: (calls.append(path) or None),
    ]:
        LineCounter.get_lines_and_headers = fake
        try:
            p = CsvPath()
            attempt("parse", lambda: type(p.parse("$plain.csv[*][yes()]")).__name__)
            state(p)
            attempt("get_total_lines_and_headers()", p.get_total_lines_and_headers)
            state(p)
        finally:
            LineCounter.get_lines_and_headers = original
    say(f"    counter calls: {calls}")

    say("  -- a CsvPaths that is falsy is treated as no CsvPaths")

    from csvpath import CsvPaths

    class FalsyCsvPaths(CsvPaths):
        def __bool__(self):
            return False

    fp = FalsyCsvPaths()
    p = CsvPath(csvpaths=fp)
    attempt("parse", lambda: type(p.parse("$zeros.csv[*][yes()]")).__name__)
    state(p)
    attempt("get_total_lines()", p.get_total_lines)
    say(f"    cacher knows: {sorted(fp.file_manager.cacher.pathed_lines_and_headers)}")
    direct_job(PATHS[1], "zeros.csv", csvpaths=fp)
    say(f"    cacher knows: {sorted(fp.file_manager.cacher.pathed_lines_and_headers)}")

    say("  -- matcher functions that ask for totals mid-run")
    for fname in ["blanks.csv", "empty.csv", "headeronly.csv", "onlyblank.csv"]:
        for owner in [None, cp]:
            direct_job('$FILE[*][@t = total_lines() print("$.csvpath.total_lines $.csvpath.headers")]', fname, csvpaths=owner)


def main() -> None:
    setup()
    section_direct()
    section_processes()
    section_in_process()
    section_totals()
    say("== done")


if __name__ == "__main__":
    if len(sys.argv) > 1 and sys.argv[1] == "child":
        child(sys.argv[2:])
    else:
        main()
