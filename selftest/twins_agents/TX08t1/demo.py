#!/venv/bin/python
"""Differential demonstration for a behaviour-preserving refactoring of csvpath
(property C08: a csvpath gives the same results alone, in a serial run and
breadth-first).

Usage (cwd must be a scratch directory, NOT the source tree):

    cd /tmp/demo_TXC08_x && PYTHONPATH=<csvpath tree> /venv/bin/python demo.py > out.txt

The script creates ./work from scratch, writes an offline config/config.ini in
it, runs a fixed list of scenarios and prints a deterministic transcript of
everything observable: returned lines, per-result lines/variables/validity/
counters/printouts/errors/unmatched, exceptions, and the normalised contents
of ./archive. Timestamps, uuids, timings and object addresses are normalised.
"""
import os
import re
import sys
import json
import shutil
import hashlib
import itertools

CONFIG = """[csvpath_files]
extensions = txt, csvpath, csvpaths

[csv_files]
extensions = txt, csv, tsv, dat, tab, psv, ssv

[errors]
csvpath = {csvpath_policy}
csvpaths = {csvpaths_policy}

[logging]
csvpath = info
csvpaths = info
log_file = logs/csvpath.log
log_files_to_keep = 100
log_file_size = 52428800

[config]
path = config/config.ini

[cache]
path = cache

[listeners]
[marquez]
base_url = http://localhost:5000

[functions]
imports = config/functions.imports

[results]
archive = archive
transfers = transfers

[inputs]
files = inputs/named_files
csvpaths = inputs/named_paths
on_unmatched_file_fingerprints = halt
"""

SHIPPED_POLICY = ("raise, collect, stop, fail, print", "raise, collect")
QUIET_POLICY = ("collect, fail, print", "collect, print")


def write_config(policy) -> None:
    os.makedirs("config", exist_ok=True)
    with open("config/config.ini", "w", encoding="utf-8") as f:
        f.write(CONFIG.format(csvpath_policy=policy[0], csvpaths_policy=policy[1]))
    with open("config/functions.imports", "w", encoding="utf-8") as f:
        f.write("")


def enter_workdir() -> None:
    if os.environ.get("PYTHONHASHSEED") != "0":
        # the parser library reports "expected one of" sets in hash order
        os.environ["PYTHONHASHSEED"] = "0"
        os.execv(sys.executable, [sys.executable] + sys.argv)
    here = os.getcwd()
    if os.path.exists(os.path.join(here, "csvpath", "csvpaths.py")):
        print("refusing to run inside the source tree")
        sys.exit(2)
    if os.path.exists("work"):
        shutil.rmtree("work")
    os.makedirs("work")
    os.chdir("work")
    write_config(SHIPPED_POLICY)


# ---------------------------------------------------------------- data files

FILES = {
    "plain": "a,b,c\n1,2,3\n4,5,6\n7,8,9\n1,5,9\n",
    "blanks": "a,b,c\n1,2,3\n\n4,,6\n\n\n7,8,9\n",
    "ragged": "a,b,c\n1\n1,2\n1,2,3,4\n,,\n0,0,0\n 1 ,2, 3\n",
    "trailing": "a,b,c\n1,2,3\n0,,\n4,5,6\n\n",
    "header_only": "a,b,c\n",
    "quoted": 'a,b,c\n"x,1","",3\n"0",0,"q""q"\n1,"2\n2",3\n',
    "long": "a,b,c\n"
    + "".join(f"{i % 4},{i},{'' if i % 5 == 0 else i * i}\n" for i in range(1, 14)),
}


def write_files() -> None:
    os.makedirs("data", exist_ok=True)
    for name, content in FILES.items():
        with open(os.path.join("data", f"{name}.csv"), "w", encoding="utf-8") as f:
            f.write(content)


# ------------------------------------------------------------ normalisation

RUN_RE = re.compile(r"\d{4}-\d\d-\d\d_\d\d-\d\d-\d\d(\.\d+)?")
ADDR_RE = re.compile(r" at 0x[0-9a-fA-F]+")
UUID_RE = re.compile(
    r"[0-9a-f]{8}-[0-9a-f]{4}-[0-9a-f]{4}-[0-9a-f]{4}-[0-9a-f]{12}", re.I
)
VOLATILE_KEYS = {
    "time",
    "time_completed",
    "time_started",
    "uuid",
    "named_paths_uuid",
    "run_time",
    "run_started_at",
    "lines_time",
    "last_line_time",
    "at",
    "trace",
    "source",
    "named_file_last_change",
}
STABLE_FINGERPRINTS = {"data.csv", "unmatched.csv", "vars.json", "printouts.txt"}


def norm_str(s: str) -> str:
    s = RUN_RE.sub("RUN", s)
    s = ADDR_RE.sub(" at 0xADDR", s)
    s = UUID_RE.sub("UUID", s)
    return s


def norm_json(o, key=None):
    if isinstance(o, dict):
        out = {}
        for k, v in o.items():
            if k in VOLATILE_KEYS:
                out[k] = None if v is None else "<volatile>"
            elif k == "file_fingerprints" and isinstance(v, dict):
                out[k] = {
                    kk: (vv if kk in STABLE_FINGERPRINTS else "<fp>")
                    for kk, vv in v.items()
                }
            else:
                out[k] = norm_json(v, k)
        return out
    if isinstance(o, list):
        return [norm_json(_) for _ in o]
    if isinstance(o, str):
        return norm_str(o)
    return o


def show(label, value) -> None:
    if not isinstance(value, str):
        value = json.dumps(value, default=str, sort_keys=False)
    print(f"    {label}: {norm_str(value)}")


def describe_exception(ex) -> str:
    chain = []
    e = ex
    while e is not None and len(chain) < 5:
        chain.append(f"{e.__class__.__name__}: {norm_str(str(e))}")
        e = e.__cause__
    return " <- ".join(chain)


def describe_errors(errors) -> list:
    out = []
    for e in errors or []:
        out.append(
            {
                "class": e.error.__class__.__name__ if e.error is not None else None,
                "error": norm_str(f"{e.error}"),
                "message": e.message,
                "line": e.line_count,
                "match": e.match_count,
                "scan": e.scan_count,
                "filename": e.filename,
                "has_trace": e.trace is not None,
                "source_class": e.source.__class__.__name__,
                "json": e.json,
                "datum": e.datum,
            }
        )
    return out


def dump_csvpath(p, indent="    ") -> None:
    show("identity", p.identity)
    show("is_valid", p.is_valid)
    show("stopped", p.stopped)
    show("counts", {"scan": p.scan_count, "match": p.match_count})
    show("advance_count", p.advance_count)
    lm = p.line_monitor
    show("line_monitor", lm.dump() if lm is not None else None)
    show("headers", p.headers)
    show("variables", p.variables)
    show("metadata", p.metadata)
    show("unmatched", p.unmatched)
    show("errors", describe_errors(p.errors))
    show("collecting", p.collecting)
    show("frozen", p.is_frozen)
    show("scan/match", [p.scan, p.match])
    show("filename", p.scanner.filename if p.scanner else None)


def dump_result(r) -> None:
    print(f"  - result run_index={r.run_index}")
    dump_csvpath(r.csvpath)
    show("result.is_valid", r.is_valid)
    show("result.by_line", r.by_line)
    show("result.errors", describe_errors(r.errors))
    show("result.printouts", r.get_printouts())
    show("result.lines_printed", r.lines_printed)
    show("result.unmatched", r.unmatched)
    show("result.run_dir", r.run_dir)
    show("result.instance_dir", r.instance_dir)
    lines = r.lines
    if isinstance(lines, list):
        show("result.lines(list)", lines)
    else:
        show("result.lines(spooled)", list(lines.next()))
        show("result.len", len(r))


def dump_named_results(cp, name) -> None:
    try:
        results = cp.results_manager.get_named_results(name)
    except Exception as ex:  # pylint: disable=W0718
        print(f"  named results unavailable: {ex.__class__.__name__}")
        return
    print(f"  results: {len(results)}")
    for r in results:
        dump_result(r)
    try:
        show("group.is_valid", cp.results_manager.is_valid(name))
        show("group.variables", cp.results_manager.get_variables(name))
        show("group.has_lines", cp.results_manager.has_lines(name))
        show("group.metadata", cp.results_manager.get_metadata(name))
    except Exception as ex:  # pylint: disable=W0718
        show("group.exception", describe_exception(ex))
    show("csvpaths.errors", describe_errors(cp.errors))
    show(
        "csvpaths.coordination",
        [
            cp.current_matcher.identity if cp.current_matcher else None,
        ],
    )


def run_key(name: str):
    t, dot, n = name.partition(".")
    return (t, int(n) if dot else -1)


def dump_archive(root="archive") -> None:
    print(f"=== ARCHIVE {root}")
    if not os.path.exists(root):
        print("  (none)")
        return
    for group in sorted(os.listdir(root)):
        gpath = os.path.join(root, group)
        if os.path.isfile(gpath):
            dump_file(gpath, gpath)
            continue
        runs = sorted(os.listdir(gpath), key=run_key)
        for i, run in enumerate(runs):
            rpath = os.path.join(gpath, run)
            label = os.path.join(root, group, f"RUN#{i}")
            for dirpath, dirnames, filenames in os.walk(rpath):
                dirnames.sort()
                for fn in sorted(filenames):
                    full = os.path.join(dirpath, fn)
                    dump_file(full, label + full[len(rpath) :])


def dump_file(full, label) -> None:
    with open(full, "r", encoding="utf-8") as f:
        content = f.read()
    if full.endswith(".json"):
        try:
            j = norm_json(json.loads(content))
            print(f"  FILE {label} (json): {json.dumps(j)}")
            return
        except ValueError:
            pass
    h = hashlib.sha256(content.encode("utf-8")).hexdigest()[0:12]
    print(f"  FILE {label} ({len(content)} chars, sha {h}):")
    for line in content.split("\n"):
        print(f"     |{norm_str(line)}")


# ----------------------------------------------------------------- scenarios


def new_csvpaths(**kwargs):
    from csvpath import CsvPaths

    cp = CsvPaths(**kwargs)
    for name in FILES:
        cp.file_manager.add_named_file(
            name=name, path=os.path.join("data", f"{name}.csv")
        )
    return cp


SERIAL = ["collect_paths", "fast_forward_paths", "next_paths", "next_paths_collect"]
BREADTH = [
    "collect_by_line",
    "collect_by_line_agree",
    "collect_by_line_notmatched",
    "collect_by_line_agree_notmatched",
    "fast_forward_by_line",
    "next_by_line",
    "next_by_line_collect_agree",
]


def call_method(cp, method, pathsname, filename):
    """returns whatever the caller of the method would see"""
    if method == "collect_paths":
        return cp.collect_paths(pathsname=pathsname, filename=filename)
    if method == "fast_forward_paths":
        return cp.fast_forward_paths(pathsname=pathsname, filename=filename)
    if method == "next_paths":
        return list(cp.next_paths(pathsname=pathsname, filename=filename))
    if method == "next_paths_collect":
        return list(
            cp.next_paths(pathsname=pathsname, filename=filename, collect=True)
        )
    if method == "collect_by_line":
        return cp.collect_by_line(pathsname=pathsname, filename=filename)
    if method == "collect_by_line_agree":
        return cp.collect_by_line(
            pathsname=pathsname, filename=filename, if_all_agree=True
        )
    if method == "collect_by_line_notmatched":
        return cp.collect_by_line(
            pathsname=pathsname, filename=filename, collect_when_not_matched=True
        )
    if method == "collect_by_line_agree_notmatched":
        return cp.collect_by_line(
            pathsname=pathsname,
            filename=filename,
            if_all_agree=True,
            collect_when_not_matched=True,
        )
    if method == "fast_forward_by_line":
        return cp.fast_forward_by_line(pathsname=pathsname, filename=filename)
    if method == "next_by_line":
        return list(cp.next_by_line(pathsname=pathsname, filename=filename))
    if method == "next_by_line_collect_agree":
        return list(
            cp.next_by_line(
                pathsname=pathsname, filename=filename, collect=True, if_all_agree=True
            )
        )
    raise ValueError(method)


COUNTER = itertools.count()


def scenario(title, paths, filename, method, *, cp=None, pathsname=None, **kwargs):
    n = next(COUNTER)
    if pathsname is None:
        pathsname = f"s{n:03d}"
    print(f"=== SCENARIO {n:03d} {title} | file={filename} | method={method}")
    for p in paths:
        print(f"  path: {p!r}")
    sys.stdout.flush()
    try:
        if cp is None:
            cp = new_csvpaths(**kwargs)
        cp.paths_manager.add_named_paths(name=pathsname, paths=paths)
    except Exception as ex:  # pylint: disable=W0718
        print(f"  SETUP RAISED {describe_exception(ex)}")
        return cp
    try:
        ret = call_method(cp, method, pathsname, filename)
        show("returned", ret)
    except Exception as ex:  # pylint: disable=W0718
        print(f"  RAISED {describe_exception(ex)}")
    dump_named_results(cp, pathsname)
    sys.stdout.flush()
    return cp


def standalone(title, path, filename, mode, **kwargs):
    from csvpath import CsvPath

    n = next(COUNTER)
    print(f"=== STANDALONE {n:03d} {title} | file={filename} | mode={mode}")
    full = path.replace("$[", f"$data/{filename}.csv[", 1)
    print(f"  path: {full!r}")
    p = CsvPath(**kwargs)
    try:
        p.parse(full)
        if mode == "collect":
            show("returned", p.collect())
        elif mode == "fast_forward":
            show("returned", p.fast_forward())
        elif mode == "next":
            show("returned", list(p.next()))
        elif mode == "collect2":
            show("returned", p.collect(nexts=2))
    except Exception as ex:  # pylint: disable=W0718
        print(f"  RAISED {describe_exception(ex)}")
    try:
        dump_csvpath(p)
    except Exception as ex:  # pylint: disable=W0718
        print(f"  DUMP RAISED {describe_exception(ex)}")
    sys.stdout.flush()


# groups of 1-4 csvpaths that keep to the property's fragment (no cross-path
# signals, references or line rewriting)
GROUPS = {
    "single": ["$[*][yes()]"],
    "vars": [
        '~id:cnt~ $[*][@n=count() @l=line_number() push("bs", #b)]',
        '~id:sum~ $[1*][@t=sum(#b) print("t=$.variables.t at $.csvpath.line_number")]',
    ],
    "filters": [
        '~id:a1~ $[*][#a=="1"]',
        '~ id: b-empty ~ $[1*][empty(#b) print("empty b on $.csvpath.line_number")]',
        '~name:zero~ $[*][#a==0 @z=count()]',
        "$[2-4][no()]",
    ],
    "modes": [
        "~id:keep unmatched-mode:keep~ $[*][#b==2]",
        "~id:nomatch return-mode:no-matches~ $[*][#b==2]",
        '~id:norun run-mode:no-run~ $[*][yes() print("never")]',
        '~id:or logic-mode:OR~ $[*][#a==1 #c==9 @hits=count()]',
    ],
    "control": [
        '~id:stopper~ $[*][@c=count_lines() stop(@c==3) print("line $.csvpath.line_number")]',
        '~id:failer~ $[*][#a=="4" -> fail() last() -> print("valid: $.csvpath.valid")]',
        '~id:skipper~ $[*][skip(#a=="1") push("seen", line_number())]',
        '~id:adv~ $[*][line_number.nocontrib()==1 -> advance(1) push("adv", line_number())]',
    ],
    "limited": [
        '~id:cols~ $[1*][collect("c","a") yes()]',
        '~id:last~ $[*][last.nocontrib() -> print("last line $.csvpath.line_number, total $.csvpath.total_lines") @f=first(#a)]',
    ],
}

# groups with error cases
ERROR_GROUPS = {
    "bad_limit": ['~id:ok~ $[*][yes()]', '~id:nohdr~ $[*][collect("nope") yes()]'],
    "bad_syntax": ['~id:ok~ $[*][yes()]', "~id:broken~ $[*][yes(]", "~id:after~ $[1][yes()]"],
    "bad_arg": [
        '~id:ok~ $[*][@n=count()]',
        '~id:div~ $[1*][@d=divide(#a, 0) @i=int("x")]',
        '~id:after~ $[1*][@m=count()]',
    ],
    "bad_arg_quiet": [
        '~id:ok~ $[*][@n=count()]',
        '~id:date validation-mode:no-raise,no-stop,print,fail~ $[1*][date(#a, "%Y") @k=count()]',
        '~id:after~ $[1*][@m=count()]',
    ],
    "bad_start": ["no dollar here", '~id:ok~ $[*][yes()]'],
    "preceding": [
        '~id:first~ $[1*][#a=="1"]',
        '~id:second source-mode:preceding~ $[*][@n=count()]',
    ],
}

# groups using the cross-path signals (outside the property's fragment but
# they share the scheduling code)
SIGNAL_GROUPS = {
    "stop_all": [
        '~name:one~ $[*][line_number.nocontrib()==2 -> stop_all() push("one", line_number())]',
        '~id:two~ $[*][line_number.nocontrib()==4 -> stop() push("two", line_number())]',
    ],
    "fail_all": [
        '~name:one~ $[*][line_number.nocontrib()==2 -> fail_all() push("one", line_number())]',
        '~id:two~ $[*][push("two", line_number())]',
    ],
    "skip_all": [
        '~name:one~ $[*][between.nocontrib(line_number(), 1, 4) -> print("between $.csvpath.line_number", skip_all()) push("one", line_number())]',
        '~id:two~ $[*][print("TWO: $.csvpath.line_number", push("two", line_number()))]',
        '~id:three~ $[*][push("three", line_number())]',
    ],
    "advance_all": [
        '~name:one~ $[*][line_number.nocontrib()==1 -> print("advancing on $.csvpath.line_number", advance_all(2)) push("one", line_number())]',
        '~id:two~ $[*][line_number.nocontrib()==0 -> advance(1) push("two", line_number())]',
        '~id:three~ $[*][push("three", line_number())]',
    ],
    "mixed": [
        '~id:three~ $[*][push("three", line_number())]',
        '~name:one~ $[*][line_number.nocontrib()==1 -> skip_all() line_number.nocontrib()==3 -> fail_all() line_number.nocontrib()==5 -> stop_all() push("one", line_number())]',
        '~id:two~ $[*][push("two", line_number())]',
    ],
}


def run_matrix(groups, files, methods, *, orders=True, **kwargs):
    for gname, paths in groups.items():
        variants = [("", paths)]
        if orders and len(paths) > 1:
            variants.append(("(reversed)", list(reversed(paths))))
        for suffix, ps in variants:
            for fname in files:
                for method in methods:
                    scenario(f"{gname}{suffix}", ps, fname, method, **kwargs)


def run_standalone(groups, files, modes, **kwargs):
    for gname, paths in groups.items():
        for i, path in enumerate(paths):
            for fname in files:
                for mode in modes:
                    standalone(f"{gname}[{i}]", path, fname, mode, **kwargs)


def repeated_runs():
    """one CsvPaths instance reused for several runs of the same group, with
    an error in the middle, to show that the state left behind is the same"""
    cp = None
    paths = ERROR_GROUPS["bad_limit"] + ['~id:tail~ $[*][@n=count()]']
    for method in [
        "collect_paths",
        "fast_forward_paths",
        "next_paths_collect",
        "collect_by_line",
        "collect_paths",
    ]:
        cp = scenario(
            "repeated(bad_limit+tail)", paths, "ragged", method, cp=cp, pathsname="again"
        )


def missing_names():
    for method in SERIAL + ["collect_by_line"]:
        scenario("missing file", GROUPS["single"], "nosuchfile", method)
    from csvpath import CsvPaths

    for method in SERIAL + ["collect_by_line"]:
        n = next(COUNTER)
        print(f"=== SCENARIO {n:03d} missing paths | method={method}")
        cp = new_csvpaths()
        try:
            show("returned", call_method(cp, method, "nosuchpaths", "plain"))
        except Exception as ex:  # pylint: disable=W0718
            print(f"  RAISED {describe_exception(ex)}")


if __name__ == "__main__":
    enter_workdir()
    write_files()
    # 1. the exception handling that was refactored: every serial method, each
    #    error group, under a raising and a non-raising error policy.
    for policy in (SHIPPED_POLICY, QUIET_POLICY):
        write_config(policy)
        print(f"##### error policy: {policy}")
        run_matrix(ERROR_GROUPS, ["plain", "ragged"], SERIAL + ["collect_by_line"])
        run_matrix(
            {"control": GROUPS["control"], "limited": GROUPS["limited"]},
            ["header_only", "trailing"],
            SERIAL,
            orders=False,
        )
        repeated_runs()
        missing_names()
    # 2. the property's own fragment: standalone vs serial vs breadth-first
    write_config(SHIPPED_POLICY)
    print("##### property fragment")
    run_standalone(GROUPS, ["blanks", "ragged", "trailing"], ["collect", "fast_forward", "next"])
    run_matrix(GROUPS, ["blanks", "ragged", "quoted"], SERIAL + ["collect_by_line", "collect_by_line_agree"])
    run_matrix(SIGNAL_GROUPS, ["long"], SERIAL, orders=False)
    dump_archive()
