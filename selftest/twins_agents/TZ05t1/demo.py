#!/usr/bin/env python
"""Differential demonstration for property C05 (error policy handling).

The script is standalone. It creates a scratch working directory (the
directory named by DEMO_DIR, or a fresh temp dir), writes an offline
config/config.ini and a few CSV files into it, and then drives csvpath
through a large number of error situations under every error policy. It
prints a deterministic transcript of everything observable: exceptions that
reach the caller, returned lines, variables, validity, stopped, collected
errors (with line numbers, sources, normalised traces), printouts, captured
stdout, the DEBUG log (normalised), and the ./archive tree and contents for
the CsvPaths runs.

Run it with PYTHONPATH pointing at the tree to test:

    PYTHONPATH=/tmp/wt/TZC05 /venv/bin/python demo.py > out.txt
"""
import os
import sys
import io
import re
import json
import hashlib
import logging
import itertools
import contextlib
import shutil
import tempfile
import datetime

# lark reports the tokens it expected, and csvpath logs some sets, in hash
# order. a fixed hash seed makes the transcript repeatable.
if os.environ.get("PYTHONHASHSEED") != "0":
    os.environ["PYTHONHASHSEED"] = "0"
    os.execv(sys.executable, [sys.executable] + sys.argv)

WORK = os.environ.get("DEMO_DIR") or tempfile.mkdtemp(prefix="demo_TZC05_")
if os.path.exists(WORK):
    shutil.rmtree(WORK)
os.makedirs(WORK)
os.chdir(WORK)
WORK = os.getcwd()

CONFIG = """[csvpath_files]
extensions = txt, csvpath, csvpaths

[csv_files]
extensions = txt, csv, tsv, dat, tab, psv, ssv

[errors]
csvpath = collect, print
csvpaths = collect

[logging]
csvpath = debug
csvpaths = debug
log_file = logs/csvpath.log
log_files_to_keep = 100
log_file_size = 52428800

[config]
path = config/config.ini

[cache]
path = cache

[listeners]

[functions]
imports = config/functions.imports

[results]
archive = archive
transfers = transfers

[inputs]
files = inputs/named_files
csvpaths = inputs/named_paths
on_unmatched_file_fingerprints = halt
"""
os.makedirs("config")
with open("config/config.ini", "w") as f:
    f.write(CONFIG)
with open("config/functions.imports", "w") as f:
    f.write("")

FILES = {
    # offending lines in the middle; a blank line; a ragged short row; an
    # empty value; a zero; a ragged long row; no trailing blank line
    "mid.csv": "id,name,qty\n1,apple,3\n2,pear,abc\n\n3,fig\n4,,0\n5,kiwi,7,extra\n6,lime,x1\n7,plum,2\n",
    # offending line is the first data line
    "first.csv": "id,name,qty\n1,apple,abc\n2,pear,4\n3,fig,0\n",
    # offending line is the last line, no newline at the end
    "last.csv": "id,name,qty\n1,apple,3\n2,pear,4\n3,fig,abc",
    # offending line is the last data line and blank lines follow
    "lastblank.csv": "id,name,qty\n1,apple,3\n2,pear,4\n3,fig,abc\n\n\n",
    # no offending line at all
    "good.csv": "id,name,qty\n1,apple,3\n2,pear,4\n3,fig,5\n",
    # every data line offends
    "allbad.csv": "id,name,qty\nx,apple,a\ny,pear,b\nz,fig,c\n",
    # headers only
    "headers.csv": "id,name,qty\n",
    # empty
    "empty.csv": "",
}
for name, text in FILES.items():
    with open(name, "w") as f:
        f.write(text)

import csvpath as _csvpath_pkg  # noqa: E402
from csvpath import CsvPath, CsvPaths  # noqa: E402
from csvpath.util.printer import Printer  # noqa: E402
from csvpath.util.error import (  # noqa: E402
    ErrorHandler,
    ErrorCommsManager,
    Error,
    ErrorHandlingException,
)
from csvpath.util.config import OnError  # noqa: E402
from csvpath.matching.functions.args import Args, ArgSet, Arg  # noqa: E402
from csvpath.matching.util.expression_utility import ExpressionUtility  # noqa: E402
from csvpath.matching.util.exceptions import MatchException  # noqa: E402

SRC = os.path.dirname(os.path.dirname(os.path.abspath(_csvpath_pkg.__file__)))

OUT = sys.stdout


def say(*a):
    print(*a, file=OUT)


# ---------------------------------------------------------------------------
# normalisation
# ---------------------------------------------------------------------------
_FILE_RE = re.compile(r'^(\s*)File "([^"]*)", line \d+, in (.*)$')


def norm_trace(text):
    """keeps the frames' files and function names and the exception lines.
    line numbers, source text and caret lines are dropped because they move
    when the source is edited."""
    if text is None:
        return None
    out = []
    skipping = False
    for line in f"{text}".split("\n"):
        m = _FILE_RE.match(line)
        if m:
            fn = m.group(2)
            if fn.startswith(SRC):
                fn = fn[len(SRC) + 1 :]
            else:
                fn = "<lib>/" + os.path.basename(fn)
            out.append(f'{m.group(1)}File "{fn}", in {m.group(3)}')
            skipping = True
            continue
        if skipping and line.startswith("    "):
            continue
        skipping = False
        out.append(line)
    return "\n".join(out)


_TS = re.compile(r"\d{4}-\d\d-\d\d[ T]\d\d:\d\d:\d\d(\.\d+)?(\+00:00|Z)?")
_RUN = re.compile(r"\d{4}-\d\d-\d\d_\d\d-\d\d-\d\d(_\d+)?")
_HEX = re.compile(r"0x[0-9a-fA-F]+")
_UUID = re.compile(
    r"[0-9a-f]{8}-[0-9a-f]{4}-[0-9a-f]{4}-[0-9a-f]{4}-[0-9a-f]{12}", re.I
)


def norm(text):
    if text is None:
        return None
    t = norm_trace(f"{text}")
    t = t.replace(WORK, "<WORK>").replace(SRC, "<SRC>")
    t = _RUN.sub("<RUN>", t)
    t = _TS.sub("<TS>", t)
    t = _HEX.sub("0x?", t)
    t = _UUID.sub("<UUID>", t)
    # the cache key of a file depends on its modification time
    t = re.sub(r"cache/[0-9a-f]{64}", "cache/<KEY>", t)
    return t


def sha(text):
    return hashlib.sha1(f"{text}".encode("utf-8")).hexdigest()[:12]


# ---------------------------------------------------------------------------
# capture: printers, logs, stdout
# ---------------------------------------------------------------------------
class CapturePrinter(Printer):
    def __init__(self):
        self.lines = []

    @property
    def last_line(self):
        return self.lines[-1][1] if self.lines else None

    @property
    def lines_printed(self):
        return len(self.lines)

    def print(self, string):
        self.lines.append((None, string))

    def print_to(self, name, string):
        self.lines.append((name, string))


class ListHandler(logging.Handler):
    def __init__(self):
        super().__init__(level=logging.DEBUG)
        self.records = []

    def emit(self, record):
        try:
            msg = record.getMessage()
        except Exception as e:  # pragma: no cover
            msg = f"<<unformattable {type(e).__name__}>> {record.msg}"
        self.records.append(f"{record.levelname} {record.name} {msg}")


LOG = ListHandler()
_attached = set()


def attach_logs():
    for n in ("csvpath", "csvpaths"):
        lg = logging.getLogger(n)
        if n not in _attached:
            lg.addHandler(LOG)
            _attached.add(n)


def log_lines(records):
    out = []
    for r in records:
        r = norm(r)
        r = re.sub(r"took [-0-9.e]+", "took <T>", r)
        r = re.sub(r"time was [-0-9.e]+", "time was <T>", r)
        r = re.sub(r"[-0-9.e]+ per line", "<T> per line", r)
        out.append(r)
    return out


def dump_log(records, *, full=False, only=None):
    lines = log_lines(records)
    if only:
        lines = [ln for ln in lines if only(ln)]
    say(f"  log: {len(lines)} records sha {sha(chr(10).join(lines))}")
    if full:
        for ln in lines:
            for part in ln.split("\n"):
                say(f"    | {part}")


def is_errorish(line):
    return (
        line.startswith("ERROR")
        or line.startswith("WARNING")
        or "argset" in line
        or "Actuals" in line
        or "is_one_of" in line
        or "not allowed" in line
        or "Checking arg" in line
        or "Handling an error" in line
    )


# ---------------------------------------------------------------------------
# reporting
# ---------------------------------------------------------------------------
def exc_str(e):
    if e is None:
        return "none"
    s = f"{type(e).__name__}: {norm(str(e))}"
    c = e.__cause__
    depth = 0
    while c is not None and depth < 4:
        s += f" <- cause {type(c).__name__}: {norm(str(c))}"
        c = c.__cause__
        depth += 1
    return s


def err_brief(e):
    return f"({e.line_count},{e.exception_class})"


def dump_error(e, *, full=True):
    say(
        f"    error line={e.line_count} match={e.match_count} scan={e.scan_count} "
        f"class={e.exception_class} file={norm(e.filename)}"
    )
    say(f"      error.error: {norm(str(e.error))}")
    say(f"      message: {norm(e.message)}")
    say(f"      source: {norm(str(e.source))}")
    say(f"      datum: {e.datum!r}")
    j = e.json
    say(f"      json: len={len(j) if j is not None else None} sha={sha(j)}")
    if full:
        say(f"      match attr: {norm(getattr(e, 'match', '<<none>>'))}")
        t = norm(e.trace)
        if t is None:
            say("      trace: None")
        else:
            for ln in t.split("\n"):
                say(f"      trace| {ln}")
        # what a listener or the archive would see
        d = e.to_json()
        d["trace"] = norm(d["trace"])
        d["at"] = norm(d["at"])
        d["json"] = sha(d["json"])
        say(f"      to_json: {norm(json.dumps(d, sort_keys=True))}")
        s = norm(str(e))
        say(f"      str sha: {sha(s)}")


def run_path(
    label,
    csvpath,
    *,
    policy=None,
    method="collect",
    full=False,
    log_full=False,
    quiet_stdout=False,
):
    """one standalone CsvPath run. returns the CsvPath."""
    say(f"--- {label}")
    say(f"  csvpath: {csvpath}")
    say(f"  policy: {policy} method: {method}")
    start = len(LOG.records)
    path = CsvPath()
    attach_logs()
    cap = CapturePrinter()
    path.add_printer(cap)
    if policy is not None:
        path.config.csvpath_errors_policy = policy
    exc = None
    lines = None
    buf = io.StringIO()
    with contextlib.redirect_stdout(buf):
        try:
            path.parse(csvpath)
            if method == "collect":
                lines = path.collect()
            elif method == "fast_forward":
                path.fast_forward()
            elif method == "next":
                lines = []
                for line in path.next():
                    lines.append(line)
            elif method == "collect2":
                lines = path.collect(2)
            elif method == "advance":
                lines = []
                for line in path.next():
                    lines.append(line)
                    path.advance(1)
            else:
                raise ValueError(method)
        except Exception as e:  # pylint: disable=W0718
            exc = e
    report(path, cap, exc, lines, buf.getvalue(), start, full=full, log_full=log_full)
    return path


def report(path, cap, exc, lines, stdout, logstart, *, full=False, log_full=False):
    say(f"  exception: {exc_str(exc)}")
    say(f"  lines: {lines}")
    try:
        say(f"  variables: {path.variables}")
    except Exception as e:  # pragma: no cover
        say(f"  variables: !! {exc_str(e)}")
    lm = path._line_monitor
    say(
        f"  is_valid={path.is_valid} stopped={path.stopped} aborted={getattr(path, 'aborted', None)} "
        f"match_count={path.match_count} scan_count={path.scan_count} "
        f"physical_end={lm.physical_line_number if lm else None}"
    )
    errs = path.errors
    if errs is None:
        say("  errors: None")
    else:
        say(f"  errors: {len(errs)} {' '.join(err_brief(e) for e in errs)}")
        for e in errs:
            dump_error(e, full=full)
    say(f"  has_errors: {path.has_errors()}")
    say(f"  printouts: {len(cap.lines)} sha {sha(norm(repr(cap.lines)))}")
    for name, s in cap.lines:
        say(f"    [{name}] {norm(s)}")
    so = norm(stdout)
    say(f"  stdout: {len(so.splitlines())} lines sha {sha(so)}")
    if full:
        for ln in so.splitlines():
            say(f"    > {ln}")
    try:
        um = path.unmatched
        say(f"  unmatched: {um}")
    except Exception as e:  # pragma: no cover
        say(f"  unmatched: !! {exc_str(e)}")
    dump_log(LOG.records[logstart:], full=log_full, only=is_errorish)
    dump_log(LOG.records[logstart:], full=False)


# ---------------------------------------------------------------------------
# sections
# ---------------------------------------------------------------------------
FLAGS = ["raise", "collect", "stop", "fail", "print", "quiet"]


def all_policies():
    for n in range(0, len(FLAGS) + 1):
        for combo in itertools.combinations(FLAGS, n):
            yield list(combo)


KINDS = [
    # argument value of the wrong type at runtime (Args.matches)
    ("argtype", "$mid.csv[*][@x = add(#qty, 2)]"),
    # a function's own rule (raise_if in a type function)
    ("rule", "$mid.csv[*][integer.notnone(\"qty\") string(\"name\", 4, 2)]"),
    # python exception inside a function (ZeroDivisionError on qty==0)
    ("pyexc", "$mid.csv[*][@x = mod(#id, #qty)]"),
    # error in a nested, right-hand component of a second expression
    ("nested", "$mid.csv[*][#id yes() -> @y = length(concat(#name, add(#qty, 1)))]"),
]


def section_policy_sweep():
    say("=" * 70)
    say("SECTION 1: all 64 policies x 4 error kinds, collect()")
    say("=" * 70)
    for policy in all_policies():
        # config rejects nothing here because we set the list directly. an
        # empty policy is possible this way too.
        for kind, cp in KINDS:
            run_path(f"sweep {kind} {'+'.join(policy) or '(none)'}", cp, policy=policy)


MODES = [
    "raise",
    "no-raise",
    "stop",
    "no-stop",
    "fail",
    "no-fail",
    "print",
    "no-print",
    "match",
    "no-match",
    "no-raise, no-stop, no-fail, no-print",
    "raise, stop, fail, print",
    "no-raise, match, fail",
    "no-raise, no-match, stop",
    "no-raise, match, print, no-fail, no-stop",
]

BASES = [
    [],
    ["collect"],
    ["raise", "collect", "stop", "fail", "print"],
    ["collect", "print", "quiet"],
    ["stop", "fail"],
]


def section_validation_modes():
    say("=" * 70)
    say("SECTION 2: validation-mode overrides x base policies")
    say("=" * 70)
    for base in BASES:
        for mode in MODES:
            for kind, body in [
                ("argtype", "@x = add(#qty, 2)"),
                ("rule", "integer.notnone(\"qty\") string(\"name\", 4, 2)"),
                ("pyexc", "@x = mod(#id, #qty)"),
            ]:
                cp = f"~ id: vm validation-mode: {mode} ~ $mid.csv[*][{body}]"
                run_path(f"vmode {kind} [{mode}] base={'+'.join(base) or '(none)'}", cp, policy=base)


def section_positions_and_methods():
    say("=" * 70)
    say("SECTION 3: positions of the offending line, files, methods (full detail)")
    say("=" * 70)
    pols = [
        ["collect", "print"],
        ["collect", "stop", "fail"],
        ["raise", "collect"],
        ["quiet", "collect", "print", "fail"],
    ]
    for fname in FILES:
        for pol in pols:
            for method in ["collect", "fast_forward", "next"]:
                run_path(
                    f"pos {fname} {'+'.join(pol)} {method}",
                    f"$" + fname + "[*][@x = add(#qty, 2) #id]",
                    policy=pol,
                    method=method,
                    full=(method == "collect"),
                    log_full=(method == "collect" and pol == pols[0]),
                )
    # scan subsets and other ways to drive the run
    for scan in ["1*", "2-4", "3", "1+3+5", "0"]:
        run_path(
            f"scan [{scan}]",
            f"$mid.csv[{scan}][integer(\"qty\") @q = int(#qty)]",
            policy=["collect", "print", "fail"],
            full=True,
        )
    run_path("collect(2)", "$mid.csv[*][@x = add(#qty, 2)]", policy=["collect"], method="collect2", full=True)
    run_path("advance", "$mid.csv[*][@x = add(#qty, 2)]", policy=["collect", "print"], method="advance")


VARIETY = [
    # several argsets; mismatches against all of them
    "$mid.csv[*][@l = length(#name) @m = min(#qty, 2)]",
    "$mid.csv[*][@s = substring(#name, #id)]",
    "$mid.csv[*][@s = substring(#name, -2)]",
    "$mid.csv[*][@d = divide(#id, #qty)]",
    "$mid.csv[*][@s = subtract(#qty, #id, #name)]",
    "$mid.csv[*][between(#qty, 1, 5)]",
    "$mid.csv[*][@e = equals(#qty, 3) empty(#name)]",
    "$mid.csv[*][in(#name, \"apple|fig\") @c = count()]",
    "$mid.csv[*][line(integer(\"id\"), string.notnone(\"name\"), integer(\"qty\"))]",
    "$mid.csv[*][line(integer(\"id\"), string(\"name\", 4, 2), decimal(\"qty\", 5, 1))]",
    "$mid.csv[*][decimal.notnone(\"qty\") boolean(\"name\")]",
    "$mid.csv[*][date(\"name\", \"%Y-%m-%d\")]",
    "$mid.csv[*][none(\"name\") -> @n = add(#id, #qty)]",
    "$mid.csv[*][or(integer(\"qty\"), none(\"qty\"))]",
    "$mid.csv[*][not(integer(\"qty\"))]",
    "$mid.csv[*][@a.notnone = add(#qty, 1)]",
    "$mid.csv[*][@t = add.notnone(#qty, #3)]",
    "$mid.csv[*][@p = percent(\"nope\")]",
    "$mid.csv[*][regex(#name, #qty)]",
    "$mid.csv[*][@r = round(#qty, \"x\")]",
    "$mid.csv[*][@h = header_name(#qty)]",
    "$mid.csv[*][push(\"q\", int(#qty)) last() -> @z = add(\"a\", 1)]",
    "$mid.csv[*][@x.onmatch = add(#qty, 2) #name]",
    "$mid.csv[*][integer.nocontrib(\"qty\") @y = add(#id, 1)]",
    "$mid.csv[*][@x = add(#qty, 2) @y = mod(#id, #qty) integer(\"qty\")]",
    "$mid.csv[*][#nosuch]",
    "$mid.csv[*][@z = length(#nosuch)]",
    "$mid.csv[*][#17 == \"a\"]",
    "$mid.csv[*][stop(#qty == \"0\") @x = add(#qty, 2)]",
    "$mid.csv[*][skip(#id == \"2\") @x = add(#qty, 2)]",
    "$mid.csv[*][@x = add(#qty, 2) skip(#id == \"2\")]",
    "$mid.csv[*][@x = add(#qty, 2) fail()]",
    "$lastblank.csv[*][last() -> @z = add(#name, 1)]",
    "$lastblank.csv[*][last.nocontrib() -> @z = mod(1, 0) @c = count_lines()]",
    "$lastblank.csv[*][@x = add(#qty, 2) last() -> @z = mod(1, 0)]",
    "$good.csv[*][@x = add(#qty, 2) @y = mod(#id, #qty) integer(\"qty\")]",
    "~ logic-mode: OR ~ $mid.csv[*][integer(\"qty\") #id == \"2\"]",
    "~ explain-mode: explain ~ $first.csv[*][integer(\"qty\")]",
    "~ unmatched-mode: keep ~ $mid.csv[*][integer(\"qty\")]",
    "~ return-mode: no-matches ~ $mid.csv[*][integer(\"qty\")]",
]

# these do not pass the structure check that runs before any line is read
# (Expression.check_valid) or do not parse at all
STRUCTURAL = [
    "$mid.csv[*][add(\"a\")]",
    "$mid.csv[*][@x = add()]",
    "$mid.csv[*][yes(1)]",
    "$mid.csv[*][#id add(1, 2, yes(3)) @y = 1]",
    "$mid.csv[*][substring(#name)]",
    "$mid.csv[*][nosuchfunction(1)]",
    "$mid.csv[*][print()]",
    "$mid.csv[*][@x = = 1]",
    "$mid.csv[*][",
    "$mid.csv[*][integer(#qty)]",
    "$mid.csv[*][integer(\"qty\", 1, 2, 3, 4)]",
    "$mid.csv[*][line(1)]",
    "~ validation-mode: no-raise, no-stop, match ~ $mid.csv[*][add(\"a\")]",
    "~ validation-mode: raise ~ $mid.csv[*][add(\"a\")]",
]


def section_variety():
    say("=" * 70)
    say("SECTION 4: many functions and structures, three policies (full detail)")
    say("=" * 70)
    pols = [
        ["collect", "print"],
        ["collect", "stop", "fail", "print", "quiet"],
        ["raise", "collect", "print"],
    ]
    for cp in VARIETY:
        for pol in pols:
            run_path(f"variety {'+'.join(pol)}", cp, policy=pol, full=True, log_full=(pol == pols[0]))
    say("=" * 70)
    say("SECTION 5: errors found by the structure check before the run")
    say("=" * 70)
    for cp in STRUCTURAL:
        for pol in pols + [[], ["fail"]]:
            run_path(f"structural {'+'.join(pol) or '(none)'}", cp, policy=pol, full=True, log_full=(pol == pols[0]))


def section_policy_changes_and_reruns():
    say("=" * 70)
    say("SECTION 6: policy set at different times, config reload, several instances")
    say("=" * 70)
    cp = "$mid.csv[*][@x = add(#qty, 2) integer(\"qty\")]"
    # policy replaced after parse, before the run
    say("--- policy replaced between parse and collect")
    start = len(LOG.records)
    path = CsvPath()
    cap = CapturePrinter()
    path.add_printer(cap)
    path.config.csvpath_errors_policy = ["raise"]
    buf = io.StringIO()
    exc = None
    lines = None
    with contextlib.redirect_stdout(buf):
        try:
            path.parse(cp)
            path.config.csvpath_errors_policy = ["collect", "fail"]
            lines = path.collect()
        except Exception as e:
            exc = e
    report(path, cap, exc, lines, buf.getvalue(), start, full=True)
    # policy mutated in place during the run
    say("--- policy list mutated in place while iterating")
    start = len(LOG.records)
    path = CsvPath()
    cap = CapturePrinter()
    path.add_printer(cap)
    pol = ["collect"]
    path.config.csvpath_errors_policy = pol
    buf = io.StringIO()
    exc = None
    lines = []
    with contextlib.redirect_stdout(buf):
        try:
            path.parse(cp)
            for i, line in enumerate(path.next()):
                lines.append(line)
                if i == 1:
                    pol.append("print")
                if i == 3:
                    pol.append("fail")
                    pol.append("stop")
        except Exception as e:
            exc = e
    report(path, cap, exc, lines, buf.getvalue(), start, full=False)
    # policy replaced during the run
    say("--- policy list replaced while iterating")
    start = len(LOG.records)
    path = CsvPath()
    cap = CapturePrinter()
    path.add_printer(cap)
    path.config.csvpath_errors_policy = ["collect"]
    buf = io.StringIO()
    exc = None
    lines = []
    with contextlib.redirect_stdout(buf):
        try:
            path.parse(cp)
            for i, line in enumerate(path.next()):
                lines.append(line)
                if i == 1:
                    path.config.csvpath_errors_policy = ["collect", "print", "fail"]
                if i == 3:
                    path.config.csvpath_errors_policy = ["raise", "collect"]
        except Exception as e:
            exc = e
    report(path, cap, exc, lines, buf.getvalue(), start, full=False)
    # config reload puts the file's policy back
    say("--- config reload")
    start = len(LOG.records)
    path = CsvPath()
    cap = CapturePrinter()
    path.add_printer(cap)
    path.config.csvpath_errors_policy = ["raise"]
    path.config.reload()
    buf = io.StringIO()
    exc = None
    lines = None
    with contextlib.redirect_stdout(buf):
        try:
            path.parse(cp)
            lines = path.collect()
        except Exception as e:
            exc = e
    report(path, cap, exc, lines, buf.getvalue(), start, full=False)
    # the same instance parsed and run a second time
    say("--- same instance, second parse and run")
    start = len(LOG.records)
    path = CsvPath()
    cap = CapturePrinter()
    path.add_printer(cap)
    path.config.csvpath_errors_policy = ["collect", "print"]
    for n, cp2 in enumerate([cp, "$first.csv[*][integer(\"qty\")]", cp]):
        buf = io.StringIO()
        exc = None
        lines = None
        with contextlib.redirect_stdout(buf):
            try:
                path.parse(cp2)
                lines = path.collect()
            except Exception as e:
                exc = e
        say(f"  .. run {n}")
        report(path, cap, exc, lines, buf.getvalue(), start, full=False)
    # a file rewritten at the same path between two instances
    say("--- file rewritten at the same path")
    with open("rewrite.csv", "w") as f:
        f.write("id,name,qty\n1,a,x\n2,b,2\n")
    run_path("rewrite 1", "$rewrite.csv[*][integer(\"qty\")]", policy=["collect", "print"], full=True)
    with open("rewrite.csv", "w") as f:
        f.write("id,name,qty\n1,a,1\n\n2,b,y\n3,c,z\n")
    run_path("rewrite 2", "$rewrite.csv[*][integer(\"qty\")]", policy=["collect", "print"], full=True)
    # delimiter and quotechar
    say("--- other delimiter and quotechar")
    with open("pipes.csv", "w") as f:
        f.write("id|name|qty\n1|'a|b'|x\n2|b|2\n")
    for delim, quote in [(",", '"'), ("|", '"'), ("|", "'")]:
        start = len(LOG.records)
        path = CsvPath(delimiter=delim, quotechar=quote)
        cap = CapturePrinter()
        path.add_printer(cap)
        path.config.csvpath_errors_policy = ["collect", "print", "fail"]
        buf = io.StringIO()
        exc = None
        lines = None
        with contextlib.redirect_stdout(buf):
            try:
                path.parse("$pipes.csv[*][integer(\"qty\")]")
                lines = path.collect()
            except Exception as e:
                exc = e
        say(f"  .. delimiter {delim!r} quotechar {quote!r}")
        report(path, cap, exc, lines, buf.getvalue(), start, full=False)


# ---------------------------------------------------------------------------
# direct use of the classes in csvpath.util.error
# ---------------------------------------------------------------------------
class StubConfig:
    def __init__(self, policy, paths_policy=None):
        self.csvpath_errors_policy = policy
        self.csvpaths_errors_policy = paths_policy if paths_policy is not None else policy


class StubLogger:
    def __init__(self, sink, name):
        self.sink = sink
        self.name = name

    def _w(self, level, msg, *args):
        try:
            m = msg % args if args else msg
        except Exception:  # pragma: no cover
            m = f"{msg} {args}"
        self.sink.append(f"{self.name}.{level}: {norm(m)}")

    def debug(self, msg, *args):
        self._w("debug", msg, *args)

    def info(self, msg, *args):
        self._w("info", msg, *args)

    def warning(self, msg, *args):
        self._w("warning", msg, *args)

    def error(self, msg, *args):
        self._w("error", msg, *args)


class StubMonitor:
    def __init__(self, n):
        self.physical_line_number = n


class StubScanner:
    def __init__(self, filename):
        self.filename = filename


class StubCsvPath:
    """has what ErrorCommsManager and ErrorHandler use of a CsvPath"""

    def __init__(self, policy, sink, *, overrides=None, monitor=True, scanner=True):
        overrides = overrides or {}
        self.config = StubConfig(policy)
        self.logger = StubLogger(sink, "path")
        self.sink = sink
        self.raise_validation_errors = overrides.get("raise")
        self.print_validation_errors = overrides.get("print")
        self.stop_on_validation_errors = overrides.get("stop")
        self.fail_on_validation_errors = overrides.get("fail")
        self.match_validation_errors = overrides.get("match")
        self.line_monitor = StubMonitor(7) if monitor else None
        self.scanner = StubScanner("stub.csv") if scanner else None
        self.match_count = 3
        self.scan_count = 5
        self.match = "[yes()]"
        self.stopped = False
        self.is_valid = True
        self.aborted = False
        self.collected = []
        self.printed = []

    def print(self, s):
        self.printed.append(s)

    def collect_error(self, e):
        self.collected.append(e)

    @property
    def errors(self):
        return self.collected

    def has_errors(self):
        return len(self.collected) > 0


class FalsyCsvPath(StubCsvPath):
    """a csvpath whose truth value is False. CsvPath itself has neither
    __bool__ nor __len__, so this is only about the tests on self._csvpath"""

    def __bool__(self):
        return False


class StubCsvPaths:
    def __init__(self, policy, sink):
        self.config = StubConfig(["raise"], policy)
        self.logger = StubLogger(sink, "paths")
        self.collected = []

    def collect_error(self, e):
        self.collected.append(e)

    @property
    def errors(self):
        return self.collected

    def has_errors(self):
        return len(self.collected) > 0


class Collector:
    def __init__(self):
        self.collected = []

    def collect_error(self, e):
        self.collected.append(e)

    @property
    def errors(self):
        return self.collected

    def has_errors(self):
        return len(self.collected) > 0


class RichException(Exception):
    def __init__(self, msg):
        super().__init__(msg)
        self.json = '{"a": 1}'
        self.datum = 0
        self.message = ""
        self.trace = None
        self.source = []


def section_error_classes():
    say("=" * 70)
    say("SECTION 7: ErrorCommsManager, ErrorHandler and Error used directly")
    say("=" * 70)
    # ErrorCommsManager: each flag, override None/True/False, flag in policy or not
    for flag, method in [
        ("raise", "do_i_raise"),
        ("print", "do_i_print"),
        ("stop", "do_i_stop"),
        ("fail", "do_i_fail"),
    ]:
        for override in [None, True, False, 0, "", "yes"]:
            for policy in [[], [flag], ["collect"], FLAGS[:], [f for f in FLAGS if f != flag], (flag,), {flag: 1}, flag + "x"]:
                sink = []
                stub = StubCsvPath(policy, sink, overrides={flag: override})
                ecm = ErrorCommsManager(csvpath=stub)
                got = [getattr(ecm, m)() for m in ["do_i_raise", "do_i_print", "do_i_stop", "do_i_fail"]]
                say(f"  ecm csvpath flag={flag} override={override!r} policy={policy!r} -> {got!r}")
    # policy captured at construction; later replacement and in-place mutation
    sink = []
    stub = StubCsvPath(["raise"], sink)
    ecm = ErrorCommsManager(csvpath=stub)
    say(f"  ecm captured: {ecm.do_i_raise()} {ecm.do_i_stop()}")
    stub.config.csvpath_errors_policy.append("stop")
    say(f"  ecm after in-place append: {ecm.do_i_raise()} {ecm.do_i_stop()}")
    stub.config.csvpath_errors_policy = ["fail"]
    say(f"  ecm after replacement: {ecm.do_i_raise()} {ecm.do_i_stop()} {ecm.do_i_fail()}")
    stub.raise_validation_errors = False
    stub.stop_on_validation_errors = True
    say(f"  ecm after overrides set: {ecm.do_i_raise()} {ecm.do_i_stop()} {ecm.do_i_fail()} {ecm.do_i_print()}")
    stub.raise_validation_errors = None
    say(f"  ecm after override cleared: {ecm.do_i_raise()}")
    # csvpaths only
    for policy in [[], ["raise"], ["collect", "print"], FLAGS[:]]:
        sink = []
        ecm = ErrorCommsManager(csvpaths=StubCsvPaths(policy, sink))
        got = [getattr(ecm, m)() for m in ["do_i_raise", "do_i_print", "do_i_stop", "do_i_fail"]]
        say(f"  ecm csvpaths policy={policy!r} -> {got!r}")
    # both: the csvpath wins
    sink = []
    ecm = ErrorCommsManager(csvpath=StubCsvPath(["stop"], sink), csvpaths=StubCsvPaths(["raise"], sink))
    say(f"  ecm both -> {[ecm.do_i_raise(), ecm.do_i_print(), ecm.do_i_stop(), ecm.do_i_fail()]!r}")
    # a csvpath that is falsy counts as no csvpath everywhere
    sink = []
    falsy = FalsyCsvPath(["stop", "print"], sink, overrides={"raise": True, "fail": True})
    pstub = StubCsvPaths(["fail", "collect"], sink)
    ecm = ErrorCommsManager(csvpath=falsy, csvpaths=pstub)
    say(f"  ecm falsy csvpath -> {[ecm.do_i_raise(), ecm.do_i_print(), ecm.do_i_stop(), ecm.do_i_fail()]!r}")
    raised = None
    try:
        try:
            raise ValueError("falsy")
        except Exception as e0:
            ErrorHandler(csvpath=falsy, csvpaths=pstub).handle_error(e0)
    except Exception as e:
        raised = e
    say(
        f"  handler falsy csvpath: raised={exc_str(raised)} stopped={falsy.stopped} valid={falsy.is_valid} "
        f"printed={falsy.printed!r} collected={len(falsy.collected)}/{len(pstub.collected)}"
    )
    for e in pstub.collected:
        dump_error(e, full=True)
    for ln in sink:
        say(f"      log| {ln}")
    try:
        ErrorCommsManager(csvpath=falsy)
        say("  ecm falsy csvpath alone: constructed")
    except Exception as e:
        say(f"  ecm falsy csvpath alone: {exc_str(e)}")
    # neither
    for kw in [{}, {"csvpath": None, "csvpaths": None}, {"csvpath": 0}]:
        try:
            ErrorCommsManager(**kw)
            say(f"  ecm {kw!r}: constructed")
        except Exception as e:
            say(f"  ecm {kw!r}: {exc_str(e)}")
    # a None policy
    try:
        ecm = ErrorCommsManager(csvpath=StubCsvPath(None, []))
        say(f"  ecm None policy -> {ecm.do_i_raise()}")
    except Exception as e:
        say(f"  ecm None policy: {exc_str(e)}")
    try:
        ecm = ErrorCommsManager(csvpath=StubCsvPath(None, [], overrides={"raise": True}))
        say(f"  ecm None policy, override -> {ecm.do_i_raise()}")
        say(f"  ecm None policy, no override for stop -> {ecm.do_i_stop()}")
    except Exception as e:
        say(f"  ecm None policy, override: {exc_str(e)}")

    # ErrorHandler with a stub csvpath: every policy x a few overrides
    def handle(label, *, policy, overrides=None, ex=None, monitor=True, scanner=True, collector="self", paths=False):
        sink = []
        stub = StubCsvPath(policy, sink, overrides=overrides, monitor=monitor, scanner=scanner)
        col = None
        if collector == "other":
            col = Collector()
        elif collector == "self":
            col = stub
        kw = {"csvpath": stub, "error_collector": col}
        pstub = None
        if paths:
            pstub = StubCsvPaths(["collect"], sink)
            kw["csvpaths"] = pstub
        raised = None
        ret = "<<unset>>"
        try:
            h = ErrorHandler(**kw)
            try:
                raise (ex if ex is not None else ValueError("boom"))
            except Exception as e0:
                ret = h.handle_error(e0)
        except Exception as e:
            raised = e
        target = col if col is not None else (pstub if pstub else stub)
        say(
            f"  handler {label}: policy={policy!r} overrides={overrides!r} -> raised={exc_str(raised)} ret={ret!r} "
            f"stopped={stub.stopped} valid={stub.is_valid} aborted={stub.aborted} printed={stub.printed!r} "
            f"collected={len(target.collected)} on {type(target).__name__}"
        )
        for e in target.collected:
            dump_error(e, full=True)
        for ln in sink:
            for part in ln.split("\n"):
                say(f"      log| {part}")

    for policy in all_policies():
        handle("sweep", policy=policy)
    for overrides in [
        {"raise": False},
        {"raise": True},
        {"stop": True, "fail": True, "print": False},
        {"stop": False, "fail": False, "print": True, "raise": False},
    ]:
        for policy in [[], ["raise", "collect", "stop", "fail", "print"], ["quiet", "collect"]]:
            handle("override", policy=policy, overrides=overrides)
    handle("no monitor", policy=["collect"], monitor=False)
    handle("no scanner", policy=["collect"], scanner=False)
    handle("no monitor or scanner", policy=["collect", "print", "fail", "stop"], monitor=False, scanner=False)
    handle("other collector", policy=["collect", "print"], collector="other")
    handle("default collector", policy=["collect"], collector=None)
    handle("default collector with csvpaths", policy=["collect"], collector=None, paths=True)
    handle("with csvpaths", policy=["collect", "raise"], paths=True)
    handle("rich exception", policy=["collect", "print"], ex=RichException("rich"))
    handle("match exception", policy=["collect", "raise"], ex=MatchException("inner"))
    # csvpaths only
    for policy in [[], ["collect"], ["collect", "print"], ["raise", "collect", "stop", "fail", "print", "quiet"], ["quiet"]]:
        sink = []
        pstub = StubCsvPaths(policy, sink)
        raised = None
        try:
            h = ErrorHandler(csvpaths=pstub)
            try:
                raise KeyError("k")
            except Exception as e0:
                h.handle_error(e0)
        except Exception as e:
            raised = e
        say(f"  handler csvpaths only: policy={policy!r} -> raised={exc_str(raised)} collected={len(pstub.collected)}")
        for e in pstub.collected:
            dump_error(e, full=True)
        for ln in sink:
            say(f"      log| {ln}")
    # nothing to work with
    for kw in [{}, {"error_collector": Collector()}]:
        try:
            ErrorHandler(**kw)
            say(f"  handler {sorted(kw)}: constructed")
        except Exception as e:
            say(f"  handler {sorted(kw)}: {exc_str(e)}")
    # None error
    sink = []
    stub = StubCsvPath(["collect"], sink)
    try:
        ErrorHandler(csvpath=stub)._handle_if(policy=["collect"], error=None)
    except Exception as e:
        say(f"  handler None error: {exc_str(e)} log={sink!r}")
    # build on its own
    sink = []
    for monitor, scanner in [(True, True), (False, True), (True, False), (False, False)]:
        stub = StubCsvPath(["collect"], sink, monitor=monitor, scanner=scanner)
        stub.match_count = 0
        stub.scan_count = 0
        stub.line_monitor and setattr(stub.line_monitor, "physical_line_number", 0)
        err = ErrorHandler(csvpath=stub).build(RichException("zero"))
        say(f"  build monitor={monitor} scanner={scanner}:")
        dump_error(err, full=True)
    err = ErrorHandler(csvpaths=StubCsvPaths(["collect"], sink)).build(ValueError("v"))
    say("  build csvpaths only:")
    dump_error(err, full=True)
    # a bare Error
    e = Error()
    say(f"  bare Error: line={e.line_count} match={e.match_count} scan={e.scan_count} has at: {hasattr(e, 'at')}")


# ---------------------------------------------------------------------------
# direct use of Args / ArgSet
# ---------------------------------------------------------------------------
class StubMatcher:
    def __init__(self, csvpath):
        self.csvpath = csvpath
        self.expressions = []
        self.validity_checked = True


class StubMatchable:
    def __init__(self, csvpath, *, notnone=False):
        self.matcher = StubMatcher(csvpath)
        self.notnone = notnone
        self.my_chain = "stub"
        self.parent = None
        self.handled = []

    def handle_error(self, e):
        self.handled.append(e)

    def decorate_error_message(self, msg):
        return f"[stub] {msg}"

    def raiseChildrenException(self, msg):
        from csvpath.matching.util.exceptions import ChildrenException

        raise ChildrenException(self.decorate_error_message(msg))


class StubPathForArgs(StubCsvPath):
    def __init__(self, policy, sink, **kw):
        super().__init__(policy, sink, **kw)
        self.csvpaths = None
        self.identity = "stub"


def section_args_direct():
    say("=" * 70)
    say("SECTION 8: Args and ArgSet.matches used directly")
    say("=" * 70)
    import datetime as dt
    from typing import Any

    def build(sink, *, notnone=False, overrides=None, policy=None):
        stub = StubPathForArgs(policy if policy is not None else ["collect"], sink, overrides=overrides)
        m = StubMatchable(stub, notnone=notnone)
        args = Args(matchable=m)
        # 0: int, then optional str
        a = args.argset(2)
        a.arg(name="n", types=[object], actuals=[int])
        a.arg(name="s", types=[None, object], actuals=[None, str])
        # 1: anything goes, unlimited
        a = args.argset()
        a.arg(name="any", types=[object], actuals=[None, Any])
        # 2: a date and a number, then no expectations
        a = args.argset(3)
        a.arg(name="d", types=[object], actuals=[dt.date, dt.datetime])
        a.arg(name="f", types=[object], actuals=[float, int])
        a.arg(name="x", types=[None, object], actuals=[])
        # 3: exactly one bool-ish or empty string
        a = args.argset(1)
        a.arg(name="b", types=[object], actuals=[bool, Args.EMPTY_STRING])
        for aset in args.argsets:
            aset._set_min_length()
        return args, m, stub

    ACTUALS = [
        [],
        [None],
        [0],
        [""],
        ["0"],
        [1, "a"],
        [1, None],
        [1, ""],
        [1, 2],
        ["abc"],
        ["abc", "def"],
        [1, "a", "b"],
        [1, "a", "b", "c"],
        ["2024-01-01", 1.5],
        ["2024-01-01", "x"],
        [dt.date(2024, 1, 1), 0, []],
        [dt.datetime(2024, 1, 1, 1, 1), "7", None],
        [True],
        ["true"],
        ["false", 1],
        [[]],
        [()],
        [{}],
        [float("nan")],
        ["nan"],
        ["None"],
        ["  "],
        [-99999999],
    ]
    for actuals in ACTUALS:
        sink = []
        args, m, stub = build(sink)
        say(f"  actuals {actuals!r}")
        for aset in args.argsets:
            try:
                ms = aset.matches(actuals)
                say(f"    argset {aset.argset_number} (min {aset.min_length} max {aset.max_length}): {ms!r}")
            except Exception as e:
                say(f"    argset {aset.argset_number}: {exc_str(e)}")
        say(f"    log sha {sha(chr(10).join(sink))} records {len(sink)}")
        for ln in sink:
            say(f"      log| {ln}")
        # the whole Args, under a few policies and modes
        for notnone in [False, True]:
            for overrides, policy in [
                (None, ["collect"]),
                (None, ["raise"]),
                ({"match": True}, ["collect"]),
                ({"match": True, "raise": True}, ["collect"]),
                ({"match": False, "raise": False}, ["raise"]),
            ]:
                sink = []
                args, m, stub = build(sink, notnone=notnone, overrides=overrides, policy=policy)
                exc = None
                try:
                    args.matches(actuals)
                except Exception as e:
                    exc = e
                say(
                    f"    Args.matches notnone={notnone} overrides={overrides!r} policy={policy!r}: exc={exc_str(exc)} "
                    f"args_match={args.args_match} matched={args.matched} handled={[str(h) for h in m.handled]!r} "
                    f"log sha {sha(chr(10).join(sink))} errors {[ln for ln in sink if ln.startswith('path.error')]!r}"
                )
                args.reset()
                say(f"      after reset: args_match={args.args_match} matched={args.matched}")
    # an argset whose parent does not list it, and one without a parent
    sink = []
    args, m, stub = build(sink)
    orphan = ArgSet(1, parent=args)
    orphan.arg(types=[object], actuals=[int])
    for label, aset in [("not in parent", orphan), ("no parent", ArgSet(1))]:
        try:
            say(f"  {label}: {aset.matches([1])!r}")
        except Exception as e:
            say(f"  {label}: {exc_str(e)}")
    args2 = Args()
    lone = args2.argset(1)
    lone.arg(types=[object], actuals=[int])
    try:
        say(f"  parent without csvpath: {lone.matches([1])!r}")
    except Exception as e:
        say(f"  parent without csvpath: {exc_str(e)}")
    # an argset appended while another is in use keeps indexes of earlier ones
    sink = []
    args, m, stub = build(sink)
    first = args.argsets[0]
    say(f"  index before: {first.argset_number}")
    extra = args.argset(1)
    extra.arg(types=[object], actuals=[str])
    extra._set_min_length()
    say(f"  index after append: {first.argset_number} {extra.argset_number}")
    say(f"  extra: {extra.matches([5])!r} {extra.matches(['s'])!r}")
    for ln in sink:
        say(f"      log| {ln}")


# ---------------------------------------------------------------------------
# CsvPaths
# ---------------------------------------------------------------------------
def tree(root):
    out = []
    if not os.path.exists(root):
        return out
    for dirpath, dirnames, filenames in os.walk(root):
        dirnames.sort()
        for fn in sorted(filenames):
            p = os.path.join(dirpath, fn)
            out.append(p)
    return out


def norm_json(o):
    """walks loaded json and normalises strings"""
    if isinstance(o, dict):
        r = {}
        for k, v in o.items():
            if k in ("trace",) and isinstance(v, str):
                r[k] = norm(v)
            elif k in ("json",) and isinstance(v, str):
                r[k] = "sha:" + sha(v)
            elif k in ("uuid", "time", "at", "run_uuid", "named_results_uuid") or k.endswith("_uuid") or k.endswith("_time"):
                r[k] = "<V>"
            elif k in ("hostname", "ip_address", "username", "run_home", "named_file_path"):
                r[k] = norm(f"{v}") if k in ("run_home", "named_file_path") else "<V>"
            else:
                r[k] = norm_json(v)
        return r
    if isinstance(o, list):
        return [norm_json(i) for i in o]
    if isinstance(o, str):
        return norm(o)
    return o


def dump_archive(root="archive"):
    seen = {}
    for p in tree(root):
        np = norm(p)
        # several run dirs of the same named-paths differ only in the timestamp
        n = seen.get(np, 0)
        seen[np] = n + 1
        say(f"  file {np} #{n}")
        base = os.path.basename(p)
        try:
            with open(p, "r", encoding="utf-8") as f:
                text = f.read()
        except Exception as e:  # pragma: no cover
            say(f"    unreadable: {type(e).__name__}")
            continue
        if base in ("errors.json", "vars.json"):
            try:
                j = norm_json(json.loads(text))
                say(f"    {json.dumps(j, sort_keys=True)}")
            except Exception as e:
                say(f"    not json: {type(e).__name__} len {len(text)}")
        elif base in ("printouts.txt", "data.csv", "unmatched.csv"):
            for ln in norm(text).split("\n"):
                say(f"    | {ln}")
        elif base == "meta.json":
            try:
                j = json.loads(text)
                rd = j.get("runtime_data", {})
                keep = {
                    k: rd.get(k)
                    for k in ["is_valid", "stopped", "count_matches", "count_lines", "count_scans", "has_errors", "lines_collected"]
                    if k in rd
                }
                say(f"    runtime: {json.dumps(keep, sort_keys=True)}")
                say(f"    metadata: {json.dumps(norm_json(j.get('metadata', {})), sort_keys=True)}")
            except Exception as e:
                say(f"    not json: {type(e).__name__} len {len(text)}")
        elif base == "manifest.json":
            try:
                j = json.loads(text)
                if isinstance(j, list):
                    j = j[-1] if j else {}
                keep = {k: j.get(k) for k in ["valid", "completed", "files_expected", "error_count", "all_valid", "all_completed", "all_expected_files", "error_count"] if k in j}
                say(f"    manifest: {json.dumps(keep, sort_keys=True)}")
            except Exception as e:
                say(f"    not json: {type(e).__name__} len {len(text)}")


def section_csvpaths():
    say("=" * 70)
    say("SECTION 9: CsvPaths runs, results and the archive")
    say("=" * 70)
    MAIN = [
        "~ id: plain ~ $[*][@x = add(#qty, 2)]",
        "~ id: quieted validation-mode: no-raise, no-print, no-stop, no-fail ~ $[*][integer(\"qty\") @y = mod(#id, #qty)]",
        "~ id: strict validation-mode: no-raise, stop, fail, print ~ $[*][integer(\"qty\")]",
        "~ id: matching validation-mode: no-raise, match ~ $[*][@x = add(#qty, 2) #id]",
        "~ id: fine ~ $[*][#id]",
        "~ id: structural ~ $[*][add(\"a\")]",
    ]
    RAISER = [
        "~ id: before ~ $[*][@x = add(#qty, 2)]",
        "~ id: raiser validation-mode: raise ~ $[*][integer(\"qty\")]",
        "~ id: after ~ $[*][integer(\"qty\")]",
    ]
    combos = [
        (["collect", "print"], ["collect"]),
        (["collect", "stop", "fail", "print", "quiet"], ["collect", "print"]),
        (["raise", "collect"], ["raise", "collect"]),
        (["raise", "collect", "print"], ["collect", "quiet"]),
        ([], []),
    ]
    n = 0
    for path_policy, paths_policy in combos:
        for method in ["collect_paths", "fast_forward_paths", "next_paths", "collect_by_line", "fast_forward_by_line", "next_by_line"]:
            for fname, GROUP in [("mid.csv", MAIN), ("lastblank.csv", MAIN), ("first.csv", RAISER)]:
                n += 1
                name = f"grp{n}"
                say(f"--- csvpaths {name} {method} {fname} path_policy={path_policy} paths_policy={paths_policy}")
                start = len(LOG.records)
                buf = io.StringIO()
                exc = None
                ret = None
                paths = CsvPaths()
                attach_logs()
                paths.config.csvpath_errors_policy = path_policy
                paths.config.csvpaths_errors_policy = paths_policy
                with contextlib.redirect_stdout(buf):
                    try:
                        paths.file_manager.add_named_file(name="f", path=fname)
                        paths.paths_manager.add_named_paths(name=name, paths=GROUP)
                        m = getattr(paths, method)
                        if method.startswith("next"):
                            ret = []
                            for line in m(filename="f", pathsname=name):
                                ret.append(line)
                        else:
                            ret = m(filename="f", pathsname=name)
                    except Exception as e:
                        exc = e
                say(f"  exception: {exc_str(exc)}")
                say(f"  returned: {norm(repr(ret))}")
                try:
                    results = paths.results_manager.get_named_results(name)
                except Exception as e:
                    say(f"  results: !! {exc_str(e)}")
                    results = []
                say(f"  results: {len(results) if results is not None else None}")
                for r in results or []:
                    p = r.csvpath
                    say(
                        f"  result {p.identity}: is_valid={r.is_valid} path.is_valid={p.is_valid} stopped={p.stopped} "
                        f"lines={len(r.lines) if r.lines is not None else None} errors={r.errors_count} has_errors={r.has_errors()} "
                        f"path.has_errors={p.has_errors()} vars={p.variables}"
                    )
                    try:
                        ls = r.lines
                        ls = list(ls.next()) if hasattr(ls, "next") else list(ls)
                        say(f"    lines: {ls!r}")
                    except Exception as e:
                        say(f"    lines: !! {exc_str(e)}")
                    for e in r.errors or []:
                        dump_error(e, full=False)
                    po = r.printouts
                    say(f"    printouts: {norm(repr(po))}")
                try:
                    say(f"  csvpaths.errors: {len(paths.errors)} {' '.join(err_brief(e) for e in paths.errors)}")
                    for e in paths.errors:
                        dump_error(e, full=False)
                except Exception as e:
                    say(f"  csvpaths.errors: !! {exc_str(e)}")
                so = norm(buf.getvalue())
                say(f"  stdout: {len(so.splitlines())} lines sha {sha(so)}")
                for ln in so.splitlines():
                    say(f"    > {ln}")
                dump_log(LOG.records[start:], full=False, only=is_errorish)
                dump_log(LOG.records[start:], full=False)
    say("--- archive")
    dump_archive("archive")


def main():
    section_error_classes()
    section_args_direct()
    section_positions_and_methods()
    section_variety()
    section_policy_changes_and_reruns()
    section_validation_modes()
    section_policy_sweep()
    section_csvpaths()
    say("DONE")


if __name__ == "__main__":
    main()
