#!/usr/bin/env python
"""Differential demonstration for refactoring t3 (property C20).

Exercises ResultsManager.get_variables / is_valid / has_lines / has_errors
(over hand-made results and over real chains of 2-4 csvpaths run 1-3 times)
and the resolution of results references: data_file_for_reference,
_find_instance, _find_last, _find_first, directly and through replays.
Prints a deterministic transcript of everything observable.

Run with cwd = an empty scratch directory:
    mkdir /tmp/demo_TWC20_t3 && cd /tmp/demo_TWC20_t3 && \
        PYTHONPATH=<tree> /venv/bin/python <this file>
The script creates ./config/config.ini itself (offline config, no listeners).
"""
import contextlib
import io
import json
import logging
import os
import re
import shutil
import sys
import time

CONFIG = """[csvpath_files]
extensions = txt, csvpath, csvpaths

[csv_files]
extensions = txt, csv, tsv, dat, tab, psv, ssv

[errors]
csvpath = raise, collect, stop, fail, print
csvpaths = raise, collect

[logging]
csvpath = info
csvpaths = info
log_file = logs/csvpath.log
log_files_to_keep = 100
log_file_size = 52428800

[config]
path = config/config.ini

[cache]
path = cache

[listeners]
[marquez]
base_url = http://localhost:5000

[functions]
imports = config/functions.imports

[results]
archive = archive
transfers = transfers

[inputs]
files = inputs/named_files
csvpaths = inputs/named_paths
on_unmatched_file_fingerprints = halt

"""

CWD = os.getcwd()
if os.path.exists(os.path.join(CWD, "csvpath", "csvpaths.py")):
    sys.exit("do not run the demo inside the source tree")
for d in ("archive", "cache", "logs", "inputs", "transfers", "config", "data"):
    shutil.rmtree(os.path.join(CWD, d), ignore_errors=True)
os.makedirs("config")
with open("config/config.ini", "w", encoding="utf-8") as fh:
    fh.write(CONFIG)
with open("config/functions.imports", "w", encoding="utf-8") as fh:
    fh.write("")
os.makedirs("data")

from csvpath import CsvPaths  # noqa: E402

FILES = {
    "plain": "a,b,c\n1,x,10\n2,y,20\n3,x,30\n4,z,40\n5,x,50\n6,y,60\n",
    "blanks": "a,b,c\n1,x,10\n\n2,y,20\n\n\n3,x,30\n,,\n4,x,0\n",
    "ragged": "a,b,c\n1,x\n2,y,20,extra\n3\n4,x,40\n5,x,50,e1,e2\n",
    "empties": "a,b,c\n1,,10\n2,x,\n,x,30\n0,x,0\n5,\"\",50\n",
    "quoted": 'a,b,c\n1,"x, y",10\n2,"say ""hi""",20\n3,x,"3\n0"\n4,x,40\n',
    "headeronly": "a,b,c\n",
    "empty": "",
}
for n, text in FILES.items():
    with open(f"data/{n}.csv", "w", encoding="utf-8", newline="") as fh:
        fh.write(text)

OUT = io.StringIO()


def say(*args):
    print(*args, file=OUT)


_RUN = re.compile(r"\d{4}-\d{2}-\d{2}_\d{2}-\d{2}-\d{2}(?:\.\d+)?")
_TS = re.compile(r"\d{4}-\d{2}-\d{2}[ T]\d{2}:\d{2}:\d{2}(?:[.,]\d+)?(?:\+00:00|Z)?")
_UUID = re.compile(r"[0-9a-f]{8}-[0-9a-f]{4}-[0-9a-f]{4}-[0-9a-f]{4}-[0-9a-f]{12}")
_ADDR = re.compile(r" at 0x[0-9a-f]+")


def normalise(text: str) -> str:
    seen = {}

    def run(m):
        k = m.group(0)
        if k not in seen:
            seen[k] = f"<RUN-{len(seen) + 1}>"
        return seen[k]

    text = text.replace(CWD, "<CWD>")
    text = _RUN.sub(run, text)
    text = _TS.sub("<TS>", text)
    if _DAY[0]:  # the date prefix the results-reference section builds references from
        text = text.replace(_DAY[0], "<DAY>")
    text = _UUID.sub("<UUID>", text)
    text = _ADDR.sub(" at 0x..", text)
    return text


def new_paths() -> CsvPaths:
    cp = CsvPaths()
    for n in FILES:
        cp.file_manager.add_named_file(name=n, path=f"data/{n}.csv")
    return cp


def show_exception(label, ex):
    say(f"  {label}: {type(ex).__name__}: {ex}")


# keys whose values are clock readings, random ids, durations or hashes of
# files that contain those: not behaviour, dropped from the transcript
VOLATILE = {
    "time",
    "time_completed",
    "time_started",
    "uuid",
    "named_paths_uuid",
    "run_uuid",
    "named_file_last_change",
    "run_time",
    "run_started_at",
    "lines_time",
    "last_line_time",
    "trace",
}
STABLE_FINGERPRINTS = ("data.csv", "unmatched.csv", "vars.json")


def scrub(o):
    if isinstance(o, dict):
        out = {}
        for k, v in o.items():
            if k in VOLATILE:
                continue
            if k == "file_fingerprints" and isinstance(v, dict):
                v = {f: h for f, h in v.items() if f in STABLE_FINGERPRINTS}
            out[k] = scrub(v)
        return out
    if isinstance(o, list):
        return [scrub(_) for _ in o]
    return o


def show_result(i, r):
    cpath = r.csvpath
    say(f"  result[{i}] identity={r.identity_or_index!r} paths_name={r.paths_name!r} file_name={r.file_name!r}")
    say(f"    data_from_preceding={cpath.data_from_preceding} source_mode_preceding={r.source_mode_preceding}")
    say(f"    scanner.filename={cpath.scanner.filename if cpath.scanner else None}")
    say(f"    data_file_path={r.data_file_path}")
    say(f"    source-mode-source={cpath.metadata.get('source-mode-source')!r}")
    say(f"    metadata={json.dumps(cpath.metadata, sort_keys=True, default=str)}")
    say(f"    headers={cpath.headers}")
    say(f"    is_valid={r.is_valid} stopped={cpath.stopped} match_count={cpath.match_count}")
    say(f"    variables={json.dumps(cpath.variables, default=str)}")
    try:
        lines = list(r.lines.next()) if hasattr(r.lines, "next") else list(r.lines)
    except Exception as ex:  # pylint: disable=W0718
        lines = f"{type(ex).__name__}: {ex}"
    say(f"    len(lines)={len(r.lines)} lines={lines}")
    say(f"    unmatched={r.unmatched}")
    say(f"    errors={[(e.line_count, e.match_count, type(e.error).__name__, str(e.error)) for e in r.errors]}")
    say(f"    printouts={json.dumps(r.get_printouts(), default=str)}")


def show_results(cp, name):
    try:
        rs = cp.results_manager.get_named_results(name)
    except Exception as ex:  # pylint: disable=W0718
        show_exception(f"get_named_results({name!r})", ex)
        return
    say(f"  named results {name!r}: {len(rs)}")
    for i, r in enumerate(rs):
        show_result(i, r)
    rm = cp.results_manager
    say(f"  get_variables={json.dumps(rm.get_variables(name), default=str)}")
    say(f"  has_lines={rm.has_lines(name)} is_valid={rm.is_valid(name)} n={rm.get_number_of_results(name)} has_errors={rm.has_errors(name)}")
    last = rm.get_last_named_result(name=name)
    say(f"  last={None if last is None else last.identity_or_index!r}")
    say(f"  csvpaths.errors={[(type(e.error).__name__, str(e.error)) for e in cp.errors]}")


def show_archive():
    say("  -- archive listing --")
    for root, dirs, files in os.walk("archive"):
        dirs.sort()
        for f in sorted(files):
            p = os.path.join(root, f)
            size = os.path.getsize(p) if f.endswith(".csv") else "-"
            say(f"  {p} ({size})")
            if f in ("data.csv", "unmatched.csv"):
                with open(p, "r", encoding="utf-8", newline="") as fh:
                    say(f"      content={fh.read()!r}")
            elif f.endswith(".json"):
                with open(p, "r", encoding="utf-8") as fh:
                    try:
                        m = json.load(fh)
                    except Exception as ex:  # pylint: disable=W0718
                        say(f"      unreadable json {type(ex).__name__}")
                        continue
                say(f"      json={json.dumps(scrub(m), default=str)}")
            elif f == "printouts.txt":
                with open(p, "r", encoding="utf-8") as fh:
                    say(f"      content={fh.read()!r}")


def reset_archive():
    shutil.rmtree("archive", ignore_errors=True)


# ---------------------------------------------------------------------------
# ResultsManager: get_variables / is_valid / has_lines / has_errors and the
# resolution of results references (data_file_for_reference and its helpers)
# ---------------------------------------------------------------------------
_LAST_START = [0]
_DAY = [None]


def fresh_second():
    """run dirs are named for the second the run starts in; two runs in the same
    second get a .N suffix, which is timing dependent (and such names cannot be
    used in a reference). every run of the demo starts in a second of its own."""
    while int(time.time()) <= _LAST_START[0]:
        time.sleep(0.02)
    _LAST_START[0] = int(time.time())


def run_group(cp, method, pathsname, filename):
    fresh_second()
    try:
        if method == "collect":
            cp.collect_paths(pathsname=pathsname, filename=filename)
        elif method == "ff":
            cp.fast_forward_paths(pathsname=pathsname, filename=filename)
        elif method == "next":
            got = list(cp.next_paths(pathsname=pathsname, filename=filename))
            say(f"  next_paths yielded {got}")
    except Exception as ex:  # pylint: disable=W0718
        show_exception(f"{method} {pathsname}/{filename} raised", ex)


FILTERS = [
    '#1 == "x"',
    "gt(#0, 1)",
    'not(#2 == "0")',
    "lt(#0, 5)",
]


def chain(n, first_preceding, offset=0):
    """n filter csvpaths whose variables overlap in name but are set in
    different orders, so the order of the merged variables is visible"""
    paths = []
    for i in range(n):
        mode = "\n  source-mode: preceding" if i >= first_preceding else ""
        filt = FILTERS[(i + offset) % len(FILTERS)]
        sets = [
            f'@who = "m{i}"',
            f"@seen_{i} = count()",
            'push("as", #0)',
            "@last_b = #1",
            f"@zero_{i} = 0",
            f'@shared_{i % 2} = "m{i}"',
        ]
        sets = sets[i % len(sets) :] + sets[: i % len(sets)]
        body = "\n    ".join(sets)
        paths.append(
            f"""~ id: m{i}{mode}
  validation-mode: no-raise, no-stop, print ~
$[*][
    {filt}
    {body}
]"""
        )
    return paths


class FakeCsvPath:
    def __init__(self, variables):
        self.variables = variables


class FakeResult:
    """what the manager's aggregate methods touch, and nothing else"""

    def __init__(self, tag, *, variables=None, valid=True, lines=None, errors=False):
        self.tag = tag
        self.csvpath = FakeCsvPath(variables)
        self._valid = valid
        self._lines = lines
        self._errors = errors
        self.touched = []

    @property
    def is_valid(self):
        self.touched.append("is_valid")
        if isinstance(self._valid, Exception):
            raise self._valid
        return self._valid

    @property
    def lines(self):
        self.touched.append("lines")
        if isinstance(self._lines, Exception):
            raise self._lines
        return self._lines

    def has_errors(self):
        self.touched.append("has_errors")
        if isinstance(self._errors, Exception):
            raise self._errors
        return self._errors


def aggregate(rm, name):
    for fn in ("get_variables", "is_valid", "has_lines", "has_errors", "get_number_of_results"):
        try:
            v = getattr(rm, fn)(name)
            if fn == "get_variables":
                v = f"{type(v).__name__} keys={list(v.keys())} items={v!r}"
            say(f"  {fn}({name!r}) -> {v!r}")
        except Exception as ex:  # pylint: disable=W0718
            say(f"  {fn}({name!r}) raised {type(ex).__name__}: {ex}")
    try:
        touched = [(r.tag, r.touched) for r in rm.named_results.get(name, []) if isinstance(r, FakeResult)]
        if touched:
            say(f"    touched={touched}")
    except Exception as ex:  # pylint: disable=W0718
        show_exception("touched", ex)


def fake_section():
    say("=== aggregate methods over hand-made results")
    cp = new_paths()
    rm = cp.results_manager
    shared_list = ["shared"]
    groups = {
        "none": [],
        "one": [FakeResult("a", variables={"x": 1, "y": 2}, lines=[["1"]])],
        "order": [
            FakeResult("a", variables={"x": "a", "y": "a", "z": "a"}, lines=[]),
            FakeResult("b", variables={"z": "b", "w": "b", "x": "b"}, lines=[["1"]]),
            FakeResult("c", variables={"v": "c", "y": "c", "w": "c", "u": "c"}, lines=None),
        ],
        "falsy": [
            FakeResult("a", variables={"n": None, "z": 0, "e": "", "l": []}),
            FakeResult("b", variables={"n": 1, "z": 1, "e": "e", "l": shared_list, "f": False}),
        ],
        "emptyvars": [FakeResult("a", variables={}), FakeResult("b", variables={})],
        "invalid-first": [
            FakeResult("a", valid=False, variables={}),
            FakeResult("b", valid=True, variables={}),
        ],
        "invalid-last": [
            FakeResult("a", valid=True, variables={}),
            FakeResult("b", valid=True, variables={}),
            FakeResult("c", valid=False, variables={}),
        ],
        "valid-odd": [
            FakeResult("a", valid=1, variables={}),
            FakeResult("b", valid="yes", variables={}),
            FakeResult("c", valid=[0], variables={}),
        ],
        "valid-none": [FakeResult("a", valid=True, variables={}), FakeResult("b", valid=None, variables={}), FakeResult("c", valid=True, variables={})],
        "valid-zero": [FakeResult("a", valid=0, variables={}), FakeResult("b", valid=ValueError("never asked"), variables={})],
        "valid-raises": [FakeResult("a", valid=True, variables={}), FakeResult("b", valid=ValueError("asked"), variables={}), FakeResult("c", valid=False, variables={})],
        "lines-mixed": [
            FakeResult("a", variables={}, lines=None),
            FakeResult("b", variables={}, lines=[]),
            FakeResult("c", variables={}, lines=()),
            FakeResult("d", variables={}, lines=[[]]),
            FakeResult("e", variables={}, lines=RuntimeError("never asked")),
        ],
        "lines-none": [FakeResult("a", variables={}, lines=None), FakeResult("b", variables={}, lines=[]), FakeResult("c", variables={}, lines="")],
        "lines-raise": [FakeResult("a", variables={}, lines=[]), FakeResult("b", variables={}, lines=RuntimeError("asked"))],
        "errors-mixed": [
            FakeResult("a", variables={}, errors=False),
            FakeResult("b", variables={}, errors=0),
            FakeResult("c", variables={}, errors=2),
            FakeResult("d", variables={}, errors=RuntimeError("never asked")),
        ],
        "errors-none": [FakeResult("a", variables={}, errors=None), FakeResult("b", variables={}, errors="")],
        "errors-raise": [FakeResult("a", variables={}, errors=RuntimeError("asked")), FakeResult("b", variables={}, errors=True)],
        "vars-none": [FakeResult("a", variables={"x": 1}), FakeResult("b", variables=None)],
        "vars-list": [FakeResult("a", variables=[("x", 1)])],
    }
    for name, results in groups.items():
        rm.named_results[name] = results
        say(f" -- {name}")
        aggregate(rm, name)
    say(" -- unknown group")
    aggregate(rm, "unknown")
    # the merged dict is new: changing it does not change any result's own
    merged = rm.get_variables("falsy")
    merged["z"] = "changed"
    merged["l"].append("through the shared list")
    say(f"  after edit: a={groups['falsy'][0].csvpath.variables} b={groups['falsy'][1].csvpath.variables}")
    say(f"  again: {rm.get_variables('falsy')}")
    one = rm.get_variables("one")
    say(f"  one is its result's dict: {one is groups['one'][0].csvpath.variables} equal: {one == groups['one'][0].csvpath.variables}")


def real_section():
    for n, first, fname, method, runs in (
        (2, 1, "plain", "collect", 1),
        (3, 1, "blanks", "collect", 2),
        (4, 2, "ragged", "collect", 3),
        (4, 4, "empties", "collect", 1),
        (3, 1, "quoted", "ff", 2),
        (2, 1, "headeronly", "collect", 1),
        (2, 1, "empty", "collect", 1),
        (3, 2, "plain", "next", 1),
    ):
        say(f"=== chain n={n} preceding-from={first} file={fname} method={method} runs={runs}")
        reset_archive()
        cp = new_paths()
        cp.paths_manager.add_named_paths(name="grp", paths=chain(n, first, offset=runs))
        for k in range(runs):
            say(f" -- run {k + 1}")
            run_group(cp, method, "grp", fname)
            show_results(cp, "grp")
            aggregate(cp.results_manager, "grp")
            rs = cp.results_manager.named_results.get("grp") or []
            for r in rs:
                say(f"  all_variables via {r.identity_or_index}: {json.dumps(r.all_variables, default=str)}")
            try:
                say(f"  get_metadata={json.dumps(cp.results_manager.get_metadata('grp'), default=str, sort_keys=True)}")
            except Exception as ex:  # pylint: disable=W0718
                show_exception("get_metadata", ex)
        show_archive()
    say("=== invalid and failing members")
    reset_archive()
    cp = new_paths()
    cp.paths_manager.add_named_paths(
        name="bad",
        paths=[
            "~ id: ok ~ $[*][ yes() @a = 1 ]",
            "~ id: fails\n validation-mode: no-raise, no-stop, print ~ $[*][ gt(#0, 3) -> fail() @a = 2 @b = 2 ]",
            "~ id: broken\n validation-mode: no-raise, no-stop, print ~ $[*][ nosuchfunction() ]",
            "~ id: after\n source-mode: preceding\n validation-mode: no-raise, no-stop, print ~ $[*][ @b = 3 @c = count() ]",
        ],
    )
    run_group(cp, "collect", "bad", "plain")
    show_results(cp, "bad")
    aggregate(cp.results_manager, "bad")
    show_archive()


def reference_section():
    say("=== results references")
    reset_archive()
    cp = new_paths()
    rm = cp.results_manager
    cp.paths_manager.add_named_paths(name="grp", paths=chain(3, 1, offset=1))
    cp.paths_manager.add_named_paths(name="other", paths=chain(2, 2))
    run_group(cp, "ff", "grp", "ragged")
    run_group(cp, "collect", "grp", "plain")
    run_group(cp, "collect", "grp", "blanks")
    run_group(cp, "collect", "other", "empties")
    os.makedirs("archive/hollow", exist_ok=True)
    os.makedirs("archive/grp/not-a-run", exist_ok=True)
    rundirs = sorted(n for n in os.listdir("archive/grp") if n[0].isdigit())
    say(f"  run dirs: {rundirs}")
    ffrun, run1, run2 = rundirs  # the ff run left no data.csv behind
    day = run1[:10]
    _DAY[0] = day
    refs = [
        f"$grp.results.{run1}.m0",
        f"$grp.results.{run1}.m1",
        f"$grp.results.{run2}.m2",
        f"$grp.results.{ffrun}.m0",
        f"$grp.results.{run2}.nope",
        f"$grp.results.{run2}",
        f"$grp.results.{run2}.",
        f"$grp.results.{run2}.m0.extra",
        f"$grp.results.{run2}#x.m0",
        f"$grp.results.{run2}.m0#y",
        f"$grp#id.results.{run2}.m0",
        "$grp.results.2:first.m0",
        "$grp.results.2:last.m0",
        "$grp.results.2:last.m1",
        f"$grp.results.{day}:first.m1",
        f"$grp.results.{day}_:last.m2",
        f"$grp.results.{run2}:first.m0",
        f"$grp.results.{run2}:last.m0",
        "$grp.results.:first.m0",
        "$grp.results.:last.m0",
        "$grp.results.1999:first.m0",
        "$grp.results.1999:last.m0",
        "$grp.results.2:middle.m0",
        "$grp.results.2:0.m0",
        "$grp.results.2:.m0",
        "$grp.results.not-a-run.m0",
        "$grp.results.n:first.m0",
        "$grp.results.nowhere.m0",
        "$other.results.2:first.m1",
        "$other.results.2:last.m0",
        "$hollow.results.2:last.m0",
        "$hollow.results.x.m0",
        "$nogrp.results.2:last.m0",
        "$nogrp.results.x:bad.m0",
        "$.results.2:last.m0",
        "$grp.variables.2:last.m0",
        "$grp.headers.2:last.m0",
        "$grp.csvpaths.m0",
        "$grp.metadata.x",
        "$grp.nonsense.x.y",
        "$grp.results",
        "$grp.results.",
        "$grp",
        "$",
        "grp.results.2:last.m0",
        "",
        None,
        7,
    ]
    for ref in refs:
        try:
            p = rm.data_file_for_reference(ref)
            with open(p, "r", encoding="utf-8", newline="") as fh:
                content = fh.read()
            say(f"  data_file_for_reference({ref!r}) -> {p} content={content!r}")
        except Exception as ex:  # pylint: disable=W0718
            say(f"  data_file_for_reference({ref!r}) raised {type(ex).__name__}: {ex}")
        if isinstance(ref, str):
            try:
                say(f"      get_named_file -> {cp.file_manager.get_named_file(ref)}")
            except Exception as ex:  # pylint: disable=W0718
                say(f"      get_named_file raised {type(ex).__name__}: {ex}")
    say(" -- helpers")
    for filename in ("archive/grp", "archive/hollow", "archive/nowhere"):
        for instance in ("2:last", "2:first", ":last", ":first", "x:last", "x:first", "2:other", "2:", ":", "plain", "", None):
            try:
                say(f"  _find_instance({filename!r}, {instance!r}) -> {rm._find_instance(filename, instance)!r}")
            except Exception as ex:  # pylint: disable=W0718
                say(f"  _find_instance({filename!r}, {instance!r}) raised {type(ex).__name__}: {ex}")
        for prefix in ("2", "", "x", day):
            for fn in ("_find_last", "_find_first", "_find"):
                try:
                    say(f"  {fn}({filename!r}, {prefix!r}) -> {getattr(rm, fn)(filename, prefix)!r}")
                except Exception as ex:  # pylint: disable=W0718
                    say(f"  {fn}({filename!r}, {prefix!r}) raised {type(ex).__name__}: {ex}")
    names = [
        "2024-01-01_10-15-20",
        "2024-01-01_10-15-20.0",
        "2024-01-01_10-15-20.10",
        "2024-01-01_10-15-20.2",
        "2024-01-01_10-15-19.7",
        "2024-01-02_00-00-00",
        "2023-12-31_23-59-59",
    ]
    for prefix in ("2024", "2024-01-01_10-15-20", "2023", "2025", ""):
        for last in (True, False):
            say(f"  _find_in_dir_names({prefix!r}, last={last}) -> {rm._find_in_dir_names(prefix, list(names), last)!r}")
    try:
        say(f"  _find_in_dir_names bad -> {rm._find_in_dir_names('n', ['not-a-run'], True)!r}")
    except Exception as ex:  # pylint: disable=W0718
        show_exception("_find_in_dir_names bad", ex)
    say(" -- replays through collect_paths")
    for filename, pathsname in (
        (f"$grp.results.{run1}.m0", "$grp.csvpaths.m1:from"),
        (f"$grp.results.{run2}.m1", "$grp.csvpaths.m2"),
        ("$grp.results.2:first.m0", "other"),
        ("$grp.results.2:last.m0", "other"),
        (f"$grp.results.{ffrun}.m0", "other"),
        ("$other.results.2:first.m0", "$grp.csvpaths.m1:to"),
    ):
        say(f" -- replay filename={filename} pathsname={pathsname}")
        run_group(cp, "collect", pathsname, filename)
        for name in dict.fromkeys(("grp", "other", pathsname)):
            show_results(cp, name)
    show_archive()


def main():
    fake_section()
    real_section()
    reference_section()


if __name__ == "__main__":
    logging.disable(logging.CRITICAL)
    # library printouts (print_default, error policy "print") are interleaved
    # with the transcript in the order they happen
    with contextlib.redirect_stdout(OUT), contextlib.redirect_stderr(OUT):
        try:
            main()
        except BaseException as ex:  # pylint: disable=W0718
            say(f"DEMO ABORTED: {type(ex).__name__}: {ex}")
            import traceback

            say(traceback.format_exc())
    # run-dir names are normalised per scenario (the archive is emptied between
    # scenarios so the same second may or may not recur)
    for section in re.split(r"(?m)^(?==== )", OUT.getvalue()):
        sys.stdout.write(normalise(section))
