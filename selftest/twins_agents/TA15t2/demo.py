"""Differential demo for refactoring t2 (ModeController, PrintMode, RunMode, ReturnMode).

Run in an empty temp directory:
    cd /tmp/demo_TWC15_2 && PYTHONPATH=<tree> /venv/bin/python demo.py > out.txt

Prints a deterministic transcript of everything observable that depends on
the mode controller and the mode classes: the values read from metadata,
the guards on get/set, the order of update(), the printers kept or dropped,
the exceptions raised, and the downstream effect of comment mode settings on
standalone CsvPath runs and on CsvPaths group runs (archive listing/contents
with run-directory timestamps normalised).
"""
import io
import json
import os
import re
import shutil
import sys
import contextlib
import itertools

CONFIG = """[csvpath_files]
extensions = txt, csvpath, csvpaths

[csv_files]
extensions = txt, csv, tsv, dat, tab, psv, ssv

[errors]
csvpath = raise, collect, stop, fail, print
csvpaths = raise, collect

[logging]
csvpath = info
csvpaths = info
log_file = logs/csvpath.log
log_files_to_keep = 100
log_file_size = 52428800

[config]
path = config/config.ini

[cache]
path = cache

[listeners]
[marquez]
base_url = http://localhost:5000

[functions]
imports = config/functions.imports

[results]
archive = archive
transfers = transfers

[inputs]
files = inputs/named_files
csvpaths = inputs/named_paths
on_unmatched_file_fingerprints = halt
"""

HERE = os.getcwd()


def setup_env():
    for d in ["config", "archive", "inputs", "cache", "logs", "transfers", "data"]:
        if os.path.exists(d):
            shutil.rmtree(d)
    os.makedirs("config")
    os.makedirs("data")
    with open("config/config.ini", "w", encoding="utf-8") as f:
        f.write(CONFIG)
    with open("config/functions.imports", "w", encoding="utf-8") as f:
        f.write("")
    files = {
        "plain.csv": "a,b,c\n1,2,3\n4,5,6\n7,8,9\n3,0,x\n",
        # blank lines, ragged rows, empty values, zero
        "ragged.csv": "a,b,c\n1,2,3\n\n4,5\n,,\n0,0,0\n7,8,9,10\n   \n3,,x\n",
        # trailing blank line
        "trail.csv": "a,b,c\n3,2,1\n1,2,3\n\n",
        "header_only.csv": "a,b,c\n",
        "quoted.csv": 'a,b,c\n"3","x, y","~z~"\n"1","[q]","$"\n',
    }
    for k, v in files.items():
        with open(os.path.join("data", k), "w", encoding="utf-8") as f:
            f.write(v)
    return files


setup_env()

from csvpath import CsvPath, CsvPaths  # noqa: E402


def show(label, value):
    print(f"{label}: {value!r}")


def exc_str(e):
    s = str(e)
    s = s.replace(HERE, "<cwd>")
    return f"{type(e).__name__}: {s}"


class Holder:
    """a minimal 'instance' for the parser: only has .metadata"""

    def __init__(self, metadata):
        self.metadata = metadata


# ---------------------------------------------------------------------------
# Part A: the mode controller and the mode classes, driven directly
# ---------------------------------------------------------------------------
from csvpath.modes.mode_controller import ModeController  # noqa: E402
from csvpath.util.printer import StdOutPrinter, TestPrinter  # noqa: E402

MODE_ATTRS = [
    "explain_mode",
    "files_mode",
    "logic_mode",
    "print_mode",
    "return_mode",
    "run_mode",
    "source_mode",
    "transfer_mode",
    "unmatched_mode",
    "validation_mode",
]


def quiet_path():
    out = io.StringIO()
    with contextlib.redirect_stdout(out):
        p = CsvPath()
    return p


def mode_state(p):
    """everything the mode objects hold, without triggering lazy loads"""
    m = p.modes
    return {
        "explain": m.explain_mode._explain,
        "files": list(m.files_mode._all_expected_files),
        "logic": m.logic_mode._AND,
        "print": m.print_mode._print_mode,
        "return": m.return_mode._return_mode,
        "run": m.run_mode._run_mode,
        "source": m.source_mode._source_mode,
        "transfers": m.transfer_mode._transfers,
        "unmatched": m.unmatched_mode._unmatched_mode,
        "validation": (
            m.validation_mode._validation_mode,
            m.validation_mode._print_validation_errors,
            m.validation_mode._raise_validation_errors,
            m.validation_mode._match_validation_errors,
            m.validation_mode._stop_on_validation_errors,
            m.validation_mode._fail_on_validation_errors,
        ),
        "printers": [type(x).__name__ for x in p.printers] if p.printers is not None else None,
        "metadata": dict(p.metadata),
    }


def attempt(label, fn):
    try:
        show(label, fn())
    except Exception as e:  # pylint: disable=W0718
        show(label + " raised", exc_str(e))


def part_a():
    print("=" * 20, "PART A: ModeController and mode classes")
    show("MODES", ModeController.MODES)
    #
    # get / set guards
    #
    p = quiet_path()
    show("fresh state", mode_state(p))
    for mode in [None, "", "nope", "return-mode ", "Return-Mode", 0, False, ("return-mode",), ["return-mode"], "return-mode", "print-mode", "validation-mode"]:
        attempt(f"get({mode!r})", lambda: p.modes.get(mode))
    for mode, setting in [(None, "x"), ("nope", "x"), ("", None), (["run-mode"], "run"), ("run-mode", None), ("run-mode", "no-run"), ("logic-mode", 0), ("files-mode", "")]:
        attempt(f"set({mode!r}, {setting!r})", lambda: p.modes.set(mode, setting))
        show("  metadata", p.metadata)
    #
    # the order in which update() refreshes the modes
    #
    order = []
    originals = {}
    for attr in MODE_ATTRS:
        cls = type(getattr(p.modes, attr))
        originals[cls] = cls.update

        def make(cls, attr):
            orig = cls.update

            def upd(self):
                order.append(attr)
                return orig(self)

            return upd

        cls.update = make(cls, attr)
    try:
        p2 = quiet_path()
        p2.metadata = {}
        p2.modes.update()
        show("update order", order)
        order.clear()
        p2.metadata = {"logic-mode": "xor", "return-mode": "bogus", "run-mode": "bogus"}
        attempt("update with three bad modes", p2.modes.update)
        show("  order until failure", order)
        show("  state", mode_state(p2))
        order.clear()
        with contextlib.redirect_stdout(io.StringIO()):
            p3 = CsvPath()
            p3.parse("~ id: via parse logic-mode: OR ~ $data/plain.csv[*][yes()]")
        show("order on parse", order)
    finally:
        for cls, orig in originals.items():
            cls.update = orig
    #
    # update() from metadata: each mode with a range of spellings
    #
    settings = {
        "return-mode": [None, "matches", "no-matches", " matches ", "\tno-matches\n", "Matches", "", "no matches", "matches no-matches"],
        "run-mode": [None, "run", "no-run", " run", "no-run ", "RUN", "", "norun"],
        "unmatched-mode": [None, "keep", "no-keep", "", "KEEP", "x no-keep y", "anything"],
        "logic-mode": [None, "and", "or", "AND", " Or ", "", "nor"],
        "print-mode": [None, "default", "no-default", " default ", "no-default\n", "Default", "", "None"],
        "explain-mode": [None, "explain", "no-explain", " explain ", "Explain", ""],
        "source-mode": [None, "preceding", "default", " preceding", ""],
        "files-mode": [None, "all", " all ", "data", "data, unmatched", "printouts,vars , errors,meta", "", "data,,vars", "All"],
        "transfer-mode": [None, "data > there", "data>a, unmatched > b", "nothing"],
        "validation-mode": [None, "print", "no-print, raise", "match, stop, fail, no-log", "no-match,no-stop,no-fail,log", ""],
    }
    for mode, values in settings.items():
        for v in values:
            p = quiet_path()
            if v is not None:
                p.metadata[mode] = v
            print(f"--- update {mode}={v!r}")
            attempt("  update()", p.modes.update)
            show("  state", mode_state(p))
            for attr in ("collect_when_not_matched", "will_run", "unmatched_available", "AND", "OR", "explain", "data_from_preceding", "all_expected_files", "transfers"):
                attempt(f"  {attr}", lambda: getattr(p, attr))
            attempt("  second update()", p.modes.update)
            show("  state", mode_state(p))
    #
    # the property setters
    #
    for attr, values in {
        "collect_when_not_matched": [True, False, None, 0, 1, "yes"],
        "unmatched_available": [True, False, None, 0, 1, "yes"],
        "AND": [True, False, None],
        "OR": [True, False],
        "explain": [True, False, None],
        "data_from_preceding": [True, False],
        "all_expected_files": [[], ["data"]],
        "will_run": [True, False],
    }.items():
        for v in values:
            p = quiet_path()
            print(f"--- setter {attr}={v!r}")
            try:
                setattr(p, attr, v)
                show("  get", getattr(p, attr))
            except Exception as e:  # pylint: disable=W0718
                show("  raised", exc_str(e))
            show("  state", mode_state(p))
            attempt("  update()", p.modes.update)
            show("  state", mode_state(p))
    for mname, values in {
        "run_mode": [True, False, None],
        "return_mode": [True, False, None],
        "print_mode": [True, False, None],
        "unmatched_mode": [True, False, None],
        "logic_mode": [True, False, None],
    }.items():
        for v in values:
            p = quiet_path()
            print(f"--- modes.{mname}.value={v!r}")
            try:
                getattr(p.modes, mname).value = v
                show("  get", getattr(p.modes, mname).value)
            except Exception as e:  # pylint: disable=W0718
                show("  raised", exc_str(e))
            show("  state", mode_state(p))
            attempt("  update()", p.modes.update)
            show("  state", mode_state(p))
    #
    # print mode against different printer line-ups
    #
    def lineup(spec):
        return [StdOutPrinter() if c == "S" else TestPrinter() for c in spec]

    for spec in ["", "S", "T", "SS", "TS", "ST", "TST", "SST", "TTSS", None]:
        for pm in [None, "default", "no-default", " no-default ", "bogus", True]:
            p = quiet_path()
            printers = None if spec is None else lineup(spec)
            p.set_printers(printers)
            before = None if printers is None else list(printers)
            if pm is not None:
                p.metadata["print-mode"] = pm
            print(f"--- printers={spec!r} print-mode={pm!r}")
            attempt("  update_printers()", p.modes.print_mode.update_printers)
            show("  printers", None if p.printers is None else [type(x).__name__ for x in p.printers])
            show("  same list object", p.printers is printers)
            if printers:
                show("  survivor positions", [before.index(x) if x in before else -1 for x in p.printers])
            attempt("  print_mode.update()", p.modes.print_mode.update)
            show("  printers", None if p.printers is None else [type(x).__name__ for x in p.printers])
            attempt("  print_mode.value", lambda: p.modes.print_mode.value)
            show("  metadata", p.metadata)
            attempt("  value = False", lambda: setattr(p.modes.print_mode, "value", False))
            show("  printers", None if p.printers is None else [type(x).__name__ for x in p.printers])
            attempt("  value = True", lambda: setattr(p.modes.print_mode, "value", True))
            show("  printers", None if p.printers is None else [type(x).__name__ for x in p.printers])
            attempt("  value = True again", lambda: setattr(p.modes.print_mode, "value", True))
            show("  printers", None if p.printers is None else [type(x).__name__ for x in p.printers])
            show("  has_default_printer", p.has_default_printer)
    # print_default=False construction
    with contextlib.redirect_stdout(io.StringIO()):
        p = CsvPath(print_default=False)
    show("print_default=False printers", p.printers)
    attempt("  update()", p.modes.update)
    show("  printers", [type(x).__name__ for x in p.printers])


# ---------------------------------------------------------------------------
# Part B: standalone CsvPath driven by comments
# ---------------------------------------------------------------------------
def run_path(path, method="collect"):
    out = io.StringIO()
    p = None
    res = None
    err = None
    with contextlib.redirect_stdout(out):
        try:
            p = CsvPath()
            p.parse(path)
            if method == "collect":
                res = p.collect()
            elif method == "ff":
                res = p.fast_forward()
            elif method == "next":
                res = [line for line in p.next()]
            elif method == "collect2":
                res = p.collect(nexts=2)
        except Exception as e:  # pylint: disable=W0718
            err = exc_str(e)
    show("  path", path)
    show("  method", method)
    show("  error", err)
    show("  result", res)
    if p is not None:
        show("  unmatched", p.unmatched)
        show("  variables", p.variables)
        show("  is_valid", p.is_valid)
        show("  stopped", p.stopped)
        show("  errors", None if p.errors is None else [f"{e.line}:{e.message}" if hasattr(e, 'message') else str(e) for e in p.errors])
        show("  metadata", p.metadata)
        show("  identity", p.identity)
        show("  scan", p.scan)
        show("  match", p.match)
        show("  counts", (p.scan_count, p.match_count, p.line_monitor.physical_line_number if p.scanner else None))
        show("  printers", [type(x).__name__ for x in p.printers])
        for attr in (
            "collect_when_not_matched",
            "unmatched_available",
            "will_run",
            "AND",
            "explain",
            "data_from_preceding",
            "all_expected_files",
            "transfers",
            "return_mode",
            "unmatched_mode",
            "run_mode",
            "print_mode",
            "logic_mode",
        ):
            try:
                show(f"  mode.{attr}", getattr(p, attr))
            except Exception as e:  # pylint: disable=W0718
                show(f"  mode.{attr} raised", exc_str(e))
    show("  stdout", out.getvalue())


def comment_of(**modes):
    return " ".join(f"{k}: {v}" for k, v in modes.items() if v is not None)


def part_b():
    print("=" * 20, "PART B: standalone CsvPath")
    n = 0
    matches = [
        '#a == "3" print("line $.csvpath.line_number: $.headers.a")',
        '#a == "3" #b == "2"',
        "@n = count_lines() no()",
    ]
    files = ["plain.csv", "ragged.csv", "trail.csv", "header_only.csv"]
    combos = list(
        itertools.product(
            [None, "matches", "no-matches"],
            [None, "keep", "no-keep"],
            [None, "run", "no-run"],
            [None, "default", "no-default"],
            [None, "AND", "OR"],
        )
    )
    for i, (rm, um, run, pm, lm) in enumerate(combos):
        # deterministic thinning: every file/match pairing appears, not all 243*12
        f = files[i % len(files)]
        m = matches[i % len(matches)]
        extra = ["", "free text before", "desc: a description, with punctuation! id: p%d" % i][i % 3]
        c = comment_of(**{"return-mode": rm, "unmatched-mode": um, "run-mode": run, "print-mode": pm, "logic-mode": lm})
        if i % 2:
            comment = f"{extra} {c} note: trailing words"
        else:
            comment = f"{extra} {c}"
        path = f"~ {comment} ~ $data/{f}[*][{m}]"
        print(f"--- B{n} combo={(rm, um, run, pm, lm)} file={f}")
        n += 1
        run_path(path, ["collect", "next", "ff", "collect2"][i % 4])
    # the partition on every file with a non-trivial scan
    for f in files:
        for scan in ["*", "1*", "2-4", "1+3+5", "0"]:
            for rm in ["matches", "no-matches"]:
                print(f"--- B{n} partition file={f} scan={scan} rm={rm}")
                n += 1
                run_path(f'~ unmatched-mode: keep return-mode: {rm} ~ $data/{f}[{scan}][#a == "3"]')
    # bad settings
    for bad in [
        "return-mode: sometimes",
        "run-mode: maybe",
        "print-mode: loud",
        "logic-mode: xor",
        "files-mode: everything",
        "unmatched-mode: whatever",
        "return-mode: no-matches, really",
        "logic-mode:  or ",
        "run-mode:no-run!",
        "explain-mode: explain!",
    ]:
        print(f"--- B{n} bad setting {bad!r}")
        n += 1
        run_path(f"~ {bad} ~ $data/plain.csv[*][yes()]")
    # repeated parse on one instance: settings from a second comment take over
    print(f"--- B{n} reparse")
    out = io.StringIO()
    with contextlib.redirect_stdout(out):
        p = CsvPath()
        p.parse('~ id: first return-mode: no-matches print-mode: no-default ~ $data/plain.csv[*][#a=="3"]')
        first = (dict(p.metadata), p.collect_when_not_matched, [type(x).__name__ for x in p.printers])
        p.parse('~ name: second unmatched-mode: keep ~ $data/plain.csv[*][#a=="3"]')
        second = (dict(p.metadata), p.collect_when_not_matched, [type(x).__name__ for x in p.printers])
        lines = p.collect()
    show("  first", first)
    show("  second", second)
    show("  lines", lines)
    show("  unmatched", p.unmatched)
    show("  stdout", out.getvalue())


# ---------------------------------------------------------------------------
# Part C: CsvPaths group runs and the archive
# ---------------------------------------------------------------------------
RUN_DIR = re.compile(r"^\d{4}-\d{2}-\d{2}_\d{2}-\d{2}-\d{2}(\.\d+)?$")
VOLATILE_KEYS = {
    "time",
    "uuid",
    "run_uuid",
    "time_started",
    "time_completed",
    "run_time",
    "run_home",
    "instance_home",
    "file_fingerprint",
    "manifest_path",
    "named_file_path",
    "named_paths_uuid",
    "named_file_uuid",
    "run_started_at",
    "created_at",
    "uuid_string",
    "last_row_time",
    "rows_time",
    "total_iteration_time",
    "lines_time",
    "last_line_time",
    "hostname",
    "username",
    "ip_address",
    "os",
    "python_version",
}


def scrub(o):
    if isinstance(o, dict):
        ret = {}
        for k, v in sorted(o.items()):
            if k in VOLATILE_KEYS:
                ret[k] = "<volatile>"
            elif k == "file_fingerprints" and isinstance(v, dict):
                # meta.json holds run times, so its fingerprint differs run to run
                ret[k] = {f: ("<volatile>" if f in ("meta.json", "manifest.json") else h) for f, h in sorted(v.items())}
            else:
                ret[k] = scrub(v)
        return ret
    if isinstance(o, list):
        return [scrub(v) for v in o]
    if isinstance(o, str):
        s = o.replace(HERE, "<cwd>")
        s = re.sub(r"\d{4}-\d{2}-\d{2}[_T ]\d{2}[-:]\d{2}[-:]\d{2}(\.\d+)?(\+00:00)?", "<ts>", s)
        s = re.sub(r"[0-9a-f]{8}-[0-9a-f]{4}-[0-9a-f]{4}-[0-9a-f]{4}-[0-9a-f]{12}", "<uuid>", s)
        return s
    return o


def dump_tree(root):
    if not os.path.exists(root):
        print(f"  (no {root})")
        return
    for dirpath, dirnames, filenames in os.walk(root):
        dirnames.sort()
        parts = dirpath.split(os.sep)
        # number run dirs in sorted order so that their timestamps are normalised
        shown = []
        for i, part in enumerate(parts):
            if RUN_DIR.match(part):
                sibs = sorted(d for d in os.listdir(os.sep.join(parts[:i])) if RUN_DIR.match(d))
                shown.append(f"<run{sibs.index(part)}>")
            else:
                shown.append(part)
        shown = "/".join(shown)
        for fn in sorted(filenames):
            full = os.path.join(dirpath, fn)
            print(f"  FILE {shown}/{fn}")
            with open(full, "r", encoding="utf-8") as f:
                text = f.read()
            if fn.endswith(".json"):
                try:
                    print("    " + json.dumps(scrub(json.loads(text)), sort_keys=True))
                except Exception:  # pylint: disable=W0718
                    print("    " + repr(scrub(text)))
            else:
                print("    " + repr(scrub(text)))


GROUPS = {
    "modes": [
        '~ id: keepers unmatched-mode: keep files-mode: all ~ $[*][#a == "3" print("kept $.csvpath.line_number")]',
        '~ id: inverse return-mode: no-matches unmatched-mode: keep files-mode: data, unmatched ~ $[*][#a == "3"]',
        '~ id: skipped run-mode: no-run ~ $[*][yes() print("never")]',
        '~ id: quiet print-mode: no-default unmatched-mode: no-keep ~ $[*][yes() print("quiet $.csvpath.line_number")]',
        '~ id: either logic-mode: OR description: any of them ~ $[1*][#a == "3" #b == "2"]',
        '$[*][#c == "x"]',
    ],
    "plain": [
        "~ just words ~ $[*][yes()]",
        '~ name: named not id validation-mode: no-raise, print ~ $[2-3][@c = count() yes()]',
    ],
}


def part_c():
    print("=" * 20, "PART C: CsvPaths")
    n = 0
    for method in ["collect_paths", "fast_forward_paths", "next_paths", "collect_by_line", "fast_forward_by_line", "next_by_line"]:
        for fname in ["ragged", "trail", "plain"]:
            for gname, paths in GROUPS.items():
                for d in ["archive", "inputs", "cache"]:
                    if os.path.exists(d):
                        shutil.rmtree(d)
                print(f"--- C{n} {method} file={fname} group={gname}")
                n += 1
                out = io.StringIO()
                err = None
                yielded = None
                cp = None
                with contextlib.redirect_stdout(out):
                    try:
                        cp = CsvPaths()
                        cp.file_manager.add_named_file(name=fname, path=f"data/{fname}.csv")
                        cp.paths_manager.add_named_paths(name=gname, paths=paths)
                        m = getattr(cp, method)
                        if method.startswith("next"):
                            yielded = [list(x) if isinstance(x, list) else x for x in m(filename=fname, pathsname=gname)]
                        else:
                            yielded = m(filename=fname, pathsname=gname)
                    except Exception as e:  # pylint: disable=W0718
                        err = exc_str(e)
                show("  error", err)
                show("  yielded", yielded)
                show("  stdout", out.getvalue())
                if cp is not None:
                    try:
                        results = cp.results_manager.get_named_results(gname)
                    except Exception as e:  # pylint: disable=W0718
                        results = []
                        show("  results raised", exc_str(e))
                    for r in results:
                        show("  result", r.csvpath.identity)
                        try:
                            lines = r.lines
                            lines = None if lines is None else [list(x) for x in lines.next()] if hasattr(lines, "next") else list(lines)
                        except Exception as e:  # pylint: disable=W0718
                            lines = exc_str(e)
                        show("    lines", lines)
                        try:
                            um = r.unmatched
                            um = None if um is None else [list(x) for x in um.next()] if hasattr(um, "next") else list(um)
                        except Exception as e:  # pylint: disable=W0718
                            um = exc_str(e)
                        show("    unmatched", um)
                        show("    csvpath.unmatched", r.csvpath.unmatched)
                        show("    variables", r.csvpath.variables)
                        show("    metadata", scrub(r.csvpath.metadata))
                        show("    is_valid", r.csvpath.is_valid)
                        show("    printouts", {k: list(v) for k, v in (r.printouts or {}).items()} if isinstance(r.printouts, dict) else r.printouts)
                        show("    errors", r.errors_count if hasattr(r, "errors_count") else None)
                        show("    printers", [type(x).__name__ for x in r.csvpath.printers])
                dump_tree("archive")


if __name__ == "__main__":
    part_a()
    part_b()
    part_c()
