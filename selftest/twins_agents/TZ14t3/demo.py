#!/usr/bin/env python
"""
Differential demonstration for property C14
("Assignment qualifiers decide the vote and the write per the documented table").

Run in an EMPTY scratch directory:

    mkdir /tmp/demo && cd /tmp/demo && PYTHONPATH=<csvpath tree> python demo.py > out.txt

The script is self-contained: it writes its own offline ./config/config.ini, its
own data files and prints a deterministic transcript of everything observable:
returned lines, variables, validity, stop state, counts, collected errors (no
tracebacks: they hold source line numbers), printouts and the listing/contents
of ./archive for the CsvPaths run (run-dir timestamps normalised).

Sections
  A  real csvpaths: all 256 qualifier subsets x value sequences x rest-of-line
     matches / does not match (3-line files and a long De Bruijn style file)
  B  direct calls of Equality._do_assignment_new_impl / _latch_and_onchange /
     _set_variable_if on odd values (None, 0, '', [], nan, mixed types), AND and OR
  C  the qualifier properties / has_known_qualifiers / non-term qualifiers of
     Qualified on many names, incl. setters, duplicates, None and ''
  D  scenario csvpaths on a nasty file (blank lines, ragged rows, empty values,
     zeros): several onmatch look-aheads per line, when/do, count(), tracking
     variables, OR logic, error cases under three error policies, repeated runs
  E  a CsvPaths named-paths run with the archive listed
"""
import hashlib
import io
import itertools
import json
import math
import os
import re
import shutil
import sys
import contextlib

CONFIG = """[csvpath_files]
extensions = txt, csvpath, csvpaths

[csv_files]
extensions = txt, csv, tsv, dat, tab, psv, ssv

[errors]
csvpath = raise, collect, stop, fail, print
csvpaths = raise, collect

[logging]
csvpath = info
csvpaths = info
log_file = logs/csvpath.log
log_files_to_keep = 100
log_file_size = 52428800

[config]
path = config/config.ini

[cache]
path = cache

[listeners]
[marquez]
base_url = http://localhost:5000

[functions]
imports = config/functions.imports

[results]
archive = archive
transfers = transfers

[inputs]
files = inputs/named_files
csvpaths = inputs/named_paths
on_unmatched_file_fingerprints = halt
"""

for d in ("archive", "cache", "inputs", "logs", "transfers", "config", "data"):
    shutil.rmtree(d, ignore_errors=True)
os.makedirs("config")
os.makedirs("data")
with open("config/config.ini", "w", encoding="utf-8") as f:
    f.write(CONFIG)
with open("config/functions.imports", "w", encoding="utf-8") as f:
    f.write("")

from csvpath import CsvPath, CsvPaths  # noqa: E402
from csvpath.matching.matcher import Matcher  # noqa: E402
from csvpath.matching.productions import Equality, Variable, Header, Term  # noqa: E402
from csvpath.matching.productions.qualified import Qualified  # noqa: E402

QUALS = [
    "onmatch",
    "latch",
    "onchange",
    "increase",
    "decrease",
    "notnone",
    "asbool",
    "nocontrib",
]
SUBSETS = [
    [q for i, q in enumerate(QUALS) if mask & (1 << i)] for mask in range(256)
]


ONLY = os.environ.get("DEMO_ONLY", "ABCDE")  # e.g. DEMO_ONLY=DE to run some sections


ADDR = re.compile(r" at 0x[0-9a-fA-F]+")


def out(*a):
    print(ADDR.sub(" at 0x?", " ".join(str(_) for _ in a)))
    sys.stdout.flush()


def norm(v):
    """deterministic repr of values (nan, floats, nested)"""
    if isinstance(v, float) and math.isnan(v):
        return "nan"
    if isinstance(v, dict):
        return "{" + ", ".join(f"{norm(k)}: {norm(x)}" for k, x in v.items()) + "}"
    if isinstance(v, list):
        return "[" + ", ".join(norm(x) for x in v) + "]"
    if isinstance(v, tuple):
        return "(" + ", ".join(norm(x) for x in v) + ")"
    return repr(v)


def errs(p):
    es = []
    for e in p.errors or []:
        j = e.to_json() if hasattr(e, "to_json") else {"error": str(e)}
        es.append(
            (
                j.get("line_count"),
                j.get("match_count"),
                j.get("scan_count"),
                str(j.get("error")),
                str(j.get("source")),
                j.get("message"),
            )
        )
    return es


def run_path(path, *, policy=None, method="collect", show_errors=True):
    """runs one csvpath and returns a one-line deterministic description"""
    p = CsvPath()
    if policy is not None:
        p.config.csvpath_errors_policy = policy
    buf = io.StringIO()
    res = None
    with contextlib.redirect_stdout(buf):
        try:
            p.parse(path)
            if method == "collect":
                res = p.collect()
            elif method == "next":
                res = []
                for line in p.next():
                    res.append(
                        (p.line_monitor.physical_line_number, list(line), norm(p.variables))
                    )
            else:
                p.fast_forward()
                res = "ff"
        except Exception as ex:  # pylint: disable=W0718
            res = f"EXC {type(ex).__name__}: {ex}"
    printed = buf.getvalue()
    d = (
        f"res={norm(res)} vars={norm(p.variables)} valid={p.is_valid} "
        f"stopped={p.stopped} mc={p.match_count} sc={p.scan_count}"
    )
    if show_errors:
        d += f" errors={norm(errs(p))}"
    else:
        d += f" nerrors={len(p.errors or [])}"
    if printed:
        d += f" printed={printed!r}"
    return d



A = None  # absent: the row is too short to hold #y
SEQS3 = [
    (1, 2, 3),
    (3, 2, 1),
    (2, 2, 1),
    (A, 1, 1),
    (1, A, 2),
    (A, A, 3),
]
BOOLSEQS = [("true", "false", "true"), ("false", A, "true"), (A, "true", "true")]


def write_file(name, seq, ms):
    with open(name, "w", encoding="utf-8") as f:
        f.write("m,y\n")
        for y, m in zip(seq, ms):
            f.write(f"{m}\n" if y is None else f"{m},{y}\n")



def section_a1():
    # ======================================================================
    out("=== A1: 256 subsets x 3-line files")
    # ======================================================================
    n = 0
    for si, seq in enumerate(SEQS3):
        for rest, m in (("match", "k"), ("nomatch", "z")):
            fn = f"data/a1_{si}_{rest}.csv"
            write_file(fn, seq, [m] * 3)
            for sub in SUBSETS:
                q = "".join(f".{s}" for s in sub)
                path = f'${fn}[1*][ @x{q} = int(#y) push("h", @x) #m == "k" ]'
                out(f"A1|{q}|{seq}|{rest}|", run_path(path, show_errors=False))
                n += 1
    for si, seq in enumerate(BOOLSEQS):
        for rest, m in (("match", "k"), ("nomatch", "z")):
            fn = f"data/a1b_{si}_{rest}.csv"
            write_file(fn, seq, [m] * 3)
            for sub in SUBSETS:
                if "increase" in sub or "decrease" in sub:
                    continue
                q = "".join(f".{s}" for s in sub)
                path = f'${fn}[1*][ @x{q} = #y push("h", @x) #m == "k" ]'
                out(f"A1b|{q}|{seq}|{rest}|", run_path(path, show_errors=False))
                n += 1
    out("A1 runs:", n)



def section_a2():
    # ======================================================================
    out("=== A2: 256 subsets x long file covering every window of 3 values")
    # ======================================================================


    def de_bruijn(k, n):
        a = [0] * k * n
        sequence = []

        def db(t, p):
            if t > n:
                if n % p == 0:
                    sequence.extend(a[1 : p + 1])
            else:
                a[t] = a[t - p]
                db(t + 1, p)
                for j in range(a[t - p] + 1, k):
                    a[t] = j
                    db(t + 1, t)

        db(1, 1)
        return sequence


    DB = de_bruijn(4, 3)
    DB = DB + DB[:2]
    VALS = [A, 1, 2, 3]
    LONG = [VALS[i] for i in DB]
    MIXED = ["k" if (i * 7 + i // 5) % 3 else "z" for i in range(len(LONG))]
    write_file("data/a2_match.csv", LONG, ["k"] * len(LONG))
    write_file("data/a2_nomatch.csv", LONG, ["z"] * len(LONG))
    write_file("data/a2_mixed.csv", LONG, MIXED)
    out("long sequence:", LONG)
    out("mixed m:", "".join(MIXED))
    n = 0
    for rest in ("match", "nomatch", "mixed"):
        fn = f"data/a2_{rest}.csv"
        for sub in SUBSETS:
            q = "".join(f".{s}" for s in sub)
            for rhs in ("int(#y)", "#y"):
                # the order of the components is varied too: the look-ahead of onmatch
                # sees components on both sides of the assignment
                if rhs == "#y":
                    path = f'${fn}[1*][ #m == "k" @x{q} = {rhs} push("h", @x) ]'
                else:
                    path = f'${fn}[1*][ push("h", @x) @x{q} = {rhs} #m == "k" ]'
                d = run_path(path, method="collect", show_errors=False)
                # lines are long: print the matched y column only
                out(f"A2|{q}|{rhs}|{rest}|", re.sub(r"\['([kz])'(, '(\d)')?\]", r"\1\3", d))
                n += 1
    out("A2 runs:", n)



def section_b():
    # ======================================================================
    out("=== B: direct calls on Equality")
    # ======================================================================
    nan = float("nan")
    VALUES = [None, 0, 1, 2, "", "a", "2", [], [1], True, False, nan, 1.5, -1]


    def explain(matcher):
        r = [
            (w._action, w._because, w._result, type(w._who).__name__)  # pylint: disable=W0212
            for w in matcher.explaination
        ]
        matcher.explaination = []
        return r


    for AND in (True, False):
        cp = CsvPath()
        matcher = Matcher(csvpath=cp, data="[yes()]")
        matcher.AND = AND
        eq = Equality(matcher=matcher)
        for sub in SUBSETS:
            for lm in (True, False):
                codes = []
                h = hashlib.sha256()
                for cur, new in itertools.product(VALUES, VALUES):
                    cp.variables.clear()
                    args = {k: (k in sub) for k in QUALS}
                    args.update(
                        {
                            "noqualifiers": len(sub) == 0,
                            "count": False,
                            "current_value": cur,
                            "new_value": new,
                            "line_matches": lm,
                        }
                    )
                    try:
                        ret = eq._do_assignment_new_impl(  # pylint: disable=W0212
                            name="x", tracking=None, args=args
                        )
                        code = ("T" if ret is True else "F" if ret is False else "?") + (
                            "w" if "x" in cp.variables else "-"
                        )
                        detail = (norm(ret), norm(cp.variables), explain(matcher))
                    except Exception as ex:  # pylint: disable=W0718
                        code = "E" + type(ex).__name__[0]
                        detail = (type(ex).__name__, str(ex), norm(cp.variables), explain(matcher))
                    codes.append(code)
                    h.update(repr(detail).encode("utf-8"))
                out(
                    f"B1|AND={AND}|{'.'.join(sub)}|lm={lm}|",
                    "".join(codes),
                    h.hexdigest()[:16],
                )
        # tracking values and a few fully printed details
        for sub in ([], ["latch"], ["onchange"], ["latch", "onchange"], ["increase"], ["notnone", "decrease"]):
            for cur, new in [(None, 1), (1, 1), (1, 2), (2, 1), (1, None), (None, None), (0, 0), ("", None), (nan, nan), ("a", 1)]:
                for tracking in (None, "t", 0):
                    cp.variables.clear()
                    args = {k: (k in sub) for k in QUALS}
                    args.update(
                        {
                            "noqualifiers": len(sub) == 0,
                            "count": False,
                            "current_value": cur,
                            "new_value": new,
                            "line_matches": True,
                        }
                    )
                    try:
                        ret = eq._do_assignment_new_impl(  # pylint: disable=W0212
                            name="x", tracking=tracking, args=args
                        )
                        d = norm(ret)
                    except Exception as ex:  # pylint: disable=W0718
                        d = f"EXC {type(ex).__name__}: {ex}"
                    out(
                        f"B2|AND={AND}|{'.'.join(sub)}|cur={norm(cur)} new={norm(new)} tr={tracking!r}|",
                        d,
                        norm(cp.variables),
                        explain(matcher),
                    )
        # the two helpers directly, with a ret the wrapper would not pass
        for ret0 in (True, False, None):
            for latch, onchange in itertools.product((True, False), repeat=2):
                for cur, new in [(None, 1), (1, 1), (1, 2), (None, None), (0, None), ([], []), (nan, nan), ("1", 1)]:
                    for notnone, inc, dec in [(False, False, False), (True, False, False), (False, True, False), (False, False, True), (True, True, True)]:
                        cp.variables.clear()
                        try:
                            r = eq._latch_and_onchange(  # pylint: disable=W0212
                                ret=ret0,
                                current_value=cur,
                                new_value=new,
                                name="x",
                                tracking=None,
                                latch=latch,
                                onchange=onchange,
                                notnone=notnone,
                                increase=inc,
                                decrease=dec,
                            )
                            d = norm(r)
                        except Exception as ex:  # pylint: disable=W0718
                            d = f"EXC {type(ex).__name__}: {ex}"
                        out(
                            f"B3|AND={AND}|ret={ret0} latch={latch} onchange={onchange} cur={norm(cur)} new={norm(new)} nn={notnone} inc={inc} dec={dec}|",
                            d,
                            norm(cp.variables),
                            explain(matcher),
                        )
        for ret0 in (True, False):
            for cur, new in itertools.product([None, 0, 1, 2, "", "b", [], nan], repeat=2):
                for notnone, inc, dec in itertools.product((True, False), repeat=3):
                    cp.variables.clear()
                    try:
                        r = eq._set_variable_if(  # pylint: disable=W0212
                            ret0,
                            "x",
                            current_value=cur,
                            value=new,
                            notnone=notnone,
                            increase=inc,
                            decrease=dec,
                        )
                        d = norm(r)
                    except Exception as ex:  # pylint: disable=W0718
                        d = f"EXC {type(ex).__name__}: {ex}"
                    out(
                        f"B4|AND={AND}|ret={ret0} cur={norm(cur)} new={norm(new)} nn={notnone} inc={inc} dec={dec}|",
                        d,
                        norm(cp.variables),
                        explain(matcher),
                    )
        # line_matches looked up for real (line_matches=None) on a parentless equality
        for sub in ([], ["onmatch"], ["onmatch", "latch"], ["onmatch", "asbool"], ["onmatch", "nocontrib"]):
            cp.variables.clear()
            matcher.reset()
            args = {k: (k in sub) for k in QUALS}
            args.update(
                {
                    "noqualifiers": len(sub) == 0,
                    "count": False,
                    "current_value": None,
                    "new_value": "v",
                    "line_matches": None,
                }
            )
            try:
                r = norm(eq._do_assignment_new_impl(name="x", tracking=None, args=args))  # pylint: disable=W0212
            except Exception as ex:  # pylint: disable=W0718
                r = f"EXC {type(ex).__name__}: {ex}"
            out(
                f"B5|AND={AND}|{'.'.join(sub)}|",
                r,
                norm(cp.variables),
                [e[1] for e in matcher.expressions],
                cp.match_count,
                explain(matcher),
            )



def section_c():
    # ======================================================================
    out("=== C: Qualified")
    # ======================================================================
    PROPS = [
        "onmatch",
        "onchange",
        "asbool",
        "nocontrib",
        "latch",
        "increase",
        "decrease",
        "notnone",
        "distinct",
        "once",
    ]


    def describe(q):
        props = "".join("1" if getattr(q, p) is True else "0" if getattr(q, p) is False else "?" for p in PROPS)
        return (
            f"name={q.name!r} qualifiers={q.qualifiers!r} qualifier={q.qualifier!r} props={props} "
            f"known={q.has_known_qualifiers()!r} first={q.first_non_term_qualifier()!r} "
            f"first_d={q.first_non_term_qualifier('dflt')!r} second={q.second_non_term_qualifier()!r} "
            f"second_d={q.second_non_term_qualifier('dflt')!r} has_x={q.has_qualifier('x')!r} has_latch={q.has_qualifier('latch')!r}"
        )


    NAMES = [
        "a",
        "a.onmatch",
        "a.latch.onchange",
        "a.b",
        "a.b.c",
        "a.b.asbool.c",
        "a.onmatch.onmatch",
        "a.increase.decrease.notnone.nocontrib.asbool.latch.onchange.onmatch.once.distinct",
        "a.ONMATCH",
        "a. onmatch",
        "a..latch",
        "a.latch.",
        "a.True",
        "a.0",
        '"a b".onmatch',
        '"a.b".latch.x',
        "  a  .once",
    ]
    cpq = CsvPath()
    mq = Matcher(csvpath=cpq, data="[yes()]")
    for nm in NAMES:
        for cls in (Variable, Header, Term):
            try:
                if cls is Term:
                    q = cls(mq, value="v", name=nm)
                else:
                    q = cls(mq, name=nm)
            except Exception as ex:  # pylint: disable=W0718
                out(f"C1|{cls.__name__}|{nm!r}| EXC {type(ex).__name__}: {ex}")
                continue
            out(f"C1|{cls.__name__}|{nm!r}|", describe(q))
            # setters on then off, twice (duplicates / removal of only the first)
            for p in PROPS:
                setattr(q, p, True)
            out(f"C2|{cls.__name__}|{nm!r}|all on|", describe(q))
            for p in PROPS[::2]:
                setattr(q, p, False)
            out(f"C2|{cls.__name__}|{nm!r}|even off|", describe(q))
            for p in PROPS:
                setattr(q, p, False)
                setattr(q, p, False)
            out(f"C2|{cls.__name__}|{nm!r}|all off|", describe(q))
            q.add_qualifier("latch")
            q.add_qualifier("latch")
            q.add_qualifier("zz")
            out(f"C2|{cls.__name__}|{nm!r}|added|", describe(q))
            for qs in ("onmatch", "", "x.y.onchange", "onmatch.onmatch", None):
                try:
                    q.set_qualifiers(qs)
                    out(f"C3|{cls.__name__}|{nm!r}|set_qualifiers({qs!r})|", describe(q))
                except Exception as ex:  # pylint: disable=W0718
                    out(f"C3|{cls.__name__}|{nm!r}|set_qualifiers({qs!r})| EXC {type(ex).__name__}: {ex}")
            for qs in ([], None, ["notnone", "notnone"], ["q"]):
                try:
                    q.qualifiers = qs
                    out(f"C4|{cls.__name__}|{nm!r}|qualifiers={qs!r}|", describe(q))
                except Exception as ex:  # pylint: disable=W0718
                    out(f"C4|{cls.__name__}|{nm!r}|qualifiers={qs!r}| EXC {type(ex).__name__}: {ex}")
    for nm in [None, "n", "n.asbool", "n.x.once", ""]:
        try:
            q = Qualified(name=nm)
            out(f"C5|Qualified|{nm!r}|", describe(q))
            q.latch = True
            q.once = True
            q.latch = False
            out(f"C5|Qualified|{nm!r}|set|", describe(q))
        except Exception as ex:  # pylint: disable=W0718
            out(f"C5|Qualified|{nm!r}| EXC {type(ex).__name__}: {ex}")
    # the qualifiers as parsed from real csvpaths, every match component
    for mp in [
        '[ @x.onmatch.latch = count.me.onmatch() #y.notnone.asbool == "1" push.distinct.onmatch("p", #0) ]',
        '[ @x.asbool.nocontrib = #1 @y.t.increase = @x.t  yes.once() -> @z.onchange.k = "v" ]',
        '[ tally.r.onmatch(#0) above.nocontrib(#1, 2) or.onmatch( yes(), no() ) ]',
    ]:
        m3 = Matcher(csvpath=CsvPath(), data=mp, line=["1", "2"], headers=["m", "y"])
        stack = [e[0] for e in m3.expressions]
        while stack:
            c = stack.pop(0)
            out(f"C6|{mp}|{c}|", describe(c), "myexp=", str(c.my_expression))
            stack = [_ for _ in c.children if _ is not None] + stack



def section_d():
    # ======================================================================
    out("=== D: scenarios")
    # ======================================================================
    with open("data/d.csv", "w", encoding="utf-8") as f:
        f.write(
            "id,y,m,w\n"
            "1,1,k,a\n"
            "2,,k,a\n"
            "\n"
            "3,0,z,b\n"
            "4,2,k\n"
            "5\n"
            "6,2,k,b,extra,cells\n"
            "7,-1,k,b\n"
            ",,,\n"
            "9,10,z,\n"
            "10,true,k,c\n"
            "11,false,k,c\n"
            "12,3,k,c\n"
            "\n"
        )
    with open("data/empty.csv", "w", encoding="utf-8") as f:
        f.write("")
    with open("data/headers_only.csv", "w", encoding="utf-8") as f:
        f.write("id,y,m,w\n")
    with open("data/blank_last.csv", "w", encoding="utf-8") as f:
        f.write("id,y,m,w\n1,1,k,a\n2,2,k,a\n\n")

    SCEN = [
        # several onmatch look-aheads on one line, in several expressions
        '[ @a.onmatch = #y @b.onmatch = #id #m == "k" @c.onmatch.latch = #w ]',
        '[ @a.onmatch = #y #m == "k" @b.onmatch.increase = int(#id) @n = count() ]',
        '[ @a.onmatch.onchange = #w #m == "k" ]',
        '[ @a.onmatch.asbool = #y ]',
        '[ @a.onmatch.nocontrib = #y #m == "z" ]',
        '[ @a.onmatch = #y no() ]',
        '[ @a.onmatch = #y @b = #id not(#m == "z") ]',
        # count() and has_matches() imply onmatch
        '[ @c = count() #m == "k" ]',
        '[ @c = count() @d.latch = count() #m == "k" #w == "b" ]',
        '[ @c = has_matches() #w == "b" ]',
        '[ @c.asbool = count() @d = count_lines() #m == "z" ]',
        '[ @c = count(#m == "k") ]',
        # tracking values
        '[ @t.k.onmatch = #id #m == "k" ]',
        '[ @t.k = #id @t.z.latch = #y @u.k.increase = int(#id) ]',
        '[ @t.k.onchange = #w ]',
        '[ @t.True = #id @t.0.notnone = #y ]',
        # when/do with assignments on either side
        '[ #m == "k" -> @a.latch = #id ]',
        '[ #y -> @b.onmatch.asbool = #y #m == "k" ]',
        '[ @a.onmatch = #id #m == "k" -> @b.onchange = #w ]',
        '[ #w == "b" -> @a.increase = int(#id) @c.onmatch = count_lines() ]',
        '[ last() -> @a.onmatch = count_lines() ]',
        '[ last.nocontrib() -> @a.onmatch = count_lines() #m == "k" ]',
        '[ last.nocontrib() -> print("last: $.variables.a") @a.onmatch = #id #m == "k" ]',
        # assignments from variables, terms, functions
        '[ @a = #y @b.onchange = @a @c.latch = "term" @d.notnone = none() ]',
        '[ @a.notnone = #y @b.notnone.asbool = #y ]',
        '[ @a.increase = int(#y) ]',
        '[ @a.decrease = int(#y) ]',
        '[ @a.increase.decrease = int(#y) ]',
        '[ @a.increase.onchange = #id @b.decrease.latch = #id ]',
        '[ @a.latch.notnone = #w @b.onchange.notnone = #w ]',
        '[ @a.asbool = #y ]',
        '[ @a.asbool.latch = #y @b.asbool.onchange = #y ]',
        '[ @a.nocontrib.notnone = #w @b.nocontrib.increase = int(#id) no() ]',
        '[ @a = 0 @b.asbool = 0 @c.asbool.nocontrib = 0 ]',
        '[ @a.onmatch.latch.onchange.increase.decrease.notnone.asbool.nocontrib = #y ]',
        # the same variable assigned twice on a line
        '[ @a = #id @a.onchange = #w ]',
        '[ @a.onmatch = #id @a.onmatch.latch = #y #m == "k" ]',
        # equality, not assignment
        '[ @a = #id @a == #id ]',
        '[ @a.onmatch == #id ]',
        # printouts
        '[ @a.onmatch = #id #m == "k" print("line $.csvpath.line_number a=$.variables.a") ]',
        '[ @a.onchange = #w print.onmatch("changed to $.variables.a at $.csvpath.count_matches") ]',
        # stop / skip / fail around an onmatch look-ahead
        '[ @a.onmatch = #id stop(#id == "7") ]',
        '[ @a.onmatch = #id skip(#id == "4") @b = #id ]',
        '[ @a.onmatch = #id #id == "4" -> fail() ]',
        '[ @a.onmatch = #id #w == "b" -> fail_and_stop() ]',
        # error cases
        '[ @a = #y @a.increase = int(#id) ]',
        '[ @a.onmatch = #nosuch ]',
        '[ @a.onmatch = #id #nosuch == "k" ]',
        '[ @a.onmatch = int(#w) ]',
        '[ @a.onmatch = #id int(#w) == 1 ]',
        '[ @a.decrease = date(#y, "%Y") ]',
        '[ @a.onmatch.notnone = decimal(#w) #m == "k" ]',
        '[ @a.onmatch = boolean(#y) ]',
        '[ @a.onmatch = none(#y) ]',
        '[ @a.onmatch = #id or(int(#w) == 1, #m == "k") ]',
        '[ @a.onmatch = add(#y, #w) #m == "k" ]',
        '[ @a.onmatch.increase = #y @a.onmatch = int(#id) #m == "k" ]',
        '[ @a.onmatch = #id @b.onmatch = divide(1, int(#y)) ]',
        '[ @a.onmatch = #id  push("l", #y) @b.onmatch = max(#y) ]',
    ]
    POLICIES = [
        ["raise", "collect", "stop", "fail", "print"],
        ["collect", "fail", "print"],
        ["collect"],
    ]
    for sc in SCEN:
        for mode in ("", "~ logic-mode: OR ~ "):
            for pi, pol in enumerate(POLICIES):
                path = f"{mode}$data/d.csv[1*]{sc}"
                out(f"D1|{mode}{sc}|policy{pi}|collect|", run_path(path, policy=pol))
        out(f"D1|{sc}|policy1|next|", run_path(f"$data/d.csv[1*]{sc}", policy=POLICIES[1], method="next"))
        out(f"D1|{sc}|policy2|ff|", run_path(f"$data/d.csv[*]{sc}", policy=POLICIES[2], method="ff"))
        out(f"D1|{sc}|policy2|scan 2-5+8|", run_path(f"$data/d.csv[2-5+8]{sc}", policy=POLICIES[2]))
    for sc in SCEN[:12]:
        for fn in ("data/empty.csv", "data/headers_only.csv", "data/blank_last.csv"):
            out(f"D2|{fn}|{sc}|", run_path(f"${fn}[*]{sc}", policy=POLICIES[1]))
    # other modes that change what an unmatched line means
    for sc in SCEN[:8]:
        out(
            f"D3|return-mode no-matches|{sc}|",
            run_path(f"~ return-mode: no-matches ~ $data/d.csv[1*]{sc}", policy=POLICIES[1]),
        )
        out(
            f"D3|validation-mode match|{sc}|",
            run_path(
                f"~ validation-mode: no-raise, no-stop, match, print ~ $data/d.csv[1*]{sc}",
                policy=POLICIES[1],
            ),
        )
    # repeated runs: the same text on fresh instances is stable, and one instance
    # asked to run again
    for i in range(3):
        out(f"D4|fresh {i}|", run_path('$data/d.csv[1*][ @a.onmatch.latch = #id #m == "k" @n = count() ]'))
    p = CsvPath()
    p.parse('$data/d.csv[1*][ @a.onmatch.onchange = #w #m == "k" @n = count() ]')
    for i in range(2):
        try:
            r = p.collect()
        except Exception as ex:  # pylint: disable=W0718
            r = f"EXC {type(ex).__name__}: {ex}"
        out(f"D4|same instance run {i}|", norm(r), norm(p.variables), p.is_valid, p.match_count, norm(errs(p)))
    # the file rewritten at the same path between two runs
    for content in ("id,y,m,w\n1,5,k,a\n2,4,k,a\n", "id,y,m,w\n1,4,z,a\n2,5,k,a\n3,5,k,b\n"):
        with open("data/rewrite.csv", "w", encoding="utf-8") as f:
            f.write(content)
        out("D5|rewritten|", run_path('$data/rewrite.csv[1*][ @a.onmatch.increase = int(#y) #m == "k" @b.onchange = #w ]'))
    # another delimiter and quotechar
    with open("data/semi.csv", "w", encoding="utf-8") as f:
        f.write("id;y;m;w\n1;'1;5';k;a\n2;;k;a\n3;2;z;b\n")
    p = CsvPath(delimiter=";", quotechar="'")
    p.parse('$data/semi.csv[1*][ @a.onmatch.notnone = #y #m == "k" @b.latch = #y ]')
    out("D6|semi|", norm(p.collect()), norm(p.variables), p.is_valid, p.match_count)



def section_e():
    # ======================================================================
    out("=== E: CsvPaths")
    # ======================================================================
    def run_dirs(root):
        """run directories are named by time (with a .N suffix within the same
        second). they sort in creation order: name them RUN0, RUN1, ..."""
        if not os.path.isdir(root):
            return {}
        names = sorted(os.listdir(root), key=lambda n: (n.split(".")[0], len(n), n))
        names = [n for n in names if os.path.isdir(os.path.join(root, n))]
        return {n: f"<RUN{i}>" for i, n in enumerate(names)}

    def listing(root, named):
        rows = []
        mapping = run_dirs(os.path.join(root, named))
        for dp, dns, fns in os.walk(root):
            dns.sort()
            for fn in fns:
                full = os.path.join(dp, fn)
                parts = full.split(os.sep)
                parts = [mapping.get(_, _) for _ in parts]
                rows.append((os.sep.join(parts), full))
        return sorted(rows)

    buf = io.StringIO()
    with contextlib.redirect_stdout(buf):
        # every csvpath of a CsvPaths reads the policy from the config file
        with open("config/config.ini", "w", encoding="utf-8") as f:
            f.write(
                CONFIG.replace(
                    "csvpath = raise, collect, stop, fail, print",
                    "csvpath = collect, fail, print",
                ).replace("csvpaths = raise, collect", "csvpaths = collect, print")
            )
        cps = CsvPaths()
        cps.file_manager.add_named_file(name="d", path="data/d.csv")
        cps.paths_manager.add_named_paths(
            name="quals",
            paths=[
                '~ id: first ~ $[1*][ @a.onmatch.latch = #id #m == "k" @n = count() ]',
                '~ id: second ~ $[1*][ @a.onchange = #w @b.increase.nocontrib = int(#id) print.onmatch("w now $.variables.a") ]',
                '~ id: third ~ $[1*][ @a.onmatch.asbool = #y @t.k.onmatch = #id ]',
                '~ id: fourth ~ $[1*][ @a.onmatch.increase = #y @a.onmatch = int(#id) #m == "k" ]',
            ],
        )
        for method in ("collect_paths", "fast_forward_paths", "collect_by_line"):
            try:
                getattr(cps, method)(filename="d", pathsname="quals")
            except Exception as ex:  # pylint: disable=W0718
                print(f"EXC {method} {type(ex).__name__}: {ex}")
            for r in cps.results_manager.get_named_results("quals"):
                print(
                    "RESULT",
                    method,
                    r.csvpath.identity,
                    norm(r.csvpath.variables),
                    r.csvpath.is_valid,
                    r.csvpath.match_count,
                    len(r.lines) if r.lines is not None else None,
                    r.errors_count if hasattr(r, "errors_count") else None,
                    norm(list(r.printouts)) if hasattr(r, "printouts") and r.printouts else None,
                )
    out("E1|", buf.getvalue())
    rows = listing("archive", "quals")
    for shown, _ in rows:
        out("E2|", shown)
    for shown, full in rows:
        fn = os.path.basename(full)
        if fn in ("vars.json", "data.csv", "unmatched.csv", "printouts.txt", "errors.json"):
            with open(full, "r", encoding="utf-8") as f:
                txt = f.read()
            if fn == "errors.json":
                txt = norm(
                    [
                        (e.get("line_count"), e.get("match_count"), e.get("scan_count"), e.get("error"), e.get("source"))
                        for e in json.loads(txt)
                    ]
                )
            out("E3|", shown, "|", repr(txt))


for _name, _fn in (("A", section_a1), ("A", section_a2), ("B", section_b), ("C", section_c), ("D", section_d), ("E", section_e)):
    if _name in ONLY:
        _fn()
out("=== done")
