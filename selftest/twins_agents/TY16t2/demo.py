#!/usr/bin/env python
"""Differential demonstration for property C16 (print() emits its text verbatim
with references replaced by current values).

The script is self-contained: it creates a scratch working directory, writes an
offline config, the data files and the csvpaths it needs, exercises print() and
the print parser in many ways and writes a deterministic transcript to stdout.

    PYTHONPATH=<tree> /venv/bin/python demo.py > out.txt
"""
import contextlib
import io
import os
import re
import shutil
import sys
import tempfile

HERE = tempfile.mkdtemp(prefix="demo_TYC16_")
os.chdir(HERE)
os.makedirs("config", exist_ok=True)
with open("config/config.ini", "w", encoding="utf-8") as f:
    f.write(
        """[csvpath_files]
extensions = txt, csvpath, csvpaths

[csv_files]
extensions = txt, csv, tsv, dat, tab, psv, ssv

[errors]
csvpath = collect, fail, print
csvpaths = raise, collect

[logging]
csvpath = info
csvpaths = info
log_file = logs/csvpath.log
log_files_to_keep = 100
log_file_size = 52428800

[config]
path = config/config.ini

[cache]
path = cache

[listeners]
[marquez]
base_url = http://localhost:5000

[functions]
imports = config/functions.imports

[results]
archive = archive
transfers = transfers

[inputs]
files = inputs/named_files
csvpaths = inputs/named_paths
on_unmatched_file_fingerprints = halt
"""
    )
with open("config/functions.imports", "w", encoding="utf-8") as f:
    f.write("")

with open("f.csv", "w", encoding="utf-8") as f:
    f.write("a,b,c d\n1,2,3\n,0,x\n\n4,5\n6,7,8,9\n0,0,0\n1,2,3\n")
with open("g.csv", "w", encoding="utf-8") as f:
    f.write("id,name\n1,ann\n2,\n\n3,cy\n")
with open("empty.csv", "w", encoding="utf-8") as f:
    f.write("")
with open("h.csv", "w", encoding="utf-8") as f:
    f.write("only\n")

from csvpath import CsvPath, CsvPaths  # noqa: E402
from csvpath.util.printer import Printer, StdOutPrinter  # noqa: E402
from csvpath.matching.util.print_parser import PrintParser  # noqa: E402
from csvpath.matching.util.lark_print_parser import (  # noqa: E402
    LarkPrintParser,
    LarkPrintTransformer,
)

OUT = sys.stdout


ADDR = re.compile(r" at 0x[0-9a-fA-F]+")
RUN = re.compile(r"\d{4}-\d{2}-\d{2}_\d{2}-\d{2}-\d{2}(\.\d+)?")


# lark builds the "Expected one of" list of a parse error from a Python set of
# terminal names, so its order changes with the interpreter's hash seed from
# one process to the next (on unmodified HEAD too). we sort it.
EXPECTED_RAW = re.compile(r"Expected one of: \n((?:\t\* \w+\n)+)")
EXPECTED_REPR = re.compile(r"Expected one of: \\n((?:\\t\* \w+\\n)+)")


def scrub(text: str) -> str:
    """object addresses, run-directory timestamps and the order of lark's
    expected-terminals set are the only things that legitimately differ from
    one execution to the next; normalise them."""

    def raw(m):
        items = sorted(i for i in m.group(1).split("\n") if i)
        return "Expected one of: \n" + "".join(f"{i}\n" for i in items)

    def rep(m):
        items = sorted(i for i in m.group(1).split("\\n") if i)
        return "Expected one of: \\n" + "".join(f"{i}\\n" for i in items)

    text = EXPECTED_RAW.sub(raw, text)
    text = EXPECTED_REPR.sub(rep, text)
    text = ADDR.sub(" at 0xADDR", text)
    text = RUN.sub("<RUN>", text)
    return text


def say(*args):
    print(scrub(" ".join(f"{a}" for a in args)), file=OUT)


class Cap(Printer):
    """records every (target, string) pair it is handed"""

    def __init__(self):
        self.got = []

    @property
    def last_line(self):
        return self.got[-1][1] if self.got else None

    @property
    def lines_printed(self):
        return len(self.got)

    def print(self, string):
        self.got.append(("<print>", string))

    def print_to(self, name, string):
        self.got.append((name, string))


def short(x, n=160):
    s = f"{x}"
    s = scrub(s.replace(HERE, "<HERE>"))
    return s if len(s) <= n else s[:n] + "..."


def show_errors(p):
    for e in p.errors or []:
        say(
            "    error:",
            e.line_count,
            e.match_count,
            e.scan_count,
            type(e.error).__name__,
            repr(short(e.error)),
        )


def run(path, *, method="collect", policy=None, label=None):
    """runs a csvpath with two printers (stdout + capture) and dumps everything"""
    say("=" * 70)
    say("CSVPATH", repr(path), "method", method, "policy", policy)
    p = CsvPath()
    cap = Cap()
    p.set_printers([StdOutPrinter(), cap])
    if policy is not None:
        p.config.csvpath_errors_policy = policy
    buf = io.StringIO()
    lines = None
    exc = None
    with contextlib.redirect_stdout(buf):
        try:
            p.parse(path)
            if method == "next":
                lines = []
                for line in p.next():
                    lines.append(list(line))
            else:
                lines = getattr(p, method)()
        except Exception as e:  # pylint: disable=W0718
            exc = e
    if exc is not None:
        say("  EXCEPTION", type(exc).__name__, repr(short(exc)))
    say("  lines:", lines)
    say("  captured:")
    for name, s in cap.got:
        say("    ", repr(name), repr(short(s, 400)))
    say("  stdout:", repr(short(buf.getvalue().replace(HERE, "<HERE>"), 3000)))
    say("  variables:", p.variables)
    say("  is_valid:", p.is_valid, "stopped:", p.stopped)
    say("  match_count:", p.match_count, "scan_count:", p.scan_count)
    show_errors(p)
    return p


# ---------------------------------------------------------------------------
say("#### 1. plain text and every reference type, line by line")
TEXTS = [
    "",
    " ",
    "plain text",
    "  leading and trailing  ",
    "tabs\tand  double  spaces",
    "punct: , ; : ! ? ( ) [ ] { } - + = * / % & | ~ ` ^ @ #",
    "single 'quoted' words",
    "a.b.c .. ... dots. everywhere.",
    "ends with a dot.",
    "0",
    "a=$.headers.a",
    "$.headers.a",
    "$.headers.a is first",
    "b=$.headers.b, a=$.headers.a; c=$.headers.'c d'!",
    "[$.headers.0|$.headers.1|$.headers.2|$.headers.3|$.headers.9]",
    "$.headers.a $.headers.b",
    "$.headers.a,$.headers.b",
    "$.headers.a--$.headers.b--",
    "$.headers.a$.headers.b",
    "dot after ref: $.headers.a.. next sentence.",
    "dot at end: $.headers.b..",
    "two dots then text $.headers.b..txt",
    "missing header $.headers.nope and $.headers.nope.b!",
    "x=$.variables.x y=$.variables.y!",
    "x=$.variables.x.. y=$.variables.y..",
    "missing var $.variables.nope, end",
    "stack $.variables.s; len=$.variables.s.length; first=$.variables.s.0; third=$.variables.s.2; far=$.variables.s.77; bad=$.variables.s.zz;",
    "tracked $.variables.t; one=$.variables.t.tracking; none=$.variables.t.nope; len=$.variables.t.length; tally=$.variables.tl_b; $.variables.tl_b.0/$.variables.tl_b.7/",
    "scalar with tracking $.variables.x.length and $.variables.x.0 ok",
    "zero=$.variables.z empty=[$.variables.e] none=$.variables.n.",
    "quoted var $.variables.'my_var' and $.variables.'t'.'tracking' and $.variables.'s'.1 ok",
    "meta id=$.metadata.id desc=$.metadata.description; missing=$.metadata.nope!",
    "line $.csvpath.line_number of $.csvpath.total_lines; matches=$.csvpath.count_matches scans=$.csvpath.count_scans lines=$.csvpath.count_lines",
    "id=$.csvpath.identity delim=$.csvpath.delimiter quote=$.csvpath.quotechar valid=$.csvpath.valid stopped=$.csvpath.stopped",
    "scan=$.csvpath.scan_part hdrs=$.csvpath.headers",
    "modes $.csvpath.run-mode $.csvpath.print-mode missing=$.csvpath.nope!",
    "mix $.headers.a/$.variables.x/$.metadata.id/$.csvpath.line_number/end",
    "multi\nline $.headers.a\n  second $.headers.b\n",
]
SETUP = """@x = #a @y = #1 @z = 0 @e = "" @n = none()
    push("s", #b) @t.tracking = #a tally.tl(#b)
    @my_var = count_lines()"""
for t in TEXTS:
    esc = t
    run(
        f"""~ id: first  description: the first path ~
        $f.csv[*][ {SETUP} print("{esc}") ]""",
        policy=["collect", "print"],
    )

# ---------------------------------------------------------------------------
say("#### 2. qualifiers: once, onmatch, onchange and combinations")
QUALS = [
    'print.once("once $.headers.a / $.csvpath.line_number")',
    '#b == "0" print.onmatch("onmatch $.headers.a,$.headers.b at $.csvpath.line_number; n=$.csvpath.count_matches")',
    '#b == "0" print.onmatch.once("onmatch+once at $.csvpath.line_number")',
    '#b == "0" print.once.onmatch("once+onmatch at $.csvpath.line_number")',
    '#b == "nothing" print.onmatch("never")',
    'print.onchange("onchange $.headers.a")',
    'print.onchange.once("onchange+once $.headers.a")',
    '@c = count() print("no quals $.variables.c")',
    'print.once("first once $.headers.a") print.once("second once $.headers.b")',
    'print("same") print("same")',
    'no() print.onmatch("never") print("always $.csvpath.line_number")',
    'skip(#a == "1") print("after skip $.headers.a")',
    '~ comment ~ print.once("once after blank-skipping $.csvpath.line_number")',
    'last.nocontrib() -> print("last: $.csvpath.line_number total $.csvpath.total_lines")',
    'firstline.nocontrib() -> print.once("header line: $.csvpath.headers")',
    '#b == "0" -> print("when/do $.headers.a:$.headers.b")',
    'or(#a == "6", #a == "4") print.onmatch("or $.headers.a")',
]
for q in QUALS:
    for scan in ["*", "1-4", "3", "0"]:
        run(f"$f.csv[{scan}][ {q} ]", policy=["collect", "print"])
for m in ["fast_forward", "next"]:
    run(f"$f.csv[*][ {QUALS[0]} {QUALS[1]} ]", method=m, policy=["collect", "print"])

# ---------------------------------------------------------------------------
say("#### 3. second argument: named printer or a function to run after")
SECOND = [
    'print("to err $.headers.a", "error")',
    'print("to named $.headers.a", "my-stream")',
    'print("to empty name $.headers.a", "")',
    'print.once("once to named $.headers.a", "s1") print("each to s2", "s2")',
    'print("then stop $.headers.a", stop())',
    'print("then skip $.headers.a", skip()) print("not reached")',
    'print("then fail $.headers.a", fail())',
    '#a == "4" print.onmatch("stop on match $.headers.a", stop())',
    'print("then push $.headers.a", push("after", #a))',
    'print("then equality $.headers.a", #a == "4") print("second $.headers.b")',
    'print.once("once then counter $.headers.a", counter.k(2)) print("k=$.variables.k")',
    'print("nested $.headers.a", print("inner $.headers.b", print("innermost")))',
]
for s in SECOND:
    run(f"$f.csv[*][ {s} ]", policy=["collect", "print"])

# ---------------------------------------------------------------------------
say("#### 4. error cases under several error policies")
BAD = [
    'print("cost $5")',
    'print("trailing dollar $")',
    'print("dot after ref $.headers.a. and more")',
    'print("ref ends in single dot $.headers.a.")',
    'print("unknown type $.nothing.a ok")',
    'print("no name $.variables")',
    'print("other results $nobody.variables.x end")',
    'print()',
    'print(5)',
    'print(#a)',
    'print("a", "b", "c")',
]
for b in BAD:
    for policy in [["collect", "print"], ["raise"], ["collect", "stop", "fail"], ["quiet"]]:
        run(f"$f.csv[1-3][ {b} ]", policy=policy)

# ---------------------------------------------------------------------------
say("#### 5. other files: empty, header-only, blanks; repeated runs")
for fn in ["g.csv", "h.csv", "empty.csv", "missing.csv"]:
    for _ in range(2):
        run(
            f"""~ name: other ~ ${fn}[*][
                print("$.csvpath.line_number: [$.headers.0] [$.headers.name] [$.headers.1]")
                print.once("file has $.csvpath.total_lines lines; id=$.metadata.name..") ]""",
            policy=["collect", "print"],
        )

# ---------------------------------------------------------------------------
say("#### 6. PrintParser used directly, one instance reused many times")
p = CsvPath()
p.set_printers([Cap()])
p.parse(
    """~ id: direct ~ $f.csv[*][ @x = #a @z = 0 @e = "" push("s", #b) @t.tracking = #a ]"""
)
p.fast_forward()
parser = PrintParser(p)
STRS = [
    "",
    " ",
    "text only",
    "x=$.variables.x!",
    "x=$.variables.x!",
    "s=$.variables.s.length/$.variables.s.0/$.variables.s.99/$.variables.s.q/",
    "t=$.variables.t.tracking;$.variables.t.nope;",
    "cost $5",
    "after the error: $.headers.a,$.headers.1,$.headers.'c d',$.headers.7,$.headers.nope;",
    "dot $.variables.z.. and $.variables.e..",
    "dot $.variables.z. and",
    "m=$.metadata.id c=$.csvpath.identity n=$.csvpath.count_lines,",
    "trailing space ",
    "trailing newline\n",
    "$.variables.x",
    "$.variables.x$.variables.z",
    "$.variables.x $.variables.z",
    "$me.variables.x is a reference to other results",
]
for rnd in range(2):
    for s in STRS:
        try:
            r = parser.transform(s)
            say("  round", rnd, repr(s), "->", type(r).__name__, repr(r))
        except Exception as e:  # pylint: disable=W0718
            say("  round", rnd, repr(s), "-> EXC", type(e).__name__, repr(short(e)))
    say("  parser.parser type:", type(parser.parser).__name__)
    say("  parser.parser.tree is None:", parser.parser.tree is None)
say("  fresh parsers give the same:")
for s in STRS:
    try:
        r = PrintParser(p).transform(s)
        say("   ", repr(s), "->", repr(r))
    except Exception as e:  # pylint: disable=W0718
        say("   ", repr(s), "-> EXC", type(e).__name__)
say("  no csvpath, text only:")
bare = PrintParser()
for s in ["just text", "  ", "more, text.. here", "x $.variables.x y"]:
    try:
        say("   ", repr(s), "->", repr(bare.transform(s)))
    except Exception as e:  # pylint: disable=W0718
        say("   ", repr(s), "-> EXC", type(e).__name__, repr(short(e)))
say("  a parser whose csvpath changes between calls:")
q = CsvPath()
q.set_printers([Cap()])
q.parse("""~ id: second ~ $g.csv[*][ @x = #name ]""")
q.fast_forward()
swapper = PrintParser(p)
say("   ", repr(swapper.transform("x=$.variables.x id=$.metadata.id h=$.headers.0;")))
swapper.csvpath = q
say("   ", repr(swapper.transform("x=$.variables.x id=$.metadata.id h=$.headers.0;")))
swapper.csvpath = p
say("   ", repr(swapper.transform("x=$.variables.x id=$.metadata.id h=$.headers.0;")))

# ---------------------------------------------------------------------------
say("#### 7. LarkPrintParser and LarkPrintTransformer used directly")
lp = LarkPrintParser()
for s in STRS + ["$.headers.a..$.headers.b..", "a $.variables.'q r'.'s t' b"]:
    try:
        tree = lp.parse(s)
        items = LarkPrintTransformer().transform(tree)
        say("  ", repr(s))
        say("     tree:", tree)
        say("     items:", [i for i in items])
        say("     to_string:", repr(LarkPrintTransformer().to_string(*items)))
    except Exception as e:  # pylint: disable=W0718
        say("  ", repr(s), "-> EXC", type(e).__name__, repr(short(e)))

# ---------------------------------------------------------------------------
say("#### 8. CsvPaths: references to other named results, printouts, archive")


def norm(s):
    s = s.replace(HERE, "<HERE>")
    s = RUN.sub("<RUN>", s)
    return s


for rnd in range(2):
    cp = CsvPaths()
    cp.file_manager.add_named_file(name="f", path="f.csv")
    cp.file_manager.add_named_file(name="g", path="g.csv")
    cp.paths_manager.add_named_paths(
        name="src",
        paths=[
            """~ id: one  note: from one ~ $[*][ @x = #a @total = count() push("s", #b) @t.tracking = #a tally.tl(#b)
                 print("src one line $.csvpath.line_number: $.headers.a|$.headers.b|$.variables.total..") ]""",
            """~ id: two ~ $[1-2][ @y = #b print.once("src two once $.headers.b", "side") ]""",
        ],
    )
    cp.paths_manager.add_named_paths(
        name="use",
        paths=[
            """~ id: user ~ $[1-2][
                print.once("other vars x=$src.variables.x y=$src.variables.y total=$src.variables.total; s=$src.variables.s.length/$src.variables.s.1; t=$src.variables.t.tracking;")
                print("line $.csvpath.line_number: local $.headers.name, other header idx $src.headers.one.a;")
                print.once("other meta $src.metadata.note.. runtime $src.csvpath.total_lines, $src.csvpath.count_matches, $src.csvpath.delimiter;")
                print.once("unknown results $nope.variables.x end", "side")
            ]"""
        ],
    )
    buf = io.StringIO()
    with contextlib.redirect_stdout(buf):
        for fname, pname in [("f", "src"), ("g", "use")]:
            try:
                cp.collect_paths(filename=fname, pathsname=pname)
            except Exception as e:  # pylint: disable=W0718
                say("  EXCEPTION in", pname, type(e).__name__, repr(short(e)))
    say("  round", rnd, "stdout:", repr(norm(buf.getvalue())))
    for name in ["src", "use"]:
        for r in cp.results_manager.get_named_results(name):
            say("  result", name, r.csvpath.identity)
            say("     lines:", r.lines.to_list() if hasattr(r.lines, "to_list") else r.lines)
            pos = r.get_printouts()
            for k in pos:
                say("     printout", repr(k), [norm(_) for _ in pos[k]])
            say("     lines_printed:", r.lines_printed, "last_line:", repr(norm(f"{r.last_line}")))
            say("     variables:", r.csvpath.variables)
            say("     valid:", r.csvpath.is_valid, "errors:", len(r.errors or []))
            for e in r.errors or []:
                say("       error:", e.line_count, type(e.error).__name__, repr(short(e.error)))

say("  archive listing:")
for root, dirs, files in os.walk("archive"):
    dirs.sort()
    for fn in sorted(files):
        full = os.path.join(root, fn)
        say("   ", norm(full))
        if fn in ("printouts.txt", "data.csv"):
            with open(full, "r", encoding="utf-8") as fh:
                for line in fh.read().split("\n"):
                    say("      |", norm(line))

os.chdir("/")
shutil.rmtree(HERE, ignore_errors=True)
say("done")
