"""Differential demo for refactoring t2 (Header.to_value, Matcher.header_index, CsvPath.header_index).

Run in an empty scratch directory (it creates ./config, ./data, ./cache, ./archive, ...):

    mkdir -p /tmp/demo_TWC06_2 && cd /tmp/demo_TWC06_2 && \
        PYTHONPATH=<tree> /venv/bin/python /tmp/wt/TWC06.out/t2/demo.py > out.txt

The transcript printed on stdout is deterministic: nothing in it depends on the
clock, on directory iteration order, or on absolute paths.
"""
import csv
import hashlib
import io
import os
import random
import re
import shutil
import sys
import contextlib

CONFIG = """[csvpath_files]
extensions = txt, csvpath, csvpaths

[csv_files]
extensions = txt, csv, tsv, dat, tab, psv, ssv

[errors]
csvpath = raise, collect, stop, fail, print
csvpaths = raise, collect

[logging]
csvpath = info
csvpaths = info
log_file = logs/csvpath.log
log_files_to_keep = 100
log_file_size = 52428800

[config]
path = config/config.ini

[cache]
path = cache

[listeners]
[marquez]
base_url = http://localhost:5000

[functions]
imports = config/functions.imports

[results]
archive = archive
transfers = transfers

[inputs]
files = inputs/named_files
csvpaths = inputs/named_paths
on_unmatched_file_fingerprints = halt
"""

HERE = os.getcwd()


def fresh_dirs():
    for d in ("config", "data", "cache", "archive", "inputs", "logs", "transfers"):
        shutil.rmtree(os.path.join(HERE, d), ignore_errors=True)
    os.makedirs("config")
    os.makedirs("data")
    with open("config/config.ini", "w", encoding="utf-8") as f:
        f.write(CONFIG)
    with open("config/functions.imports", "w", encoding="utf-8") as f:
        f.write("")


fresh_dirs()

from csvpath import CsvPath, CsvPaths  # noqa: E402
from csvpath.util.line_counter import LineCounter  # noqa: E402
from csvpath.util.line_monitor import LineMonitor  # noqa: E402

OUT = sys.stdout


def say(*a):
    print(*a, file=OUT)


def norm(s: str) -> str:
    """normalise run-dir timestamps, absolute paths, uuids and times"""
    s = s.replace(HERE, "<HERE>")
    s = re.sub(r"\b[0-9a-f]{64}\b", "<SHA256>", s)
    s = re.sub(r"\d{4}-\d{2}-\d{2}_\d{2}-\d{2}-\d{2}([_.]\d+)?", "<RUNDIR>", s)
    s = re.sub(r"\d{4}-\d{2}-\d{2}[T ]\d{2}:\d{2}:\d{2}(\.\d+)?(\+00:00|Z)?", "<TS>", s)
    return s


# ---------------------------------------------------------------------------
# deterministic CSV generation, following the quantifier of the property
# ---------------------------------------------------------------------------
ALPHABET = [
    "a", "b", "Z", "0", "1", "7", " ", " ", "  ", ",", ";", "|", "\t", "`", '"', "'",
    "\n", "é", "ß", "日本", " ", " ", "#", "$", "[", "]", "\\", "-", ".",
    "None", "nan", "x y", "\U0001F600", "́", "0.0", "00",
]
DELIMS = [",", ";", "|", "\t"]
QUOTES = ['"', "'"]


def gen_cell(rnd):
    k = rnd.choice([0, 0, 1, 1, 2, 3, 5])
    return "".join(rnd.choice(ALPHABET) for _ in range(k))


def gen_records(rnd):
    n = rnd.randint(0, 12)
    recs = []
    for _ in range(n):
        if rnd.random() < 0.25:
            recs.append([])  # blank record
        else:
            recs.append([gen_cell(rnd) for _ in range(rnd.randint(0, 6))])
    return recs


def write_csv(path, recs, delim, quote):
    with open(path, "w", encoding="utf-8", newline="") as f:
        w = csv.writer(f, delimiter=delim, quotechar=quote)
        for r in recs:
            w.writerow(r)


def attempt(label, fn):
    """runs fn, printing either its result or the exception it raised"""
    buf = io.StringIO()
    try:
        with contextlib.redirect_stdout(buf):
            r = fn()
        say(f"{label} -> {r!r}")
    except Exception as e:  # pylint: disable=W0718
        say(f"{label} !! {type(e).__name__}: {norm(str(e))}")
    printed = buf.getvalue()
    if printed:
        say(f"{label} printed: {norm(printed)!r}")



from csvpath.matching.productions.header import Header  # noqa: E402
from csvpath.matching.matcher import Matcher  # noqa: E402


# ---------------------------------------------------------------------------
say("=== A. Header.to_value / matches, driven directly with a stub matcher")
# ---------------------------------------------------------------------------
class StubLogger:
    def __init__(self, log):
        self.log = log

    def debug(self, msg, *a):
        self.log.append(("debug", msg, a))

    def info(self, msg, *a):
        self.log.append(("info", msg, a))

    def warning(self, msg, *a):
        self.log.append(("warning", msg, a))

    def error(self, msg, *a):
        self.log.append(("error", msg, a))


class StubCsvPath:
    def __init__(self, headers, log):
        self.headers = headers
        self.logger = StubLogger(log)
        self.log = log

    def header_index(self, name):
        self.log.append(("csvpath.header_index", name))
        if not self.headers:
            return None
        for i, n in enumerate(self.headers):
            if n == name:
                return i
        return None


class StubMatcher:
    """records the header_index and logger calls and the reads of .line, in order"""

    def __init__(self, headers, line, real_index=True):
        self.log = []
        self.csvpath = StubCsvPath(headers, self.log)
        self._line = line
        self.real_index = real_index

    @property
    def line(self):
        # Matcher.line is a pure property, so how many times it is read in a
        # row is not observable in the real system. what we record is where,
        # relative to the other calls, the line is read.
        if not self.log or self.log[-1] != "line":
            self.log.append("line")
        return self._line

    def header_index(self, name):
        self.log.append(("matcher.header_index", name))
        if self.real_index:
            return Matcher.header_index(self, name)
        return self.real_index_value

    def _what(self, actor, action):
        self.log.append(("what", action))

        class W:
            def result(s, r):  # noqa: N805
                self.log.append(("result", r))
                return s

            def because(s, b):  # noqa: N805
                self.log.append(("because", b))
                return s

        return W()


HEADERS = ["a", "b", "c", "1", "dup", "dup", "x y", ""]
LINES = [
    None,
    [],
    ["v0"],
    ["v0", " v1 ", "v2"],
    ["", " ", "None", "nan", "false", "true", "0", "1", "last"],
    [0, 1.5, None, True, False, "s", " t "],
    ("t0", "t1", "t2", "t3", "t4", "t5", "t6", "t7"),
    "str",
]
NAMES = ["a", "b", "c", "dup", "x y", "1", "0", "2", "7", "8", "99", "007", "-1", "1.0", "1,000", "nope", "٣", "²", "a.asbool", "c.asbool", "0.asbool", "4.asbool", "nope.asbool", " a ", '"x y"']


def header_probe(name, headers, line, set_name=None):
    m = StubMatcher(headers, line)
    h = Header(m, name=name)
    if set_name is not None:
        h.name = set_name[0]
    out = {}
    for step in ("to_value", "to_value again", "matches"):
        try:
            if step == "matches":
                out[step] = h.matches(skip=[])
            else:
                out[step] = h.to_value(skip=[])
        except Exception as e:  # pylint: disable=W0718
            out[step] = f"!! {type(e).__name__}: {e}"
    out["value attr"] = h.value
    out["match attr"] = h.match
    out["log"] = list(m.log)
    h.reset()
    out["after reset"] = (h.value, h.match)
    return out


for line in LINES:
    for name in NAMES:
        attempt(f"A name={name!r} line={line!r}", lambda: header_probe(name, HEADERS, line))
for headers in (None, [], ["a"]):
    for name in ("a", "0", "b"):
        for line in (None, [], ["v"]):
            attempt(f"A headers={headers!r} name={name!r} line={line!r}", lambda: header_probe(name, headers, line))
# names that are not strings (only possible by assignment after construction)
for nm in (0, 2, -1, 50, True, None, 1.0):
    for line in (["p", "q", "r"], [], None):
        attempt(f"A assigned name={nm!r} line={line!r}", lambda: header_probe("a", HEADERS, line, set_name=(nm,)))


def skip_probe():
    m = StubMatcher(HEADERS, ["v0", "v1"])
    h = Header(m, name="a")
    r1 = h.to_value(skip=[h])
    r2 = h.matches(skip=[h])
    r3 = h.to_value(skip=[])
    return (r1, r2, r3, h.value, h.match, m.log)


attempt("A skip", skip_probe)


def forced_index_probe(n, line):
    m = StubMatcher(HEADERS, line, real_index=False)
    m.real_index_value = n
    h = Header(m, name="a")
    try:
        v = h.to_value()
    except Exception as e:  # pylint: disable=W0718
        v = f"!! {type(e).__name__}: {e}"
    return (v, h.value, m.log)


for n in (None, 0, 1, 2, 3, -1, -3, -4, True, False, 1.0, "1"):
    for line in (["p", " q ", "r"], [], None, ("t",)):
        attempt(f"A forced index n={n!r} line={line!r}", lambda: forced_index_probe(n, line))


# ---------------------------------------------------------------------------
say("=== B. Matcher.header_index / CsvPath.header_index / header_name, direct")
# ---------------------------------------------------------------------------
class CountingHeaders(list):
    pass


def real_matcher(headers):
    p = CsvPath()
    p.parse("$data/ragged_cd.csv[*][yes()]")
    if headers != "file":
        p.headers = headers
    m = Matcher(csvpath=p, data="[yes()]", line=["l0", "l1", "l2"], headers=None)
    return p, m


PROBE_NAMES = ["a", "b", "c", "dup", "", " a", "A", "0", "1", "2", "-1", " 3 ", "1.0", "1.5", "1,000", "$5", "1;2", "x y", "nope", 0, 2, -7, True, False, None, 1.5, "٣", "true", "None"]
for headers in ("file", ["a", "b", "c"], ["a", "dup", "dup", "x y", "", "1", "-1"], [], None, ("a", "b"), ["日本", "é"]):
    write_csv("data/ragged_cd.csv", [["a", "b", "c"], ["1"], ["1", "2", "3", "4", "5"], [], ["1", "2"]], ",", '"')

    def idx():
        p, m = real_matcher(headers)
        out = []
        for nm in PROBE_NAMES + ["日本", "é"]:
            for label, fn in (("m", m.header_index), ("p", p.header_index)):
                try:
                    out.append((label, nm, fn(nm)))
                except Exception as e:  # pylint: disable=W0718
                    out.append((label, nm, f"!! {type(e).__name__}: {e}"))
        for i in (-2, -1, 0, 1, 2, 3, 6, 7, 100):
            try:
                out.append(("name", i, m.header_name(i)))
            except Exception as e:  # pylint: disable=W0718
                out.append(("name", i, f"!! {type(e).__name__}: {e}"))
        return out

    attempt(f"B headers={headers!r}", idx)


def lazy_headers():
    """header_index on a CsvPath that has not loaded its headers yet"""
    p = CsvPath()
    p.parse("$data/ragged_cd.csv[*][yes()]")
    before = p._headers
    r = (p.header_index("b"), p.header_index("zz"), p.header_index(1))
    return (before, r, p._headers, p.line_monitor.dump())


attempt("B lazy headers", lazy_headers)


def no_file_headers():
    p = CsvPath()
    return (p.header_index("b"), p._headers)


attempt("B no scanner", no_file_headers)


def missing_file_headers():
    p = CsvPath()
    p.parse("$data/nope.csv[*][yes()]")
    return p.header_index("b")


attempt("B missing file", missing_file_headers)


# ---------------------------------------------------------------------------
say("=== C. csvpaths that address headers by name and by index")
# ---------------------------------------------------------------------------
def standalone(path, d, q, skip, match, scan="*"):
    p = CsvPath(delimiter=d, quotechar=q, skip_blank_lines=skip)
    p.parse(f"${path}[{scan}][{match}]")
    lines = []
    raised = None
    buf = io.StringIO()
    try:
        with contextlib.redirect_stdout(buf):
            for line in p.next():
                lines.append(line)
    except Exception as e:  # pylint: disable=W0718
        # first line only: lark lists the expected terminals in set order,
        # which changes with the hash seed of the process
        raised = f"{type(e).__name__}: {norm(str(e)).splitlines()[0] if str(e) else ''}"
    return {
        "lines": lines,
        "raised": raised,
        "printed": norm(buf.getvalue()),
        "headers": p.headers,
        "vars": p.variables,
        "valid": p.is_valid,
        "errors": [norm(str(e.message if hasattr(e, "message") else e)) for e in (p.errors or [])],
        "counts": (p.scan_count, p.match_count),
        "stopped": p.stopped,
    }


FIXED = {
    "ragged": [["a", "b", "c"], ["1"], ["1", "2", "3", "4", "5"], [], ["1", "2"], [" x ", "", " "], ["", "", ""]],
    "blank_first": [[], [], ["a", "b", "c"], ["1", "2", "3"], [], ["4"]],
    "junk_hdr": [[" a;a ", "b,b", "c|c", "d\td", "e`e", " f "], ["1", "2", "3", "4", "5", "6"], ["7"]],
    "spaced_hdr": [["first name", "Last Year Number", "c"], ["ann", "12", "x"], ["bob"], ["cy", ""]],
    "numeric_hdr": [["2", "0", "1"], ["x", "y", "z"], ["p"]],
    "dup_hdr": [["a", "a", "b"], ["1", "2", "3"], ["4", "5"]],
    "bool_cells": [["a", "b", "c"], ["true", "false", ""], ["0", "1", "None"], ["nan", " ", "yes"], ["x"]],
    "unicode": [["日本", "é", "c"], ["ß", " ", "x́"], ["\U0001F600"]],
    "quoted": [["a", "b", "c"], ['say "hi"', "it's", "a,b;c|d\te"], ["line\nbreak", "", " "]],
    "hdr_only": [["a", "b", "c"]],
    "empty": [],
}
MATCHES = [
    "push(\"pa\", #a) push(\"pc\", #c) push(\"p1\", #1) push(\"p9\", #9) push(\"pn\", #nope)",
    "push(\"ba\", #a.asbool) push(\"bc\", #c.asbool) push(\"b2\", #2.asbool)",
    "@a = #a @b = #b @c = #c",
    "@i0 = #0 @i1 = #1 @i2 = #2 @i9 = #9",
    "#a",
    "#c",
    "#2",
    "#nope",
    "not(#b)",
    "#b == #1",
    "#a == #0 #c == #2",
    "@ab = #a.asbool @cb = #c.asbool @zb = #2.asbool",
    "#a.asbool",
    "#c.asbool",
    '@ly = #"Last Year Number" @fn = #"first name"',
    "@idx_a = header_index(\"a\") @idx_c = header_index(\"c\") @idx_n = header_index(\"nope\") @n0 = header_name(0) @n2 = header_name(2) @n9 = header_name(9)",
    "@e = empty(#b) @x = exists(#c) @cnt = count_headers() @cil = count_headers_in_line()",
    "@t.onmatch = concat(#a, \"-\", #c) exists(#c)",
    "#c -> @had_c = line_number()",
    "print(\"$.csvpath.line_number: a=$.headers.a c=$.headers.c two=$.headers.2 nine=$.headers.9 nope=$.headers.nope\")",
    "line_number()==1 -> reset_headers() @v = #a @w = #1 @n = header_name(0)",
    "collect(\"c\", \"a\")",
    "collect(2, 0)",
    "collect(\"b\")",
    "collect(\"nope\")",
    "replace(#b, \"R\")",
    "replace(1, upper(#b))",
    "append(\"z\", #a)",
    "missing(headers())",
    "all(headers())",
    "any(headers(), \"1\")",
    "header_names_mismatch(\"a|b|c\")",
    "#0 == \"2\" #1 == \"0\"",
    "@two = #2 @zero = #0 @one = #1",
    "@aa = #aa @ff = #f @dd = #dd",
    "@u = #日本",
    "line(string.notnone(#a), string(#b), string(#c))",
    "@last = end() @lastm1 = end(-1)",
]
FILES = []
for name, recs in FIXED.items():
    for d, q in ((",", '"'), (";", "'"), ("|", '"'), ("\t", "'")):
        dn = {",": "c", ";": "s", "|": "p", "\t": "t"}[d]
        qn = {'"': "d", "'": "s"}[q]
        path = f"data/{name}_{dn}{qn}.csv"
        write_csv(path, recs, d, q)
        FILES.append((f"{name}_{dn}{qn}", path, d, q, recs))

for name, path, d, q, recs in FILES:
    say(f"C {name} delim={d!r} quote={q!r} records={recs!r}")
    for mi, match in enumerate(MATCHES):
        # every match on the comma files; a rotating subset on the other dialects
        if d != "," and (mi + len(name)) % 4 != 0:
            continue
        attempt(f"C {name} [{match}]", lambda: standalone(path, d, q, True, match))
    attempt(f"C {name} noskip [@a = #a @i1 = #1 @c = #c]", lambda: standalone(path, d, q, False, "@a = #a @i1 = #1 @c = #c"))
    attempt(f"C {name} scan 1-2 [#c]", lambda: standalone(path, d, q, True, "#c", scan="1-2"))

# random files: by-name and by-index access must agree
rnd = random.Random(6062)
for i in range(40):
    recs = gen_records(rnd)
    d = rnd.choice(DELIMS)
    q = rnd.choice(QUOTES)
    path = f"data/rnd{i:02d}.csv"
    write_csv(path, recs, d, q)
    say(f"C rnd{i:02d} delim={d!r} quote={q!r} records={recs!r}")
    attempt(f"C rnd{i:02d} idx", lambda: standalone(path, d, q, True, "push(\"i0\", #0) push(\"i1\", #1) push(\"i3\", #3) push(\"i5\", #5) push(\"b4\", #4.asbool) @n0 = header_name(0)"))
    first = next((r for r in recs if len(r) > 0), None)
    if first is not None:
        from csvpath.util.line_counter import LineCounter

        cleaned = LineCounter.clean_headers(first)
        for k, h in enumerate(cleaned):
            if re.fullmatch(r"[A-Za-z][A-Za-z0-9_]*", h) and cleaned.index(h) == k:
                attempt(f"C rnd{i:02d} #{h} vs #{k}", lambda: standalone(path, d, q, True, f"push(\"byname\", #{h}) push(\"byindex\", #{k}) @idx = header_index(\"{h}\") #{h} == #{k}"))
        for k, h in enumerate(cleaned):
            if re.fullmatch(r"[A-Za-z0-9_. -]+", h) and " " in h and cleaned.index(h) == k:
                attempt(f"C rnd{i:02d} #\"{h}\" vs #{k}", lambda: standalone(path, d, q, True, f"push(\"byname\", #\"{h}\") push(\"byindex\", #{k})"))


# ---------------------------------------------------------------------------
say("=== D. CsvPaths: header access in a named-paths group, with archive")
# ---------------------------------------------------------------------------
def tree(root):
    out = []
    for dp, dns, fns in os.walk(root):
        dns.sort()
        for fn in sorted(fns):
            out.append(os.path.join(dp, fn))
    return out


for name in ("ragged_cd", "spaced_hdr_ss", "numeric_hdr_pd", "blank_first_ts"):
    _, path, d, q, recs = next(f for f in FILES if f[0] == name)
    shutil.rmtree("cache", ignore_errors=True)
    shutil.rmtree("archive", ignore_errors=True)
    shutil.rmtree("inputs", ignore_errors=True)

    def run():
        cp = CsvPaths(delimiter=d, quotechar=q)
        cp.file_manager.add_named_file(name="f", path=path)
        cp.paths_manager.add_named_paths(
            name="p",
            paths=[
                "~id:byname~ $[*][@a = #a @c = #c #c]",
                "~id:byindex~ $[*][@z = #0 @t = #2 #2]",
                "~id:narrow~ $[*][collect(0)]",
                "~id:missing validation-mode:no-raise~ $[*][#nope]",
            ],
        )
        res = []
        buf = io.StringIO()
        for rep in range(2):
            try:
                with contextlib.redirect_stdout(buf):
                    cp.collect_paths(filename="f", pathsname="p")
            except Exception as e:  # pylint: disable=W0718
                res.append((rep, "raised", f"{type(e).__name__}: {norm(str(e))}"))
            for r in cp.results_manager.get_named_results("p"):
                res.append(
                    (
                        rep,
                        r.csvpath.identity,
                        list(r.lines.next()) if r.lines is not None else None,
                        r.csvpath.headers,
                        r.csvpath.variables,
                        r.csvpath.is_valid,
                        len(r.errors or []),
                    )
                )
        res.append(("printed", norm(buf.getvalue())))
        return res

    attempt(f"D {name}", run)
    rundirs = sorted(os.listdir("archive/p")) if os.path.isdir("archive/p") else []
    for path2 in tree("archive"):
        path2show = path2
        for k, rd in enumerate(rundirs):
            if path2.startswith(f"archive/p/{rd}/"):
                path2show = path2.replace(f"archive/p/{rd}/", f"archive/p/<RUN{k}>/")
                break
        if path2.endswith(("data.csv", "unmatched.csv", "vars.json", "printouts.txt")):
            with open(path2, "rb") as f:
                say(f"D {name} archive {norm(path2show)}: {norm(f.read().decode('utf-8'))!r}")
        else:
            say(f"D {name} archive {norm(path2show)}")

say("=== done")
