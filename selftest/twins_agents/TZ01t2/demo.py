#!/usr/bin/env python
"""Differential demonstration for t2 (duplicated error blocks merged into helpers).

Run in an empty scratch directory:

    mkdir /tmp/demo_TZC01_2 && cd /tmp/demo_TZC01_2
    PYTHONPATH=/tmp/wt/TZC01 /venv/bin/python /tmp/wt/TZC01.out/t2/demo.py > out.txt

The transcript is deterministic: it must be byte-identical for unmodified
HEAD and for HEAD + patch.diff.
"""
import json
import os
import re
import shutil
import sys

CONFIG = """[csvpath_files]
extensions = txt, csvpath, csvpaths

[csv_files]
extensions = txt, csv, tsv, dat, tab, psv, ssv

[errors]
csvpath = raise, collect, stop, fail, print
csvpaths = raise, collect

[logging]
csvpath = info
csvpaths = info
log_file = logs/csvpath.log
log_files_to_keep = 100
log_file_size = 52428800

[config]
path = config/config.ini

[cache]
path = cache

[listeners]
[marquez]
base_url = http://localhost:5000

[functions]
imports = config/functions.imports

[results]
archive = archive
transfers = transfers

[inputs]
files = inputs/named_files
csvpaths = inputs/named_paths
on_unmatched_file_fingerprints = halt
"""

for d in ("config", "logs", "cache", "archive", "inputs"):
    shutil.rmtree(d, ignore_errors=True)
os.makedirs("config")
with open("config/config.ini", "w", encoding="utf-8") as f:
    f.write(CONFIG)
with open("config/functions.imports", "w", encoding="utf-8") as f:
    f.write("")

from csvpath import CsvPath  # noqa: E402
from csvpath.util.printer import Printer  # noqa: E402
from csvpath import CsvPaths  # noqa: E402

CWD = os.getcwd()


def norm(s) -> str:
    s = f"{s}"
    s = s.replace(CWD, "<CWD>")
    s = re.sub(r"0x[0-9a-fA-F]+", "0x?", s)
    # lark lists the tokens it expected in set order, which varies per process
    s = re.sub(
        r"^\t\* \w+(?:\n\t\* \w+)*$",
        lambda mo: "\n".join(sorted(mo.group(0).split("\n"))),
        s,
        flags=re.M,
    )
    return s


def trace_shape(trace) -> str:
    """function names of the frames only: file paths and line numbers move
    with every edit of a source file."""
    if not trace:
        return "-"
    return ">".join(re.findall(r", in (\S+)", trace))


class CapPrinter(Printer):
    def __init__(self):
        self.lines = []

    @property
    def last_line(self):
        return self.lines[-1] if self.lines else None

    @property
    def lines_printed(self) -> int:
        return len(self.lines)

    def print(self, string: str) -> None:
        self.print_to(None, string)

    def print_to(self, name: str, string: str) -> None:
        self.lines.append(f"[{name}] {string}")


def write(name: str, text: str) -> None:
    with open(name, "w", encoding="utf-8", newline="") as f:
        f.write(text)


def fresh(policy=None, **kw):
    p = CsvPath(print_default=False, **kw)
    pr = CapPrinter()
    p.add_printer(pr)
    if policy is not None:
        p.config.csvpath_errors_policy = policy
    return p, pr


def report(p, pr) -> None:
    print("   variables:", norm(json.dumps(p.variables, sort_keys=True, default=str)))
    print(
        "   is_valid:",
        p.is_valid,
        "stopped:",
        p.stopped,
        "aborted:",
        p.aborted,
        "scan_count:",
        p.scan_count,
        "match_count:",
        p.match_count,
    )
    print("   headers:", p.headers)
    es = p.errors or []
    print("   errors:", len(es))
    for e in es:
        print(
            "     -",
            type(e.error).__name__,
            "|",
            norm(e.error),
            "| line",
            e.line_count,
            "scan",
            e.scan_count,
            "match",
            e.match_count,
            "| source",
            norm(e.source),
            "| trace",
            trace_shape(e.trace),
            "| json",
            norm(" ".join(f"{e.json}".split())),
        )
    print("   printouts:", len(pr.lines))
    for ln in pr.lines:
        print("     >", norm(ln))
    if p.unmatched is not None:
        print("   unmatched:", p.unmatched)


def run(label, csvpath, *, policy=None, method="collect", **kw) -> None:
    print(f"== {label}: {csvpath}  policy={policy} method={method}")
    p, pr = fresh(policy, **kw)
    try:
        p.parse(csvpath)
        if method == "collect":
            lines = p.collect()
            print("   lines:", lines)
        elif method == "next":
            lines = []
            for ln in p.next():
                lines.append(list(ln))
            print("   lines:", lines)
        else:
            p.fast_forward()
            print("   fast_forward done")
    except Exception as ex:  # pylint: disable=W0718
        print("   RAISED:", type(ex).__name__, "|", norm(ex))
    report(p, pr)


# ---------------------------------------------------------------- files
write(
    "e.csv",
    "a,b,c\n"
    "1,0,x\n"
    "4,2,t\n"
    "\n"
    "6,3,\n"
    "8\n"
    ",,\n"
    "9,0,true\n"
    "ten,5,false\n",
)
# last line blank: last() runs outside of the normal matching
write("lastblank.csv", "a,b,c\n1,0,x\n4,2,t\n\n")
write("one.csv", "a,b,c\n")
write("empty.csv", "")

POLICIES = [
    None,
    ["collect", "print"],
    ["collect"],
    ["quiet", "collect"],
    ["collect", "stop"],
    ["collect", "fail", "print"],
    ["raise"],
    ["print"],
]

PATHS = [
    # Function.matches: error inside the function or its args
    "$e.csv[*][gt(divide(#a, #b), 1)]",
    "$e.csv[1*][gt(divide(#a, #b), 1)]",
    "$e.csv[1*][divide(#a, #b) == 2]",
    "$e.csv[1*][@q = divide(#a, #b)]",
    "$e.csv[1*][@q = divide(#a, #b) gt(@q, 1)]",
    "$e.csv[1*][add(#a, #b) == 6]",
    "$e.csv[1*][gt(add(#a, #c), 1)]",
    "$e.csv[1*][gt(#a, #c)]",
    "$e.csv[1*][lt(#a, 5) gt(#b, 1)]",
    "$e.csv[1*][int(#c) == 3]",
    "$e.csv[1*][gt(int(#c), 3)]",
    "$e.csv[1*][mod(#a, #b) == 0]",
    "$e.csv[1*][gt(mod(#a, #b), 0)]",
    "$e.csv[1*][not(gt(divide(#a, #b), 1))]",
    "$e.csv[1*][or(gt(divide(#a, #b), 1), #c == \"t\")]",
    "$e.csv[1*][and(gt(#a, 1), gt(divide(#a, #b), 1))]",
    "$e.csv[1*][substring(#c, \"x\")]",
    "$e.csv[1*][length(#c) == 1]",
    "$e.csv[1*][gt(length(#c), divide(#a, #b))]",
    "$e.csv[1*][concat(#a, #b) == \"42\"]",
    "$e.csv[1*][upper(#c) == \"T\" lower(#a) == \"ten\"]",
    "$e.csv[1*][count() == 2]",
    "$e.csv[1*][gt(count(), 2)]",
    "$e.csv[1*][@n = count() gt(divide(#a, #b), 1)]",
    "$e.csv[1*][gt(divide(#a, #b), 1) @n = count()]",
    "$e.csv[1*][gt(#a, 1) @x.onmatch = divide(#a, #b)]",
    "$e.csv[1*][@x.onmatch = divide(#a, #b) gt(#a, 1)]",
    "$e.csv[1*][gt(divide(#a, #b), 1) -> @hit = #a]",
    "$e.csv[1*][#c -> gt(divide(#a, #b), 1)]",
    "$e.csv[1*][gt(divide(#a, #b), 1).nocontrib #c]",
    "$e.csv[1*][print(\"a=$.headers.a\") gt(divide(#a, #b), 1)]",
    "$e.csv[1*][gt(divide(#a, #b), 1) print(\"after\")]",
    "$e.csv[1*][stop(gt(divide(#a, #b), 1))]",
    "$e.csv[1*][skip(gt(divide(#a, #b), 1)) #a]",
    "$e.csv[1*][fail(gt(divide(#a, #b), 1))]",
    "$e.csv[1*][nosuchfunction(#a)]",
    "$e.csv[1*][gt(#a)]",
    "$e.csv[1*][gt()]",
    "$e.csv[1*][gt(#a, 1, 2, 3)]",
    "$e.csv[1*][yes() no()]",
    "$e.csv[1*][no()]",
    "$e.csv[*][last() -> @x = divide(1, 0)]",
    "$lastblank.csv[*][last() -> @x = divide(1, 0)]",
    "$lastblank.csv[*][last() -> gt(divide(1, 0), 1) #a]",
    "$lastblank.csv[*][#a last() -> print(\"end: $.csvpath.count_lines\")]",
    "$lastblank.csv[*][last() -> gt(divide(1, 0), 1) last() -> print(\"second\")]",
    "$one.csv[*][gt(divide(#a, #b), 1)]",
    "$empty.csv[*][gt(divide(#a, #b), 1)]",
    # Matcher.get_header_value: the header is unknown / the line is too short
    "$e.csv[1*][none(\"c\")]",
    "$e.csv[1*][none(\"nosuch\")]",
    "$e.csv[1*][none(\"7\")]",
    "$e.csv[1*][none(\"1\")]",
    "$e.csv[1*][boolean(\"c\")]",
    "$e.csv[1*][boolean(\"nosuch\")]",
    "$e.csv[1*][boolean.notnone(\"c\")]",
    "$e.csv[1*][string(\"c\")]",
    "$e.csv[1*][string(\"c\", 3)]",
    "$e.csv[1*][string(\"nosuch\")]",
    "$e.csv[1*][string.notnone(\"c\")]",
    "$e.csv[1*][integer(\"a\")]",
    "$e.csv[1*][integer(\"b\", 2)]",
    "$e.csv[1*][integer(\"nosuch\")]",
    "$e.csv[1*][decimal(\"a\")]",
    "$e.csv[1*][decimal(\"9\")]",
    "$e.csv[1*][line(integer(\"a\"), integer(\"b\"), string(\"c\"))]",
    "$e.csv[1*][line(integer(\"a\"), integer(\"b\"), none(\"c\"))]",
    "$e.csv[1*][line(string(\"a\"), string(\"nosuch\"))]",
    "$e.csv[1*][line(blank(\"a\"), integer(\"b\"), boolean(\"c\"))]",
    # validation-mode and logic-mode settings
    "~ validation-mode: no-raise, no-stop, print ~ $e.csv[1*][gt(divide(#a, #b), 1)]",
    "~ validation-mode: no-raise, no-stop, no-print, match ~ $e.csv[1*][gt(#a, #c)]",
    "~ validation-mode: no-raise, no-stop, print, no-match ~ $e.csv[1*][gt(#a, #c)]",
    "~ validation-mode: no-raise, stop ~ $e.csv[1*][gt(#a, #c)]",
    "~ validation-mode: no-raise, no-stop, fail ~ $e.csv[1*][gt(#a, #c)]",
    "~ validation-mode: raise ~ $e.csv[1*][gt(#a, #c)]",
    "~ validation-mode: no-raise, no-stop, match ~ $e.csv[1*][integer(\"nosuch\")]",
    "~ validation-mode: no-raise, no-stop, no-match ~ $e.csv[1*][none(\"7\")]",
    "~ logic-mode: OR ~ $e.csv[1*][gt(divide(#a, #b), 1) #c == \"x\"]",
    "~ logic-mode: OR ~ $e.csv[1*][#c == \"x\" gt(divide(#a, #b), 1)]",
    "~ logic-mode: OR validation-mode: no-raise, no-stop ~ $e.csv[1*][gt(#a, #c) #b == 0]",
    "~ logic-mode: OR ~ $e.csv[1*][integer(\"nosuch\") #a]",
    "~ return-mode: no-matches ~ $e.csv[1*][gt(divide(#a, #b), 1)]",
    "~ return-mode: no-matches unmatched-mode: keep ~ $e.csv[1*][gt(#a, #c)]",
]

for i, cp in enumerate(PATHS):
    for pol in POLICIES:
        run(f"E{i}", cp, policy=pol)

for i, cp in enumerate(PATHS[0:20]):
    run(f"N{i}", cp, method="next", policy=["collect", "print"])
    run(f"F{i}", cp, method="ff", policy=["collect", "stop"])

run("B0", "$e.csv[1*][gt(divide(#a, #b), 1)]", skip_blank_lines=False, policy=["collect"])
run("B1", "$e.csv[1*][none(\"c\")]", skip_blank_lines=False, policy=["collect"])

# ------------------------------------------------- the helper seams directly
print("== S: sibling_values()/matches() of a function whose child raises")
p, pr = fresh(["collect"])
p.parse("$e.csv[1*][gt(divide(#a, #b), add(#a, #c))]")
print("   lines:", p.collect())
report(p, pr)
# the run is over and the csvpath is frozen: thaw it so the functions do work
p.is_frozen = False
p.stopped = False
m = p.matcher
ex = m.expressions[0][0]
gt = ex.children[0]
for line in (["1", "0", "x"], ["4", "2", "t"], [], ["8"], ["9", "0", "1"]):
    m.line = line
    m.reset()
    print("   line", line)
    print("     sibling_values:", gt.sibling_values(skip=[]))
    print(
        "     pending:",
        [
            (type(e).__name__, norm(e), norm(e.source), trace_shape(e.trace))
            for e in ex.errors
        ],
    )
    m.reset()
    print("     matches:", gt.matches(skip=[]), "value:", gt.to_value(skip=[]))
    print(
        "     pending:",
        [
            (type(e).__name__, norm(e), norm(e.source), trace_shape(e.trace))
            for e in ex.errors
        ],
    )
    m.reset()

print("== S2: get_header_value() directly")
p, pr = fresh(["collect"])
p.parse("$e.csv[1*][none(\"c\")]")
p.collect()
m = p.matcher
fn = m.expressions[0][0].children[0]
for line in (["1", "0", "x"], ["1", " pad "], ["None", "nan", ""], []):
    m.line = line
    m.reset()
    for noi in ("a", "c", "2", 2, "nosuch", "9", 9, "", None, "1.0", -1):
        for quiet in (False, True):
            try:
                v = m.get_header_value(fn, noi, quiet=quiet)
                out = repr(v)
            except Exception as x:  # pylint: disable=W0718
                out = f"{type(x).__name__}: {norm(x)}"
            pend = [(type(e).__name__, norm(e)) for e in m.expressions[0][0].errors]
            print(f"   line={line} name={noi!r} quiet={quiet} -> {out} pending={pend}")
            m.expressions[0][0].errors = []
for pol in (["raise"], ["collect", "raise"]):
    p, pr = fresh(pol)
    p.parse("$e.csv[1*][none(\"c\")]")
    try:
        p.collect()
    except Exception as x:  # pylint: disable=W0718
        print("   RAISED:", type(x).__name__, norm(x))
    m = p.matcher
    fn = m.expressions[0][0].children[0]
    m.line = ["1"]
    for noi in ("c", "nosuch"):
        try:
            print("   ", pol, noi, "->", m.get_header_value(fn, noi))
        except Exception as x:  # pylint: disable=W0718
            print("   ", pol, noi, "-> RAISED", type(x).__name__, norm(x), "| cause:", norm(x.__cause__))

# ------------------------------------------------------------- named runs
RUN = re.compile(r"\d{4}-\d\d-\d\d_\d\d-\d\d-\d\d(_\d+)?")
DROP = {
    "time",
    "uuid",
    "named_paths_uuid",
    "at",
    "run_time",
    "run_started_at",
    "named_file_last_change",
    "lines_time",
    "last_line_time",
    "time_completed",
}


def scrub(o, key=None):
    if isinstance(o, dict):
        out = {}
        for k, v in o.items():
            if k in DROP:
                out[k] = "<scrubbed>"
            elif k == "trace":
                out[k] = trace_shape(v)
            elif k == "file_fingerprints":
                # errors.json, meta.json and manifest.json hold times and traces
                out[k] = {
                    f: (h if f in ("data.csv", "vars.json", "unmatched.csv") else "<scrubbed>")
                    for f, h in sorted(v.items())
                }
            else:
                out[k] = scrub(v, k)
        return out
    if isinstance(o, list):
        return [scrub(_) for _ in o]
    if isinstance(o, str):
        return RUN.sub("<RUN>", norm(o))
    return o


def dump_tree(root: str) -> None:
    for dirpath, dirnames, filenames in sorted(os.walk(root)):
        dirnames.sort()
        for fn in sorted(filenames):
            path = os.path.join(dirpath, fn)
            print("   --", RUN.sub("<RUN>", path))
            with open(path, "r", encoding="utf-8") as f:
                text = f.read()
            if fn.endswith(".json"):
                try:
                    text = json.dumps(scrub(json.loads(text)), indent=1, sort_keys=True)
                except Exception as x:  # pylint: disable=W0718
                    text = f"(unparsable: {type(x).__name__}) {text}"
            else:
                text = RUN.sub("<RUN>", norm(text))
            for ln in text.splitlines():
                print("      |", ln)


def result_lines(r):
    ls = r.lines
    if ls is None:
        return None
    if hasattr(ls, "next"):
        return [list(_) for _ in ls.next()]
    return [list(_) for _ in ls]


def group(label: str, policy: str, paths: list, method: str = "collect_paths") -> None:
    print(f"== G {label}: [errors] csvpath = {policy}; {method}")
    for d in ("archive", "inputs", "cache"):
        shutil.rmtree(d, ignore_errors=True)
    with open("config/config.ini", "w", encoding="utf-8") as f:
        f.write(CONFIG.replace("csvpath = raise, collect, stop, fail, print", f"csvpath = {policy}"))
    cps = CsvPaths()
    cps.file_manager.add_named_file(name="f", path="e.csv")
    cps.paths_manager.add_named_paths(name=label, paths=paths)
    try:
        if method == "collect_paths":
            cps.collect_paths(filename="f", pathsname=label)
        elif method == "fast_forward_paths":
            cps.fast_forward_paths(filename="f", pathsname=label)
        elif method == "next_paths":
            for ln in cps.next_paths(filename="f", pathsname=label):
                print("   next:", ln)
        elif method == "collect_by_line":
            print("   lines:", cps.collect_by_line(filename="f", pathsname=label))
        elif method == "next_by_line":
            for ln in cps.next_by_line(filename="f", pathsname=label):
                print("   next:", ln)
    except Exception as x:  # pylint: disable=W0718
        print("   RAISED:", type(x).__name__, "|", norm(x))
    try:
        for r in cps.results_manager.get_named_results(label):
            print(
                "   result:",
                r.csvpath.identity,
                "lines:",
                result_lines(r),
                "valid:",
                r.is_valid,
                "errors:",
                len(r.errors) if r.errors else 0,
                "printouts:",
                r.get_printouts() if hasattr(r, "get_printouts") else None,
                "vars:",
                norm(json.dumps(r.csvpath.variables, sort_keys=True, default=str)),
            )
    except Exception as x:  # pylint: disable=W0718
        print("   results RAISED:", type(x).__name__, "|", norm(x))
    dump_tree("archive")
    with open("config/config.ini", "w", encoding="utf-8") as f:
        f.write(CONFIG)


GROUP = [
    "~ id: ok ~ $[*][#a == \"4\"]",
    "~ id: div ~ $[1*][gt(divide(#a, #b), 1) @n = count()]",
    "~ id: types ~ $[1*][line(integer(\"a\"), integer(\"b\"), none(\"c\"))]",
    "~ id: nosuch validation-mode: no-raise, no-stop, print ~ $[1*][string(\"nosuch\")]",
    "~ id: after ~ $[1*][#b == 0]",
]
group("g1", "collect, print", GROUP)
group("g2", "raise, collect, stop, fail, print", GROUP)
group("g3", "collect, stop, fail", GROUP, "fast_forward_paths")
group("g4", "collect, print", GROUP, "next_paths")
group("g5", "collect, print", GROUP, "collect_by_line")
group("g6", "quiet, collect", GROUP, "next_by_line")

print("done")
