"""
differential demo for refactoring t2 (the yacc productions of the scan
grammar and their private helpers in csvpath/scanning/scanner.py).

run in an empty temp dir:   PYTHONPATH=<worktree> python demo.py > out.txt
the transcript is deterministic: no timestamps, no paths outside cwd.
"""
import contextlib
import io
import itertools
import logging
import os
import sys

CONFIG = """[csvpath_files]
extensions = txt, csvpath, csvpaths

[csv_files]
extensions = txt, csv, tsv, dat, tab, psv, ssv

[errors]
csvpath = raise, collect, stop, fail, print
csvpaths = raise, collect

[logging]
csvpath = info
csvpaths = info
log_file = logs/csvpath.log
log_files_to_keep = 100
log_file_size = 52428800

[config]
path = config/config.ini

[cache]
path = cache

[listeners]
[marquez]
base_url = http://localhost:5000

[functions]
imports = config/functions.imports

[results]
archive = archive
transfers = transfers

[inputs]
files = inputs/named_files
csvpaths = inputs/named_paths
on_unmatched_file_fingerprints = halt
"""

os.makedirs("config", exist_ok=True)
with open("config/config.ini", "w", encoding="utf-8") as f:
    f.write(CONFIG)
if not os.path.exists("config/functions.imports"):
    with open("config/functions.imports", "w", encoding="utf-8") as f:
        f.write("")

from csvpath import CsvPath  # noqa: E402
from csvpath.scanning.scanner import Scanner  # noqa: E402

OUT = sys.stdout


def say(*a):
    print(*a, file=OUT)


# ----------------------------------------------------------------------
# part A: Scanner-only parse of a systematic family of scan expressions
# ----------------------------------------------------------------------
def state(sc):
    return (
        f"file={sc.filename} from={sc.from_line} to={sc.to_line} "
        f"all={sc.all_lines} these={sc.these}"
    )


def parse_only(scan, prefix="$x.csv"):
    buf = io.StringIO()
    sc = Scanner()
    try:
        with contextlib.redirect_stdout(buf):
            r = sc.parse(f"{prefix}[{scan}]")
        same = r is sc.parser
        say(f"[{scan}] {state(sc)} ret_is_parser={same} out={buf.getvalue()!r}")
    except Exception as e:  # pylint: disable=W0718
        say(
            f"[{scan}] EXC {type(e).__name__}: {str(e)!r} {state(sc)} "
            f"out={buf.getvalue()!r}"
        )


def part_a():
    say("=== part A: parse only")
    nums = ["0", "2", "3", "7"]
    terms = nums + [n + "*" for n in nums] + ["*"]
    ops = ["+", "-"]
    for t in terms:
        parse_only(t)
    for a, o, b in itertools.product(terms, ops, terms):
        parse_only(a + o + b)
    for a, o1, b, o2, c in itertools.product(terms, ops, terms, ops, terms):
        parse_only(a + o1 + b + o2 + c)
    for a, o1, b, o2, c, o3, d in itertools.product(
        nums, ops, nums, ops, nums, ops, nums
    ):
        parse_only(a + o1 + b + o2 + c + o3 + d)
    say("--- longer and odd ones")
    for scan in [
        "0+1+2+3+4+5+6+7+8+9+10",
        "1-3+5-7+9-11",
        "1-3+5-7+9-11+13",
        "10-8+3-1",
        "1-2-3-4-5",
        "5-4-3-2-1",
        "1+1+1",
        "1-1",
        "1-1+1-1",
        "0-0",
        "3+1-2",
        "1+5-2",
        "0012-0014",
        " 1 - 3 ",
        "1 -3",
        "1+ 3",
        "1 *",
        "",
        " ",
        "a",
        "1-",
        "-1",
        "+1",
        "1+",
        "1--2",
        "1++2",
        "1 2",
        "1.5",
        "1,2",
        "**",
        "*1",
        "1*2",
        "1*+2",
        "2+1*",
        "2-1*",
        "*+*",
        "*-*",
        "1-2+*",
        "1-2-*",
        "1-2-3*",
        "1-2+3*",
        "99999999999999999999",
    ]:
        parse_only(scan)
    say("--- other file names")
    for prefix in ["$", "$a/b c.csv", "$named:3", "x.csv", "$x.csv[1]", "$  padded.csv  "]:
        parse_only("1-2+4", prefix=prefix)
    say("--- the same Scanner parsing twice keeps its state")
    for first, second in [("1-3", "5"), ("5", "1-3"), ("1+2", "4-6"), ("*", "2"), ("2", "*"), ("1-3", "3-5")]:
        sc = Scanner()
        sc.parse(f"$x.csv[{first}]")
        s1 = state(sc)
        try:
            sc.parse(f"$y.csv[{second}]")
            say(f"[{first}] then [{second}] : {s1} => {state(sc)}")
        except Exception as e:  # pylint: disable=W0718
            say(f"[{first}] then [{second}] : {s1} => EXC {type(e).__name__} {state(sc)}")


# ----------------------------------------------------------------------
# part B: the production helpers called directly with hand made productions
# ----------------------------------------------------------------------
def part_b():
    say("=== part B: helpers called directly")
    settings = [
        dict(from_line=None, to_line=None, these=[]),
        dict(from_line=1, to_line=None, these=[]),
        dict(from_line=None, to_line=4, these=[]),
        dict(from_line=1, to_line=3, these=[]),
        dict(from_line=3, to_line=1, these=[]),
        dict(from_line=1, to_line=3, these=[2, 8]),
        dict(from_line=None, to_line=None, these=[5]),
        dict(from_line=None, to_line=None, these=[5, 6]),
        dict(from_line=5, to_line=None, these=[5]),
        dict(from_line=0, to_line=0, these=[0]),
    ]
    lefts = [[1], [5], [5, 6], [2, 8, 9], [], 7, None, "x", (1,), [0]]
    rights = [[4], [9], [0], [], 6, None, [3, 4], "y"]
    for helper in ("_collect_a_line_range", "_add_two_lines"):
        for st, left, right in itertools.product(settings, lefts, rights):
            sc = Scanner()
            sc.from_line = st["from_line"]
            sc.to_line = st["to_line"]
            sc.these = list(st["these"])
            lcopy = list(left) if isinstance(left, list) else left
            rcopy = list(right) if isinstance(right, list) else right
            # the left operand is often self.these itself in a real parse
            for alias in (False, True):
                if alias:
                    if not isinstance(left, list) or left != st["these"]:
                        continue
                    sc.these = lcopy
                op = "-" if helper == "_collect_a_line_range" else "+"
                p = [None, lcopy, op, rcopy]
                try:
                    r = getattr(sc, helper)(p)
                    res = f"ret={r!r}"
                except Exception as e:  # pylint: disable=W0718
                    res = f"EXC {type(e).__name__}: {str(e)!r}"
                say(
                    f"{helper} st={st} left={left!r} right={right!r} alias={alias} -> "
                    f"{res} from={sc.from_line} to={sc.to_line} these={sc.these} p={p!r} "
                    f"these_is_left={sc.these is lcopy}"
                )
    for st, one in itertools.product(settings, lefts):
        sc = Scanner()
        sc.from_line = st["from_line"]
        sc.to_line = st["to_line"]
        sc.these = list(st["these"])
        ocopy = list(one) if isinstance(one, list) else one
        p = [None, ocopy]
        try:
            r = sc._collect_a_line_number(p)  # pylint: disable=W0212
            res = f"ret={r!r}"
        except Exception as e:  # pylint: disable=W0718
            res = f"EXC {type(e).__name__}: {str(e)!r}"
        say(
            f"_collect_a_line_number st={st} one={one!r} -> {res} from={sc.from_line} "
            f"to={sc.to_line} these={sc.these} p={p!r}"
        )
    for st in settings:
        for args in [None, (2, 4), (4, 2), (0, 0), (3, 9), (None, 3), (3, None), (1.0, 2)]:
            sc = Scanner()
            sc.from_line = st["from_line"]
            sc.to_line = st["to_line"]
            sc.these = list(st["these"])
            before = sc.these
            try:
                if args is None:
                    r = sc._move_range_to_these()  # pylint: disable=W0212
                else:
                    r = sc._add_range_to_these(*args)  # pylint: disable=W0212
                res = f"ret={r!r}"
            except Exception as e:  # pylint: disable=W0718
                res = f"EXC {type(e).__name__}: {str(e)!r}"
            say(
                f"range-helper st={st} args={args} -> {res} from={sc.from_line} "
                f"to={sc.to_line} these={sc.these} same_list={sc.these is before}"
            )


# ----------------------------------------------------------------------
# part C: end to end through CsvPath
# ----------------------------------------------------------------------
def write_file(name, mask, trailing_newline=True):
    recs = []
    for i, blank in enumerate(mask):
        if blank:
            recs.append("")
        elif i % 4 == 1:
            recs.append(f"r{i}")
        elif i % 4 == 2:
            recs.append(f"r{i},,x,")
        else:
            recs.append(f"r{i},v{i}")
    txt = "\n".join(recs)
    if trailing_newline and recs:
        txt += "\n"
    with open(name, "w", encoding="utf-8") as f:
        f.write(txt)


def run(fname, scan, match='yes() push("seen", line_number())'):
    buf = io.StringIO()
    try:
        with contextlib.redirect_stdout(buf):
            p = CsvPath()
            p.parse(f"${fname}[{scan}][{match}]")
            nums = p.collect_line_numbers()
            nums2 = list(p.line_numbers())
            lines = p.collect()
        lm = p.line_monitor
        say(
            f"[{scan}] lines={[l[0] if l else l for l in lines]} scan={p.scan_count} "
            f"match={p.match_count} vars={dict(p.variables)} stopped={p.stopped} "
            f"completed={p.completed} valid={p.is_valid} pln={lm.physical_line_number} "
            f"from={p.from_line} to={p.to_line} all={p.all_lines} these={p.these} "
            f"nums={nums} same={nums == nums2} errs={len(p.errors or [])} "
            f"out={buf.getvalue()!r}"
        )
    except Exception as e:  # pylint: disable=W0718
        say(f"[{scan}] EXC {type(e).__name__}: {str(e)[:120]!r} out={buf.getvalue()[:300]!r}")


def part_c():
    say("=== part C: end to end")
    masks = [
        (0,) * 9,
        (0, 1, 0, 1, 0, 1, 0, 1),
        (1, 1, 0, 0, 0, 1, 0, 0, 1, 1),
        (0, 0, 0, 1, 1, 1, 0, 0, 0, 0),
        (),
        (1,),
        (0,),
        (1, 1, 1),
    ]
    nums = ["0", "1", "3", "4", "8", "12"]
    ops = ["+", "-"]
    scans = ["*", "0*", "3*", "9*", "12*"] + nums
    scans += [a + o + b for a, o, b in itertools.product(nums, ops, nums)]
    scans += [
        a + o1 + b + o2 + c
        for a, o1, b, o2, c in itertools.product(["0", "2", "5"], ops, ["1", "3", "6"], ops, ["4", "7", "11"])
    ]
    scans += ["0-1+3-4+6-7", "1+2-3+5+7-9", "0+2+4+6+8", "1-3*", "a", "", "2+1*", "1-2-3"]
    for mask in masks:
        for trailing in (True, False):
            if not mask and not trailing:
                continue
            write_file("c.csv", mask, trailing_newline=trailing)
            say(f"--- file mask={''.join(map(str, mask))} trailing_newline={trailing}")
            for scan in scans:
                run("c.csv", scan)


if __name__ == "__main__":
    part_a()
    part_b()
    part_c()
    say("=== done")
