#!/usr/bin/env python
"""Differential demo for refactoring t3 (Last._decide_match in
csvpath/matching/functions/lines/last.py, LineMonitor.is_last_line_and_blank
in csvpath/util/line_monitor.py and Scanner.is_last in
csvpath/scanning/scanner.py).

Prints a deterministic transcript of everything observable about runs that
use stop(), skip(), advance() and last() in all positions among 1-5
side-effecting match components, over files with/without trailing and
interior blank lines, with several scan windows, in AND and OR logic modes,
with onmatch qualifiers, explain mode, error cases and repeated runs.

It also probes LineMonitor.is_last_line_and_blank() and Scanner.is_last()
directly over a grid of inputs (None, empty, 0, non-list lines, reversed
ranges, explicit overrides) and exercises last() in many shapes.

Run from an empty temp dir:
    cd /tmp/demo_TWC13_3 && PYTHONPATH=<csvpath tree> /venv/bin/python demo.py
"""
import io
import json
import os
import sys
import contextlib
import traceback

from csvpath import CsvPath
from csvpath.util.printer import Printer

OUT = sys.stdout


def say(*a):
    print(*a, file=OUT)


class CapturePrinter(Printer):
    def __init__(self):
        self.lines = []

    @property
    def last_line(self):
        return self.lines[-1] if self.lines else None

    @property
    def lines_printed(self):
        return len(self.lines)

    def print(self, string):
        self.print_to(None, string)

    def print_to(self, name, string):
        self.lines.append((name, string))


FILES = {
    # plain file, no trailing blank
    "plain.csv": "a,b,c\n1,2,3\n4,5,6\n7,8,9\n10,11,12\n13,14,15\n16,17,18\n",
    # no newline at end
    "nonl.csv": "a,b,c\n1,2,3\n4,5,6\n7,8,9",
    # one trailing blank line
    "trail1.csv": "a,b,c\n1,2,3\n4,5,6\n7,8,9\n10,11,12\n\n",
    # two trailing blank lines
    "trail2.csv": "a,b,c\n1,2,3\n4,5,6\n7,8,9\n\n\n",
    # interior blanks
    "inner.csv": "a,b,c\n1,2,3\n\n4,5,6\n\n\n7,8,9\n10,11,12\n",
    # interior and trailing blanks
    "both.csv": "a,b,c\n\n1,2,3\n\n4,5,6\n7,8,9\n\n",
    # ragged rows and empty values, zeros
    "ragged.csv": "a,b,c\n1\n4,5\n7,8,9,99\n,,\n0,0,0\n ,x, \n10,,12\n",
    # final line is whitespace only (not blank: has one value)
    "wsend.csv": "a,b,c\n1,2,3\n4,5,6\n   \n",
    # header only
    "header.csv": "a,b,c\n",
    # single data line then blank
    "tiny.csv": "a,b,c\n\n",
    # only a blank line
    "blank.csv": "\n",
}


def write_files():
    for name, content in FILES.items():
        with open(name, "w", encoding="utf-8") as f:
            f.write(content)


def jd(o):
    return json.dumps(o, sort_keys=True, default=str)


def describe_errors(path):
    out = []
    try:
        errs = path.errors
    except Exception as e:  # pragma: no cover
        return [f"<errors raised {type(e).__name__}>"]
    for e in errs or []:
        out.append(
            (
                getattr(e, "line_count", None),
                getattr(e, "match_count", None),
                getattr(e, "scan_count", None),
                type(getattr(e, "error", None)).__name__,
                str(getattr(e, "message", None)),
            )
        )
    return out


def run_one(
    title,
    csvpath,
    *,
    method="collect",
    policy=("collect",),
    setup=None,
    nexts=-1,
    reuse=None,
    skip_blank_lines=True,
):
    say("=" * 78)
    say("CASE", title)
    say("PATH", " ".join(csvpath.split()))
    say("METHOD", method, "POLICY", list(policy), "SBL", skip_blank_lines)
    cap = CapturePrinter()
    buf = io.StringIO()
    path = reuse
    lines = None
    exc = None
    try:
        with contextlib.redirect_stdout(buf), contextlib.redirect_stderr(buf):
            if path is None:
                path = CsvPath(skip_blank_lines=skip_blank_lines)
                path.config.csvpath_errors_policy = list(policy)
                path.add_printer(cap)
                path.parse(csvpath)
                if setup:
                    setup(path)
            else:
                path.add_printer(cap)
            if method == "collect":
                lines = path.collect() if nexts == -1 else path.collect(nexts=nexts)
            elif method == "fast_forward":
                path.fast_forward()
            elif method == "next":
                lines = []
                for ln in path.next():
                    lines.append(
                        (
                            path.line_monitor.physical_line_number,
                            path.scan_count,
                            path.match_count,
                            path.advance_count,
                            path.stopped,
                            list(ln),
                        )
                    )
            elif method == "line_numbers":
                lines = path.collect_line_numbers()
    except Exception as e:  # noqa
        exc = e
    # first line only: lark lists expected tokens in hash (random) order
    say(
        "EXCEPTION",
        None
        if exc is None
        else f"{type(exc).__name__}: {(str(exc).splitlines() or [''])[0]}",
    )
    say("LINES", jd(lines))
    if path is not None:
        say("VARS", jd(path.variables))
        state = {}
        for k, fn in (
            ("is_valid", lambda: path.is_valid),
            ("stopped", lambda: path.stopped),
            ("scan_count", lambda: path.scan_count),
            ("match_count", lambda: path.match_count),
            ("advance_count", lambda: path.advance_count),
            ("is_frozen", lambda: path.is_frozen),
            ("completed", lambda: path.completed),
            ("has_errors", lambda: path.has_errors()),
            ("pln", lambda: path.line_monitor.physical_line_number),
            ("pend", lambda: path.line_monitor.physical_end_line_number),
            ("dln", lambda: path.line_monitor.data_line_number),
            ("matcher_skip", lambda: path.matcher.skip if path.matcher else None),
            ("unmatched", lambda: path.unmatched),
        ):
            try:
                state[k] = fn()
            except Exception as e:  # noqa
                state[k] = f"<{type(e).__name__}>"
        say("STATE", jd(state))
        say("ERRORS", jd(describe_errors(path)))
        if path.matcher:
            say(
                "EXPR_VOTES",
                jd([e[1] for e in path.matcher.expressions]),
                "EXPLAIN_LEN",
                len(path.matcher.explaination),
            )
    say("PRINTED", jd(cap.lines))
    say("STDOUT", jd(buf.getvalue().splitlines()))
    return path


# ---------------------------------------------------------------------------
# side-effecting components; {i} is the component's index
# ---------------------------------------------------------------------------
SIDE = [
    'push("s{i}", line_number())',
    'print("p{i} at $.csvpath.line_number")',
    "@v{i} = count_lines()",
    'push("t{i}", #0)',
    "@w{i} = add(@w{i}, 1)",
]


def controls(n):
    """conditional control components firing at physical line n"""
    return {
        "stop_arg": f"stop(line_number()=={n})",
        "stop_when": f"line_number()=={n} -> stop()",
        "skip_arg": f"skip(line_number()=={n})",
        "skip_when": f"line_number()=={n} -> skip()",
        "adv_when": f"line_number()=={n} -> advance(2)",
        "last_when": 'last() -> push("lasts", line_number())',
        "last_nc": 'last.nocontrib() -> push("lasts", line_number())',
        "last_arg": 'last.nocontrib(push("lasts", line_number()))',
    }


def build(scan, fname, comps):
    return f"${fname}[{scan}][ " + "\n ".join(comps) + " ]"


def positions_suite():
    # every position of each control among k side-effect components
    for k in (1, 2, 3, 5):
        side = [SIDE[i].format(i=i) for i in range(k)]
        for cname, ctrl in controls(3).items():
            for pos in range(k + 1):
                comps = side[:pos] + [ctrl] + side[pos:]
                for fname in ("plain.csv", "trail1.csv", "inner.csv"):
                    if k in (3, 5) and fname == "plain.csv" and pos not in (0, k):
                        continue
                    run_one(
                        f"pos k={k} ctrl={cname} pos={pos} file={fname}",
                        build("*", fname, comps),
                    )


def firing_lines_suite():
    side = [SIDE[i].format(i=i) for i in range(2)]
    for fname in ("trail1.csv", "both.csv"):
        for n in range(0, 8):
            for cname in ("stop_arg", "stop_when", "skip_arg", "skip_when", "adv_when"):
                ctrl = controls(n)[cname]
                # control in the middle and as the final component
                run_one(
                    f"fire n={n} ctrl={cname} mid file={fname}",
                    build("*", fname, [side[0], ctrl, side[1]]),
                )
                run_one(
                    f"fire n={n} ctrl={cname} final file={fname}",
                    build("*", fname, [side[0], side[1], ctrl]),
                    method="next",
                )


def windows_suite():
    side = [SIDE[i].format(i=i) for i in range(2)]
    scans = ["*", "1*", "2-4", "4-2", "1+3+5", "0", "3", "5*", "0-1", "2+6", "9", "1-9"]
    for fname in FILES:
        for scan in scans:
            for cname in ("last_when", "last_nc", "last_arg"):
                ctrl = controls(0)[cname]
                run_one(
                    f"window scan={scan} ctrl={cname} file={fname}",
                    build(scan, fname, [side[0], ctrl, side[1]]),
                )
            run_one(
                f"window scan={scan} stop+last file={fname}",
                build(
                    scan,
                    fname,
                    [
                        side[0],
                        'last.nocontrib() -> print("last at $.csvpath.line_number")',
                        "line_number()==3 -> stop()",
                    ],
                ),
            )
            run_one(
                f"window scan={scan} adv+last file={fname}",
                build(
                    scan,
                    fname,
                    [
                        "line_number()==1 -> advance(2)",
                        'last.nocontrib() -> print("last at $.csvpath.line_number")',
                        side[0],
                    ],
                ),
                method="fast_forward",
            )


def logic_suite():
    # OR logic mode, onmatch, explain mode, no blank skipping
    for fname in ("plain.csv", "trail1.csv", "both.csv", "ragged.csv"):
        for mode in ("AND", "OR"):
            for body in (
                ['#a == "4"', 'push("s", line_number())', "skip(line_number()==2)"],
                ["skip(line_number()==2)", '#a == "4"', 'push("s", line_number())'],
                ['#a == "4"', "stop(line_number()==3)", 'push("s", line_number())'],
                ['#a == "7"', 'push("s", line_number())', "line_number()==3 -> stop()"],
                ["no()", 'last() -> print("last!")'],
                ["no()", "yes()", 'print.onmatch("matched $.csvpath.line_number")'],
                [
                    'push.onmatch("m", line_number())',
                    "line_number()==2 -> advance(1)",
                    '#b == "5"',
                ],
                ['@x = line_number()', "skip.once(yes())", "yes()"],
                ["firstmatch() -> skip()", 'push("s", line_number())'],
                ["count() == 2 -> stop()", 'push("c", count())'],
                ["not(last())", 'push("s", line_number())'],
                ["last()", "skip()"],
                ["skip()", "stop()"],
                ["stop()", "skip()"],
                ["stop()"],
                ["skip()"],
                ["advance(3)"],
                ["last()"],
                ['or(last(), line_number()==1) -> push("x", line_number())'],
                ['last(push("z", "set-in-last"))', "no()"],
            ):
                p = f"~ logic-mode: {mode} ~ ${fname}[*][ " + " ".join(body) + " ]"
                run_one(f"logic mode={mode} file={fname}", p)
    for fname in ("plain.csv", "trail1.csv", "both.csv"):
        p = (
            f"~ explain-mode: explain ~ ${fname}[*][ "
            'push("s", line_number()) skip(line_number()==2) line_number()==4 -> stop() ]'
        )
        run_one(f"explain file={fname}", p)
        p = (
            f"${fname}[*][ "
            'push("s", line_number()) skip(line_number()==2) last.nocontrib() -> print("L $.csvpath.line_number") ]'
        )
        run_one(f"no-skip-blank file={fname}", p, skip_blank_lines=False)
        p = f"~ return-mode: no-matches ~ ${fname}[*][ " 'skip(line_number()==2) #a == "4" line_number()==4 -> stop() ]'
        run_one(f"return-mode no-matches file={fname}", p)
        p = f"~ unmatched-mode: keep ~ ${fname}[*][ " 'skip(line_number()==2) #a == "4" line_number()==4 -> stop() ]'
        run_one(f"unmatched keep file={fname}", p)


def error_suite():
    # errors inside and around the control functions, under several policies
    bodies = [
        ['advance("please")', 'push("s", line_number())'],
        ['push("s", line_number())', 'line_number()==2 -> advance("x")'],
        ['last() -> advance("x")'],
        ['last.nocontrib() -> add("five", 1)', 'push("s", line_number())'],
        ['last.nocontrib(add("five", 1))', 'push("s", line_number())'],
        ['add("five", 1)', "skip(line_number()==2)", 'push("s", line_number())'],
        ["skip(line_number()==2)", 'add("five", 1)', 'push("s", line_number())'],
        ['line_number()==2 -> add("five", 1)', "stop(line_number()==2)"],
        ['push("s", line_number())', "fail_and_stop(line_number()==2)", "yes()"],
        ['push("s", line_number())', 'line_number()==1 -> fail()', "last.nocontrib() -> fail()"],
        ['@q = int("abc")', "last.nocontrib() -> @q2 = int(\"abc\")"],
    ]
    policies = [("collect",), ("collect", "stop"), ("collect", "fail"), ("raise",), ("print",), ("collect", "print", "stop", "fail")]
    for fname in ("plain.csv", "trail1.csv", "both.csv"):
        for body in bodies:
            for pol in policies:
                p = f"${fname}[*][ " + " ".join(body) + " ]"
                run_one(f"errors file={fname}", p, policy=pol)
    # structural / validation errors at parse-time
    for p in (
        "$plain.csv[*][ stop(1, 2) ]",
        "$plain.csv[*][ skip(#a) ]",
        "$plain.csv[*][ advance() ]",
        '$plain.csv[*][ last("x") ]',
        "$missing.csv[*][ stop() ]",
    ):
        for pol in (("collect",), ("raise",)):
            run_one("invalid", p, policy=pol)


def repeat_suite():
    # repeated runs on the same instance and programmatic advance()/stop()
    p = '$trail1.csv[*][ push("s", line_number()) line_number()==2 -> advance(1) last.nocontrib() -> print("last $.csvpath.line_number") ]'
    path = run_one("repeat first", p)
    run_one("repeat second (same instance)", p, reuse=path)
    run_one("repeat third (same instance, next)", p, reuse=path, method="next")

    def adv(n):
        def _s(path):
            path.get_total_lines()
            path.line_monitor  # noqa
            path.advance_count = n

        return _s

    for n in (0, 1, 2, 100):
        run_one(
            f"preset advance_count={n}",
            '$trail1.csv[*][ push("s", line_number()) last.nocontrib() -> print("last") ]',
            setup=adv(n),
        )
    for nexts in (0, 1, 2, 3):
        run_one(
            f"collect nexts={nexts}",
            '$inner.csv[*][ push("s", line_number()) skip(line_number()==3) ]',
            nexts=nexts,
        )
    run_one(
        "line numbers",
        '$both.csv[*][ skip(line_number()==2) line_number()==5 -> stop() ]',
        method="line_numbers",
    )

    def stop_first(path):
        path.stop()

    run_one(
        "stopped before start",
        '$plain.csv[*][ push("s", line_number()) ]',
        setup=stop_first,
    )


# ---------------------------------------------------------------------------
# t3 specific: direct probes of the "is this the last line?" helpers
# ---------------------------------------------------------------------------
def call(fn):
    try:
        r = fn()
        return f"{type(r).__name__}:{r!r}"
    except Exception as e:  # noqa
        return f"raised {type(e).__name__}: {e}"


def line_monitor_suite():
    from csvpath.util.line_monitor import LineMonitor

    lines = [None, [], [""], ["a"], ["", ""], "", "x", (), (1,), {}, {"a": 1}, 0, 5, set()]
    nums = [None, 0, 1, 5, -1]
    say("=" * 78)
    say("CASE LineMonitor.is_last_line_and_blank grid")
    for end in nums:
        for cur in nums:
            lm = LineMonitor()
            lm._physical_end_line_number = end
            lm._physical_line_number = cur
            row = []
            for ln in lines:
                row.append(call(lambda: lm.is_last_line_and_blank(ln)))
            say(f"end={end!r} cur={cur!r} is_last_line={call(lm.is_last_line)}", jd(row))
    # a monitor that has really been driven over data
    say("CASE LineMonitor driven")
    for data in ([["a"], ["1"], []], [[], []], [["a"]], [[]], []):
        lm = LineMonitor()
        for d in data:
            lm.next_line(last_line=None, data=d)
        lm.set_end_lines_and_reset()
        row = [call(lambda: lm.is_last_line_and_blank([]))]
        for d in data:
            lm.next_line(last_line=None, data=d)
            row.append(
                (
                    lm.physical_line_number,
                    call(lambda: lm.is_last_line_and_blank(d)),
                    call(lambda: lm.is_last_line_and_blank([])),
                    call(lambda: lm.is_last_line_and_blank(None)),
                    call(lm.is_last_line),
                )
            )
        say(jd(data), jd(row), jd(json.loads(lm.dump())))


def scanner_suite():
    scans = [
        "*", "0*", "1*", "3*", "9*", "0", "3", "9", "0-0", "1-3", "3-1", "0-9",
        "9-2", "1+3", "3+1", "1+3+5", "5+3+1", "0+6", "2+2", "1-3+5", "2*", "6*", "6", "7",
    ]
    for fname in ("plain.csv", "trail1.csv", "both.csv", "header.csv", "blank.csv"):
        for scan in scans:
            say("=" * 78)
            say(f"CASE Scanner.is_last file={fname} scan=[{scan}]")
            path = CsvPath(print_default=False)
            try:
                path.parse(f"${fname}[{scan}][yes()]")
            except Exception as e:  # noqa
                say("PARSE RAISED", type(e).__name__)
                continue
            sc = path.scanner
            say(
                "SCANNER",
                jd([sc.from_line, sc.to_line, sc.all_lines, sc.these]),
                "END",
                path.line_monitor.physical_end_line_number,
            )
            say(
                "is_last",
                jd([call(lambda: sc.is_last(n)) for n in [None, -1, 0, 1, 2, 3, 4, 5, 6, 7, 9, 10]]),
            )
            say(
                "includes",
                jd([call(lambda: sc.includes(n)) for n in [None, -1, 0, 1, 2, 3, 4, 5, 6, 7, 9, 10]]),
            )
            # the scanner state must not be changed by asking
            say("SCANNER AFTER", jd([sc.from_line, sc.to_line, sc.all_lines, sc.these]))
            say("completed before run", call(lambda: path.completed))
    # explicit overrides
    say("=" * 78)
    say("CASE Scanner.is_last overrides")
    path = CsvPath(print_default=False)
    path.parse("$plain.csv[1-3][yes()]")
    sc = path.scanner
    for kw in (
        {},
        {"from_line": 5, "to_line": 2},
        {"from_line": 2, "to_line": 5},
        {"from_line": None, "to_line": None},
        {"from_line": None, "to_line": None, "these": [1, 4]},
        {"from_line": None, "to_line": None, "these": []},
        {"from_line": None, "to_line": None, "these": [4, 1], "all_lines": False},
        {"from_line": None, "to_line": None, "these": [4, 1], "all_lines": True},
        {"from_line": 4, "to_line": None, "these": [4], "all_lines": False},
        {"to_line": None, "these": [2]},
        {"to_line": None, "these": None},
        {"to_line": None, "these": ["a", 2]},
        {"all_lines": True},
        {"all_lines": 1},
        {"all_lines": 0, "these": [3], "to_line": None},
        {"from_line": 0, "to_line": 0},
        {"from_line": "b", "to_line": "a"},
        {"from_line": "a", "to_line": 1},
    ):
        say(
            jd(kw),
            jd([call(lambda: sc.is_last(n, **kw)) for n in [None, 0, 1, 2, 3, 4, 5, 6, "a"]]),
        )
    say("SCANNER AFTER", jd([sc.from_line, sc.to_line, sc.all_lines, sc.these]))


def last_shapes_suite():
    bodies = [
        ["last()"],
        ["last.nocontrib()"],
        ['last(print("in last $.csvpath.line_number"))'],
        ['last.nocontrib(push("x", line_number()))', 'push("s", line_number())'],
        ['last.nocontrib(@c == 2)', "@c = count_lines()"],
        ['last() -> @l = line_number()'],
        ['@l = last()', '@n = not(last())'],
        ['push("v", last())'],
        ['last.onmatch() -> push("x", line_number())', '#0 == "7"'],
        ['last.nocontrib() -> push("a", line_number())', 'last.nocontrib() -> push("b", line_number())', 'last.nocontrib(push("c", line_number()))'],
        ['or(last(), firstline()) -> push("fl", line_number())'],
        ['not(last()) -> push("nl", line_number())'],
        ['last.nocontrib() -> skip()', 'push("s", line_number())'],
        ['last.nocontrib() -> stop()', 'push("s", line_number())'],
        ['last.nocontrib() -> advance(1)', 'push("s", line_number())'],
        ['last.nocontrib() -> fail()', 'push("s", line_number())'],
        ['last.nocontrib(fail())'],
        ['last.nocontrib(last.nocontrib(print("nested $.csvpath.line_number")))'],
        ['last.nocontrib() -> last.nocontrib() -> print("double when")'],
        ['yes() -> last.nocontrib() -> print("yes when last")'],
        ['no() -> last.nocontrib() -> print("no when last")'],
        ['any(last(), no()) -> print("any last")'],
    ]
    scans = ["*", "1*", "2-3", "3-2", "1+4", "0", "5"]
    for fname in ("plain.csv", "trail1.csv", "trail2.csv", "both.csv", "tiny.csv", "blank.csv", "wsend.csv", "nonl.csv"):
        for scan in scans:
            for body in bodies:
                run_one(
                    f"last shapes file={fname} scan={scan}",
                    f"${fname}[{scan}][ " + " ".join(body) + " ]",
                )
    for fname in ("trail1.csv", "both.csv", "tiny.csv"):
        for body in bodies[:6]:
            run_one(
                f"last shapes no-skip-blank file={fname}",
                f"${fname}[*][ " + " ".join(body) + " ]",
                skip_blank_lines=False,
            )


def prime():
    """the first CsvPath created in a fresh directory writes a default
    ./config/config.ini and says so on stdout. do that up front, quietly, so
    the transcript does not depend on whether the directory was empty."""
    with contextlib.redirect_stdout(io.StringIO()):
        CsvPath()


def main():
    write_files()
    prime()
    line_monitor_suite()
    scanner_suite()
    last_shapes_suite()
    positions_suite()
    firing_lines_suite()
    windows_suite()
    logic_suite()
    error_suite()
    repeat_suite()
    say("DONE")


if __name__ == "__main__":
    main()
