#!/venv/bin/python
"""Differential demonstration for property C15 (comment mode settings; matched and
unmatched partition the file).

Run it in an empty scratch directory:

    mkdir /tmp/demo && cd /tmp/demo && PYTHONPATH=<csvpath tree> /venv/bin/python demo.py > out.txt

The script is self-contained: it writes ./config/config.ini (offline, no listeners),
its own CSV files, and prints a deterministic transcript of everything observable.
The same script run against unmodified HEAD and against the refactored tree must
produce byte-identical output.
"""
import contextlib
import io
import itertools
import json
import os
import random
import re
import shutil
import sys

FOCUS = "t3: line disposition moved out of _consider_line and next()"

CONFIG = """[csvpath_files]
extensions = txt, csvpath, csvpaths

[csv_files]
extensions = txt, csv, tsv, dat, tab, psv, ssv

[errors]
csvpath = raise, collect, stop, fail, print
csvpaths = raise, collect

[logging]
csvpath = info
csvpaths = info
log_file = logs/csvpath.log
log_files_to_keep = 100
log_file_size = 52428800

[config]
path = config/config.ini

[cache]
path = cache

[listeners]
[marquez]
base_url = http://localhost:5000

[functions]
imports = config/functions.imports

[results]
archive = archive
transfers = transfers

[inputs]
files = inputs/named_files
csvpaths = inputs/named_paths
on_unmatched_file_fingerprints = halt
"""

FILES = {
    "plain.csv": "a,b,c\n1,2,3\n4,,6\n7,8,9\n0,0,0\n",
    "ragged.csv": "a,b,c\n1,2,3\n\n4,,6\n7,8\n\n0,0,0,9\n,,\n3,x,y\n",
    "lastblank.csv": "a,b,c\n3,2,1\n1,1,1\n\n",
    "header_only.csv": "a,b,c\n",
    "one.csv": "a\n3\n",
    "quoted.csv": 'a,b,c\n"3","x,y",""\n" ",0,"0"\n3,"say ""hi""",z\n',
}


def setup() -> None:
    for d in ("config", "logs", "cache", "archive", "inputs", "transfers"):
        if os.path.exists(d):
            shutil.rmtree(d)
    os.makedirs("config")
    with open("config/config.ini", "w", encoding="utf-8") as f:
        f.write(CONFIG)
    with open("config/functions.imports", "w", encoding="utf-8") as f:
        f.write("")
    for name, content in FILES.items():
        with open(name, "w", encoding="utf-8") as f:
            f.write(content)


setup()

from csvpath import CsvPath, CsvPaths  # noqa: E402
from csvpath.util.metadata_parser import MetadataParser  # noqa: E402
from csvpath.modes.mode_controller import ModeController  # noqa: E402
from csvpath.util.printer import StdOutPrinter  # noqa: E402

OUT = sys.stdout

TS1 = re.compile(r"\d{4}-\d\d-\d\d[ T]\d\d:\d\d:\d\d(\.\d+)?(\+00:00)?")
RUN = re.compile(r"\d{4}-\d\d-\d\d_\d\d-\d\d-\d\d(\.\d+|_\d+)?")
ADDR = re.compile(r" at 0x[0-9a-f]+>")
UUID = re.compile(r"[0-9a-f]{8}-[0-9a-f]{4}-[0-9a-f]{4}-[0-9a-f]{4}-[0-9a-f]{12}")
CWD = os.getcwd()


def norm(s: str) -> str:
    s = s.replace(CWD, "<cwd>")
    s = TS1.sub("<ts>", s)
    s = RUN.sub("<run>", s)
    s = UUID.sub("<uuid>", s)
    s = ADDR.sub(" at 0x?>", s)
    return s


def say(*args) -> None:
    OUT.write(norm(" ".join(str(a) for a in args)) + "\n")


def exc(e: BaseException) -> str:
    return f"{type(e).__name__}: {e}"


@contextlib.contextmanager
def captured():
    buf = io.StringIO()
    with contextlib.redirect_stdout(buf):
        yield buf


# ---------------------------------------------------------------------------
# section A: the metadata parser, directly
# ---------------------------------------------------------------------------
class Dummy:
    """anything with a logger and a metadata attribute will do for the parser"""

    def __init__(self, metadata=None):
        self.metadata = metadata


HOLDER = CsvPath(print_default=False)

FIXED_PATHS = [
    "$plain.csv[*][yes()]",
    "~ ~ $plain.csv[*][yes()]",
    "~~$plain.csv[*][yes()]",
    "~ id: one ~ $plain.csv[*][yes()]",
    "~id:one~$plain.csv[*][yes()]",
    "  ~ name: first  description: a longer text, with punctuation! ~\n $plain.csv[1-3][yes()]  ",
    "~ return-mode: no-matches unmatched-mode: keep run-mode: run print-mode: no-default logic-mode: OR ~ $plain.csv[*][#a==\"1\"]",
    "~ some free text without any fields ~ $plain.csv[*][yes()]",
    "~ free text then a field: value and more: stuff ~ $plain.csv[*][yes()]",
    "~ a: 1 a: 2 ~ $plain.csv[*][yes()]",
    "~ a:~ $plain.csv[*][yes()]",
    "~ a: ~ $plain.csv[*][yes()]",
    "~ a: b: ~ $plain.csv[*][yes()]",
    "~ a:: b ~ $plain.csv[*][yes()]",
    "~ :x ~ $plain.csv[*][yes()]",
    "~ : ~ $plain.csv[*][yes()]",
    "~ a: b :c ~ $plain.csv[*][yes()]",
    "~ a : b ~ $plain.csv[*][yes()]",
    "~ a-b_c: d-e_f 0 ~ $plain.csv[*][yes()]",
    "~ x: 0 ~ $plain.csv[*][yes()]",
    "~ url: http://example.com/a?b=c&d=e ~ $plain.csv[*][yes()]",
    "~ t: 10:30:15 ~ $plain.csv[*][yes()]",
    "~ k: v\n\tk2:\tv2\r\nk3: v3 ~ $plain.csv[*][yes()]",
    "~ k: (v) k2: 'v2' k3: \"v3\" ~ $plain.csv[*][yes()]",
    "~ é: ü ñ: 日本 ~ $plain.csv[*][yes()]",
    "~ k: trailing. ~ $plain.csv[*][yes()]",
    "~ k: a.b.c: d ~ $plain.csv[*][yes()]",
    "~ k: a,b,c:d ~ $plain.csv[*][yes()]",
    "~ id: x ~ $plain.csv[*][ ~ inner: comment ~ yes()]",
    "~ id: x ~ $plain.csv[*][yes()] ~ after: path ~",
    "$plain.csv[*][yes()] ~ after: path ~",
    "~ price: $5 ~ $plain.csv[*][yes()]",
    "~ unclosed: comment $plain.csv[*][yes()]",
    "~ id: x ~ ~ second: one ~ $plain.csv[*][yes()]",
    "~ id: x ~ junk between $plain.csv[*][yes()]",
    "~ id: x ~ $plain.csv[*][yes()] trailing junk",
    "~ id: x ~ $plain.csv[*][#a==\"]\"]",
    "~ id: x ~ $plain.csv[*][#a==\"$\" ~c~ ]",
    "~ id: x ~ $[*][yes()]",
    "~ ID: upper Id: mixed id: lower name: n NAME: N ~ $plain.csv[*][yes()]",
    "~ validation-mode: no-raise, no-print explain-mode: explain files-mode: all transfer-mode: data > x source-mode: preceding ~ $plain.csv[*][yes()]",
    "x $plain.csv[*][yes()]",
    "",
    "   ",
    "~",
    "$",
    "~ only: comment ~",
]


def random_comments(n: int, seed: int):
    rnd = random.Random(seed)
    words = [
        "id", "name", "description", "return-mode", "unmatched-mode", "run-mode",
        "print-mode", "logic-mode", "matches", "no-matches", "keep", "no-keep",
        "run", "default", "AND", "OR", "x", "y_z", "a-b", "0", "42", "",
    ]
    seps = [" ", "  ", "\n", "\t", "\r\n", ":", ": ", " :", "::", ",", ".", "!", "(", ")", "'", '"', "/", "é", "#", "@", "="]
    for _ in range(n):
        k = rnd.randint(0, 12)
        s = ""
        for _j in range(k):
            s += rnd.choice(words)
            s += rnd.choice(seps)
        yield s


def parser_section() -> None:
    say("=" * 20, "A. MetadataParser")
    mp = MetadataParser(HOLDER)
    for p in FIXED_PATHS:
        say("path:", repr(p))
        try:
            say("  split:", repr(mp.extract_csvpath_and_comment(p)))
        except Exception as e:  # pylint: disable=W0718
            say("  split raised", exc(e))
        for label, inst in (
            ("none", Dummy(None)),
            ("empty", Dummy({})),
            ("preset", Dummy({"id": "preset", "zzz": 1})),
        ):
            try:
                ret = mp.extract_metadata(instance=inst, csvpath=p)
                say(f"  [{label}] ->", repr(ret), "|", repr(inst.metadata))
            except Exception as e:  # pylint: disable=W0718
                say(f"  [{label}] raised", exc(e), "|", repr(inst.metadata))
    say("-" * 10, "collect_metadata directly")
    for c in ["", " ", "a", "a:", "a:b", "a: b c: d", ":", "::", "a::", "a:b:", "a:b:c", "a b: c d e: f", "a:\n", "-:_", "a: -", "a: b-", "a: (", "(: a", "a:b (c): d"]:
        for label, inst in (("none", Dummy(None)), ("preset", Dummy({"a": "old", "q": "r"}))):
            try:
                r = mp.collect_metadata(inst, c)
                say(repr(c), f"[{label}] ->", repr(r), repr(inst.metadata))
            except Exception as e:  # pylint: disable=W0718
                say(repr(c), f"[{label}] raised", exc(e), repr(inst.metadata))
    say("-" * 10, "random comments")
    for i, c in enumerate(random_comments(400, 15)):
        p = f"~{c}~ $plain.csv[*][yes()]"
        inst = Dummy({"seed": i} if i % 3 == 0 else None)
        try:
            ret = mp.extract_metadata(instance=inst, csvpath=p)
            say(i, repr(c), "->", repr(ret), repr(inst.metadata))
        except Exception as e:  # pylint: disable=W0718
            say(i, repr(c), "raised", exc(e), repr(inst.metadata))
    if FOCUS.startswith("t2"):
        say("-" * 10, "character-level fuzz of collect_metadata")
        rnd = random.Random(2015)
        alphabet = ": \n\t\r-_ab0Z.,é(!/'\"#=日"
        for i in range(3000):
            c = "".join(rnd.choice(alphabet) for _ in range(rnd.randint(0, 24)))
            inst = Dummy({"a": "was"} if i % 4 == 0 else ({} if i % 4 == 1 else None))
            try:
                mp.collect_metadata(inst, c)
                say(i, repr(c), "->", repr(inst.metadata))
            except Exception as e:  # pylint: disable=W0718
                say(i, repr(c), "raised", exc(e), repr(inst.metadata))
        say("-" * 10, "non-string comments")
        for c in (["ab", ":", "cd"], ("k", ":", " ", "v"), [], b"", None, 5):
            inst = Dummy(None)
            try:
                mp.collect_metadata(inst, c)
                say(repr(c), "->", repr(inst.metadata))
            except Exception as e:  # pylint: disable=W0718
                say(repr(c), "raised", exc(e), repr(inst.metadata))
    say("-" * 10, "holder without logger")
    try:
        MetadataParser(object())
    except Exception as e:  # pylint: disable=W0718
        say("raised", exc(e))


# ---------------------------------------------------------------------------
# section B: standalone CsvPath runs under every combination of modes
# ---------------------------------------------------------------------------
def safe(fn):
    """evaluate one observable; an exception is itself an observable"""
    try:
        v = fn()
        return v if isinstance(v, str) and v.startswith("'") else repr(v)
    except Exception as e:  # pylint: disable=W0718
        return "!" + exc(e)


def describe(p: CsvPath, *, full=True) -> None:
    say("    scan:", repr(p.scan), "match:", repr(p.match))
    say("    metadata:", repr(p.metadata))
    say("    identity:", safe(lambda: p.identity))
    say(
        "    modes:",
        "return", safe(lambda: p.return_mode), safe(lambda: p.collect_when_not_matched),
        "| unmatched", safe(lambda: p.unmatched_mode), safe(lambda: p.unmatched_available),
        "| run", safe(lambda: p.run_mode), safe(lambda: p.will_run),
        "| print", safe(lambda: p.print_mode), safe(lambda: p.modes.print_mode.value),
        "| logic", safe(lambda: p.logic_mode), safe(lambda: p.AND), safe(lambda: p.OR),
        "| explain", safe(lambda: p.explain_mode), safe(lambda: p.explain),
        "| source", safe(lambda: p.source_mode), safe(lambda: p.data_from_preceding),
        "| files", safe(lambda: p.files_mode), safe(lambda: p.all_expected_files),
        "| transfer", safe(lambda: p.transfer_mode), safe(lambda: p.transfers),
        "| validation", safe(lambda: p.validation_mode),
    )
    say("    metadata after reading modes:", repr(p.metadata))
    say("    printers:", [type(x).__name__ for x in p.printers])
    if full:
        say(
            "    counts: scan", p.scan_count, "match", p.match_count,
            "stopped", p.stopped, "valid", p.is_valid, "frozen", p.is_frozen,
            "collecting", p.collecting, "advance", safe(lambda: p.advance_count),
        )
        say(
            "    lines: physical", safe(lambda: p.line_monitor.physical_line_number),
            "data", safe(lambda: p.line_monitor.data_line_number),
            "end", safe(lambda: p.line_monitor.physical_end_line_number),
            "count", safe(lambda: p.line_monitor.physical_line_count),
        )
        say("    variables:", repr(p.variables))
        say("    unmatched:", repr(p.unmatched))
        say("    has_errors:", safe(p.has_errors), "errors:", safe(lambda: [(e.line_count, getattr(e, "message", None), type(e.error).__name__ if getattr(e, "error", None) is not None else None) for e in (p.errors or [])]))
        say("    lines attr:", type(p.lines).__name__, safe(lambda: len(p.lines)) if p.lines is not None else "")


def run_one(csvpath: str, method: str = "collect", **kw) -> None:
    say("  run:", method, repr(csvpath), kw if kw else "")
    p = CsvPath(**{k: v for k, v in kw.items() if k in ("skip_blank_lines", "print_default", "delimiter", "quotechar")})
    with captured() as buf:
        try:
            if method == "collect":
                lines = p.collect(csvpath)
                res = repr(lines)
            elif method == "collect2":
                lines = p.collect(csvpath, nexts=kw.get("nexts", 2))
                res = repr(lines)
            elif method == "next":
                res = repr([line[:] for line in p.next(csvpath)])
            elif method == "fast_forward":
                res = repr(p.fast_forward(csvpath))
            else:
                raise ValueError(method)
        except Exception as e:  # pylint: disable=W0718
            res = "raised " + exc(e)
    say("    result:", res)
    say("    stdout:", repr(buf.getvalue()))
    try:
        describe(p, full=True)
    except Exception as e:  # pylint: disable=W0718
        say("    describe raised", exc(e))


MATCHES = [
    '[#a=="3"]',
    '[@n = count() print("line $.csvpath.line_number: $.headers.a")]',
    '[#a=="3" #b=="x" last() -> print("done")]',
    '[or(#a=="0", #b=="8") @c.onmatch = count()]',
]

RETURN = [None, "matches", "no-matches"]
UNMATCHED = [None, "keep", "no-keep"]
RUNM = [None, "run", "no-run"]
PRINTM = [None, "default", "no-default"]
LOGIC = [None, "AND", "OR"]


def comment_for(combo, extra="", mid=False) -> str:
    names = ["return-mode", "unmatched-mode", "run-mode", "print-mode", "logic-mode"]
    parts = [f"{n}: {v}" for n, v in zip(names, combo) if v is not None]
    if extra and mid:
        parts.insert(len(parts) // 2, extra)
    elif extra:
        parts.insert(0, extra)
    if not parts:
        return ""
    return "~ " + " ".join(parts) + " ~ "


def combos_section() -> None:
    say("=" * 20, "B. mode combinations, standalone CsvPath")
    rnd = random.Random(1515)
    extras = ["", "id: combo", "free text here", "note: any text, really! x: 0", "name:n\ndescription: two\nlines"]
    n = 0
    for combo in itertools.product(RETURN, UNMATCHED, RUNM, PRINTM, LOGIC):
        n += 1
        file = rnd.choice(["plain.csv", "ragged.csv", "lastblank.csv", "quoted.csv"])
        scan = rnd.choice(["[*]", "[1*]", "[1-4]", "[2+4+6]", "[0]"])
        match = rnd.choice(MATCHES)
        extra = rnd.choice(extras)
        method = rnd.choice(["collect", "collect", "next", "fast_forward"])
        csvpath = f"{comment_for(combo, extra, n % 9 == 0)}${file}{scan}{match}"
        say("combo", n, combo)
        run_one(csvpath, method)
        # the same csvpath without any comment: scan and match parts must be the same
        run_one(f"${file}{scan}{match}", method)
    say("-" * 10, "the full partition check on every file")
    for file in FILES:
        for match in MATCHES:
            for rm in RETURN:
                c = comment_for((rm, "keep", None, "no-default", None))
                run_one(f"{c}${file}[*]{match}", "collect")


def edge_section() -> None:
    say("=" * 20, "C. edges")
    bad = [
        "~ return-mode: sometimes ~ $plain.csv[*][yes()]",
        "~ return-mode: no-matches, please ~ $plain.csv[*][yes()]",
        "~ return-mode:  matches  ~ $plain.csv[*][yes()]",
        "~ run-mode: never ~ $plain.csv[*][yes()]",
        "~ run-mode: no-run ~ $plain.csv[*][yes()]",
        "~ run-mode: no-run ~ $nosuchfile.csv[*][yes()]",
        "~ print-mode: silent ~ $plain.csv[*][print(\"x\")]",
        "~ print-mode: no-default ~ $plain.csv[*][print(\"x\")]",
        "~ print-mode: no-default print-mode: default ~ $plain.csv[0][print(\"x\")]",
        "~ logic-mode: xor ~ $plain.csv[*][yes()]",
        "~ logic-mode: or ~ $plain.csv[*][#a==\"1\" #b==\"8\"]",
        "~ logic-mode: Or ~ $plain.csv[*][#a==\"1\" #b==\"8\"]",
        "~ unmatched-mode: whatever ~ $plain.csv[*][#a==\"1\"]",
        "~ unmatched-mode: no-keep, really ~ $plain.csv[*][#a==\"1\"]",
        "~ files-mode: data, nonsense ~ $plain.csv[*][yes()]",
        "~ files-mode: data, unmatched ~ $plain.csv[*][yes()]",
        "~ files-mode: all ~ $plain.csv[*][yes()]",
        "~ transfer-mode: data > there, unmatched > here ~ $plain.csv[*][yes()]",
        "~ transfer-mode: nowhere ~ $plain.csv[*][yes()]",
        "~ explain-mode: explain ~ $plain.csv[0][yes()]",
        "~ source-mode: preceding ~ $plain.csv[0][yes()]",
        "~ validation-mode: no-raise, no-print, no-stop, fail, match ~ $plain.csv[1][add(\"a\", #a)]",
        "~ validation-mode: raise ~ $plain.csv[1][add(\"a\", #a)]",
        "~ validation-mode: print, no-raise unmatched-mode: keep ~ $plain.csv[*][add(\"a\", #a)]",
        "~ unmatched-mode: keep ~ $plain.csv[*][#a==\"4\" collect(\"a\", \"c\")]",
        "~ unmatched-mode: keep ~ $ragged.csv[*][#a==\"4\" collect(\"a\", \"c\")]",
        "~ unmatched-mode: keep return-mode: no-matches ~ $plain.csv[*][#a==\"4\" stop()]",
        "~ unmatched-mode: keep ~ $plain.csv[*][#a==\"4\" -> stop()]",
        "~ unmatched-mode: keep ~ $plain.csv[*][#a==\"4\" -> fail()]",
        "~ unmatched-mode: keep ~ $plain.csv[*][#a==\"1\" -> advance(2)]",
        "~ unmatched-mode: keep return-mode: no-matches ~ $plain.csv[*][#a==\"1\" -> skip()]",
        "~ unmatched-mode: keep ~ $plain.csv[*][]",
        "~ unmatched-mode: keep ~ $plain.csv[*]",
        "~ unmatched-mode: keep ~ $plain.csv[*][nonesuch()]",
        "~ unmatched-mode: keep ~ $plain.csv[*][#a==",
        "~ unmatched-mode: keep ~ $header_only.csv[*][yes()]",
        "~ unmatched-mode: keep return-mode: no-matches ~ $header_only.csv[*][yes()]",
        "~ unmatched-mode: keep ~ $one.csv[1][no()]",
        "~ unmatched-mode: keep ~ $plain.csv[9][yes()]",
    ]
    for b in bad:
        run_one(b, "collect")
    say("-" * 10, "constructor options")
    run_one("~ unmatched-mode: keep ~ $ragged.csv[*][#a==\"4\"]", "collect", skip_blank_lines=False)
    run_one("~ unmatched-mode: keep return-mode: no-matches ~ $ragged.csv[*][#a==\"4\"]", "collect", skip_blank_lines=False)
    run_one("~ unmatched-mode: keep ~ $lastblank.csv[*][#a==\"3\" last() -> @l = \"last\"]", "collect", skip_blank_lines=False)
    run_one("~ print-mode: default ~ $plain.csv[0][print(\"x\")]", "collect", print_default=False)
    run_one("~ print-mode: no-default ~ $plain.csv[0][print(\"x\")]", "collect", print_default=False)
    run_one("$plain.csv[0][print(\"x\")]", "collect", print_default=False)
    run_one("~ unmatched-mode: keep ~ $plain.csv[*][yes()]", "collect2", nexts=2)
    run_one("~ unmatched-mode: keep ~ $plain.csv[*][#a==\"7\"]", "collect2", nexts=1)
    run_one("~ unmatched-mode: keep ~ $plain.csv[*][yes()]", "collect2", nexts=0)
    run_one("~ unmatched-mode: keep ~ $plain.csv[*][yes()]", "collect2", nexts=-2)

    say("-" * 10, "programmatic settings and repeated use of one instance")
    p = CsvPath()
    say("fresh instance")
    describe(p, full=False)
    with captured() as buf:
        p.parse("~ id: again unmatched-mode: keep ~ $plain.csv[*][#a==\"4\"]")
        first = p.collect()
        second = p.collect()
    say("first:", first, "second:", second, "stdout:", repr(buf.getvalue()))
    describe(p)
    p = CsvPath()
    p.parse("$plain.csv[*][#a==\"4\" print(\"p $.headers.a\")]")
    for step in range(6):
        with captured() as buf:
            try:
                if step == 0:
                    p.collect_when_not_matched = True
                elif step == 1:
                    p.unmatched_available = True
                elif step == 2:
                    p.modes.print_mode.value = False
                elif step == 3:
                    p.OR = True
                elif step == 4:
                    p.explain = True
                elif step == 5:
                    p.modes.run_mode.value = False
            except Exception as e:  # pylint: disable=W0718
                say("setter raised", exc(e))
        say("after step", step, "stdout:", repr(buf.getvalue()))
        describe(p, full=False)
    with captured() as buf:
        lines = p.collect()
    say("collect:", lines, "stdout:", repr(buf.getvalue()))
    describe(p)
    for values in itertools.product([True, False, None], repeat=2):
        p = CsvPath()
        p.parse("~ note: programmatic ~ $plain.csv[*][#a==\"4\" print(\"p $.headers.a\")]")
        p.collect_when_not_matched = values[0]
        p.unmatched_available = values[1]
        with captured() as buf:
            lines = p.collect()
        say("values", values, "collect:", lines, "stdout:", repr(buf.getvalue()))
        describe(p)
    say("-" * 10, "re-parse replaces settings")
    p = CsvPath()
    with captured() as buf:
        p.parse("~ return-mode: no-matches print-mode: no-default unmatched-mode: keep ~ $plain.csv[*][#a==\"4\"]")
    describe(p, full=False)
    with captured() as buf:
        p.parse("~ id: second ~ $plain.csv[*][#a==\"4\"]")
    describe(p, full=False)
    with captured() as buf:
        p.parse("$plain.csv[*][#a==\"4\"]")
    describe(p, full=False)
    with captured() as buf:
        lines = p.collect()
    say("collect:", lines, "stdout:", repr(buf.getvalue()))
    describe(p)

    say("-" * 10, "ModeController API")
    p = CsvPath()
    mc = p.modes
    say("MODES:", type(ModeController.MODES).__name__, ModeController.MODES)
    say("attrs:", sorted(k for k in vars(mc)))
    say("types:", [(k, type(v).__name__) for k, v in sorted(vars(mc).items())])
    say("controller refs:", all(getattr(v, "controller", mc) is mc for v in vars(mc).values()))
    for m in ModeController.MODES + [None, "", "nope", "Return-Mode", 0]:
        try:
            say("get", repr(m), "->", repr(mc.get(m)))
        except Exception as e:  # pylint: disable=W0718
            say("get", repr(m), "raised", exc(e))
    for m in ModeController.MODES + [None, "", "nope", 0]:
        try:
            say("set", repr(m), "->", repr(mc.set(m, f"v-{m}")))
        except Exception as e:  # pylint: disable=W0718
            say("set", repr(m), "raised", exc(e))
    say("metadata:", p.metadata)
    try:
        mc.update()
    except Exception as e:  # pylint: disable=W0718
        say("update raised", exc(e))
    say("after failed update:", [(k, {a: b for a, b in vars(v).items() if a != "controller"}) for k, v in sorted(vars(mc).items()) if k != "csvpath"])
    # order of update(): the first bad mode wins
    for md in (
        {"explain-mode": None, "files-mode": "bogus", "logic-mode": "bogus", "print-mode": "bogus", "return-mode": "bogus", "run-mode": "bogus"},
        {"logic-mode": "bogus", "print-mode": "bogus", "return-mode": "bogus", "run-mode": "bogus"},
        {"print-mode": "bogus", "return-mode": "bogus", "run-mode": "bogus"},
        {"return-mode": "bogus", "run-mode": "bogus"},
        {"run-mode": "bogus", "unmatched-mode": "keep"},
        {"unmatched-mode": "keep", "validation-mode": "raise, print"},
        {},
    ):
        p = CsvPath()
        p.metadata = dict(md)
        with captured() as buf:
            try:
                p.update_settings_from_metadata()
                say("update ok", md)
            except Exception as e:  # pylint: disable=W0718
                say("update", md, "raised", exc(e))
        say("  state:", [(k, sorted((a, repr(b)) for a, b in vars(v).items() if a != "controller")) for k, v in sorted(vars(p.modes).items()) if k != "csvpath"])
        say("  metadata:", p.metadata, "printers:", [type(x).__name__ for x in p.printers])

    say("-" * 10, "update() calls each mode object once, in order, looked up at call time")

    class Recorder:
        def __init__(self, name, log, boom=False):
            self.name, self.log, self.boom = name, log, boom

        def update(self):
            self.log.append(self.name)
            if self.boom:
                raise RuntimeError("boom in " + self.name)

    for boom_at in (None, "return_mode", "explain_mode", "validation_mode"):
        p = CsvPath()
        log = []
        for k in [k for k in vars(p.modes) if k != "csvpath"]:
            setattr(p.modes, k, Recorder(k, log, boom=(k == boom_at)))
        try:
            say("update ->", repr(p.modes.update()))
        except Exception as e:  # pylint: disable=W0718
            say("update raised", exc(e))
        say("  calls:", log)
    p = CsvPath()
    p.modes.extra_mode = Recorder("extra_mode", log := [])
    p.modes.update()
    say("an attribute that is not a mode is not updated:", log)
    say("two controllers do not share mode objects:", CsvPath().modes.return_mode is not CsvPath().modes.return_mode)
    say("class attrs:", sorted(k for k in vars(ModeController) if not k.startswith("_")))
    say("-" * 10, "_consider_line directly")
    for cm in ("", "~ return-mode: no-matches ~ ", "~ return-mode: matches unmatched-mode: keep ~ "):
        for match in ('[#a=="3"]', "[]", '[#a=="3" -> advance(1)]'):
            p = CsvPath()
            try:
                p.parse(f"{cm}$ragged.csv[1-7]{match}")
            except Exception as e:  # pylint: disable=W0718
                say("parse raised", exc(e))
                continue
            outs = []
            with captured() as buf:
                for line in p._next_line():  # pylint: disable=W0212
                    try:
                        outs.append((line, p._consider_line(line)))  # pylint: disable=W0212
                    except Exception as e:  # pylint: disable=W0718
                        outs.append((line, exc(e)))
            say(repr(cm), match, "->", outs)
            say("    counts: scan", p.scan_count, "match", p.match_count, "stopped", p.stopped, "frozen", p.is_frozen, "advance", p.advance_count)


def line_disposition_section() -> None:
    say("=" * 20, "C2. what happens to each scanned line")
    say("-" * 10, "matcher answers that are not exactly True or False")
    for answer in (True, False, None, 1, 0, "yes", [], [1]):
        for cm in ("~ unmatched-mode: keep ~ ", "~ unmatched-mode: keep return-mode: no-matches ~ "):
            p = CsvPath()
            p.parse(f"{cm}$ragged.csv[1*][yes()]")
            p.matches = lambda line, a=answer: a
            with captured() as buf:
                try:
                    lines = p.collect()
                except Exception as e:  # pylint: disable=W0718
                    lines = "raised " + exc(e)
            say(repr(answer), repr(cm), "->", lines, "| unmatched", p.unmatched, "| scan", p.scan_count, "match", p.match_count, "stopped", p.stopped)
    say("-" * 10, "a matcher that raises part way")
    for cm in ("~ unmatched-mode: keep ~ ", "~ unmatched-mode: keep return-mode: no-matches ~ "):
        p = CsvPath()
        p.parse(f"{cm}$plain.csv[*][yes()]")
        seen = []

        def boom(line, seen=seen):
            seen.append(line)
            if len(seen) == 3:
                raise RuntimeError("boom on third")
            return len(seen) % 2 == 0

        p.matches = boom
        got = []
        try:
            for line in p.next():
                got.append(line)
        except Exception as e:  # pylint: disable=W0718
            got.append("raised " + exc(e))
        say(repr(cm), "->", got, "| unmatched", p.unmatched, "| scan", p.scan_count, "match", p.match_count, "current", p._current_match_count, "stopped", p.stopped, "frozen", p.is_frozen, "times", p.last_row_time >= 0, p.rows_time >= -1)
    say("-" * 10, "advancing before and during the iteration")
    for cm in ("", "~ unmatched-mode: keep ~ ", "~ unmatched-mode: keep return-mode: no-matches ~ "):
        for adv_before, adv_at in ((0, None), (2, None), (-1, None), (0, 1), (1, 2), (99, None)):
            p = CsvPath()
            p.parse(f"{cm}$ragged.csv[*][@n=count() #a]")
            p.collecting = cm != ""
            if adv_before:
                try:
                    p.advance(adv_before)
                except Exception as e:  # pylint: disable=W0718
                    say("advance raised", exc(e))
            got = []
            with captured() as buf:
                for i, line in enumerate(p.next()):
                    got.append((line, p.advance_count, p.match_count, p.scan_count))
                    if adv_at is not None and i == adv_at:
                        p.advance(2)
            say(repr(cm), adv_before, adv_at, "->", got)
            say("    unmatched", p.unmatched, "| vars", p.variables, "| scan", p.scan_count, "match", p.match_count, "advance", p.advance_count, "stopped", p.stopped)
    say("-" * 10, "changing return-mode and unmatched-mode while iterating")
    p = CsvPath()
    p.parse("~ unmatched-mode: keep ~ $plain.csv[*][#a==\"4\" or(#a==\"7\", #a==\"a\")]")
    p.OR = True
    p.collecting = True
    got = []
    for i, line in enumerate(p.next()):
        got.append(line)
        if i == 0:
            p.collect_when_not_matched = True
        elif i == 1:
            p.unmatched_available = False
    say("->", got, "| unmatched", p.unmatched, "| metadata", p.metadata, "| scan", p.scan_count, "match", p.match_count)
    say("-" * 10, "unmatched lines are limited by collect() just as matched lines are")
    for cm in ("~ unmatched-mode: keep ~ ", "~ unmatched-mode: keep return-mode: no-matches ~ "):
        for match in ('[collect("b") #a=="4"]', '[collect("c", "a") #a=="4"]', '[collect(3) #a=="4"]'):
            for file in ("plain.csv", "ragged.csv"):
                run_one(f"{cm}${file}[*]{match}", "collect")
    say("-" * 10, "ReturnMode by hand")
    p = CsvPath()
    for setting in (None, True, False, "yes", 0, 1):
        p.collect_when_not_matched = setting
        say(repr(setting), "-> value", repr(p.modes.return_mode.value), "cwnm", p.collect_when_not_matched, "metadata", p.metadata.get("return-mode"))
        p.parse("$plain.csv[1-2][#a==\"4\"]")
        say("    after parse: value", repr(p.modes.return_mode.value), "cwnm", p.collect_when_not_matched, "collect", p.collect())
        p = CsvPath()


# ---------------------------------------------------------------------------
# section D: CsvPaths groups and the archive
# ---------------------------------------------------------------------------
VOLATILE_KEYS = {"lines_time", "last_line_time", "time", "time_completed", "run_time", "run_started_at", "uuid", "named_paths_uuid", "named_file_last_change"}


def scrub(o, key=None):
    if isinstance(o, dict):
        out = {}
        for k, v in o.items():
            if k in VOLATILE_KEYS:
                out[k] = "<volatile>" if v is not None else None
            elif k == "trace" and isinstance(v, str):
                # a python traceback quotes source lines and line numbers of the
                # library itself, which any edit changes. keep what the
                # exception was, drop where in the source it was raised.
                out[k] = "<traceback> " + norm([x for x in v.split("\n") if x.strip()][-1])
            elif k == "file_fingerprints" and isinstance(v, dict):
                out[k] = {a: (b if a in ("data.csv", "unmatched.csv", "printouts.txt") else "<fp>") for a, b in v.items()}
            else:
                out[k] = scrub(v, k)
        return out
    if isinstance(o, list):
        return [scrub(v) for v in o]
    if isinstance(o, str):
        return norm(o)
    return o


def dump_tree(root: str) -> None:
    if not os.path.exists(root):
        say("  (no", root + ")")
        return
    runs = {}
    for base, dirs, files in os.walk(root):
        dirs.sort()
        for f in sorted(files):
            path = os.path.join(base, f)
            m = RUN.search(path)
            label = path
            if m:
                runs.setdefault(m.group(0), f"<run{len(runs) + 1}>")
            say("  file:", RUN.sub(lambda mm: runs.get(mm.group(0), "<run?>"), path))
            with open(path, "r", encoding="utf-8") as fh:
                text = fh.read()
            if f.endswith(".json"):
                try:
                    j = scrub(json.loads(text))
                    text = json.dumps(j, indent=1, sort_keys=False)
                except Exception as e:  # pylint: disable=W0718
                    text = f"(unparsable json {exc(e)}) " + text
            for line in text.split("\n"):
                say("    |", line)


def results_summary(cp: CsvPaths, name: str) -> None:
    try:
        rs = cp.results_manager.get_named_results(name)
    except Exception as e:  # pylint: disable=W0718
        say("  get_named_results raised", exc(e))
        return
    for r in rs or []:
        p = r.csvpath
        try:
            lines = r.lines
            if lines is not None and not isinstance(lines, list):
                lines = list(lines.next())
        except Exception as e:  # pylint: disable=W0718
            lines = "raised " + exc(e)
        try:
            um = r.unmatched
            if um is not None and not isinstance(um, list):
                um = list(um.next())
        except Exception as e:  # pylint: disable=W0718
            um = "raised " + exc(e)
        say("  result:", repr(p.identity), "valid", r.is_valid, "lines", lines)
        say("    unmatched:", um)
        say("    printouts:", repr(r.printouts if hasattr(r, "printouts") else None))
        say("    errors:", [(e.line_count, getattr(e, "message", None)) for e in (r.errors or [])])
        say("    variables:", repr(r.variables))
        describe(p, full=True)


GROUP = [
    "$[*][yes()]",
    "~ id: two unmatched-mode: keep ~ $[*][#a==\"4\" print(\"two sees $.headers.a\")]",
    "~ id: three return-mode: no-matches unmatched-mode: keep print-mode: no-default ~ $[*][#a==\"4\" print(\"three sees $.headers.a\")]",
    "~ id: four run-mode: no-run unmatched-mode: keep ~ $[*][print(\"four never runs\")]",
    "~ some free text, then id: five logic-mode: OR files-mode: all ~ $[1*][#a==\"1\" #b==\"8\" @f.onmatch = count()]",
    "~ id: seven unmatched-mode: keep return-mode: no-matches ~ $[2-3][no()]",
    "~ id: six unmatched-mode: keep ~ $[*][#a==\"7\" collect(\"a\")]",
]


def group_section() -> None:
    say("=" * 20, "D. CsvPaths")
    n = 0
    for method in ("collect_paths", "fast_forward_paths", "next_paths", "collect_by_line", "fast_forward_by_line", "next_by_line"):
        for file in ("plain.csv", "ragged.csv", "lastblank.csv"):
            n += 1
            name = f"g{n}"
            say("-" * 10, method, file, name)
            cp = CsvPaths()
            cp.file_manager.add_named_file(name="f", path=file)
            cp.paths_manager.add_named_paths(name=name, paths=GROUP)
            with captured() as buf:
                try:
                    m = getattr(cp, method)
                    if method.startswith("next_paths"):
                        ret = [line[:] for line in m(filename="f", pathsname=name)]
                    elif method == "next_by_line":
                        ret = [line[:] for line in m(filename="f", pathsname=name, collect=True)]
                    else:
                        ret = m(filename="f", pathsname=name)
                except Exception as e:  # pylint: disable=W0718
                    ret = "raised " + exc(e)
            say("  returned:", repr(ret))
            say("  stdout:", repr(buf.getvalue()))
            results_summary(cp, name)
            dump_tree(os.path.join("archive", name))
    say("-" * 10, "error cases in a group")
    for i, paths in enumerate(
        [
            ["~ id: bad return-mode: bogus ~ $[*][yes()]", "~ id: ok ~ $[*][yes()]"],
            ["~ id: ok unmatched-mode: keep ~ $[*][#a==\"4\"]", "~ id: bad run-mode: bogus ~ $[*][yes()]"],
            ["~ id: v unmatched-mode: keep validation-mode: print, no-raise ~ $[*][add(\"a\", #a) #a==\"4\"]"],
            ["~ id: dbl :: colon ~ $[*][yes()]"],
        ]
    ):
        name = f"e{i}"
        say("-" * 10, name, paths)
        cp = CsvPaths()
        cp.file_manager.add_named_file(name="f", path="plain.csv")
        with captured() as buf:
            try:
                cp.paths_manager.add_named_paths(name=name, paths=paths)
                ret = cp.collect_paths(filename="f", pathsname=name)
            except Exception as e:  # pylint: disable=W0718
                ret = "raised " + exc(e)
        say("  returned:", repr(ret))
        say("  stdout:", repr(buf.getvalue()))
        results_summary(cp, name)
        dump_tree(os.path.join("archive", name))
    say("-" * 10, "repeated runs of one group")
    cp = CsvPaths()
    cp.file_manager.add_named_file(name="f", path="ragged.csv")
    cp.paths_manager.add_named_paths(name="rep", paths=GROUP[1:3])
    for _ in range(2):
        with captured() as buf:
            cp.collect_paths(filename="f", pathsname="rep")
        say("  stdout:", repr(buf.getvalue()))
        results_summary(cp, "rep")
    dump_tree(os.path.join("archive", "rep"))


def main() -> None:
    say("focus:", FOCUS)
    parser_section()
    combos_section()
    edge_section()
    if FOCUS.startswith("t3"):
        line_disposition_section()
    group_section()
    say("done")


main()
