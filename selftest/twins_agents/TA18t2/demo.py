#!/usr/bin/env python
"""Differential demonstration for property C18:
   "A run that aborts still leaves a truthful, readable record".

Usage (cwd must be an empty scratch directory, never the worktree):

    cd /tmp/demo_dir && PYTHONPATH=<csvpath source tree> python demo.py > out.txt

The script is self-contained: it creates its own offline config/config.ini in
every scenario directory below ./work, builds the data files and named-paths
groups it needs, runs them with every CsvPaths run method, aborts the runs at
many (member, line) points and prints a deterministic transcript of everything
observable: the exception that reaches the caller, lines returned, the state of
every in-memory Result, and the full (normalised) contents of ./archive and of
the named-files / named-paths stores, followed by a further run on the same
CsvPaths instance.

Normalised: run directory timestamps, other timestamps, uuids, object
addresses, the line numbers inside python tracebacks (these move whenever a
source file is edited), and the fingerprints of files whose contents contain
timestamps (replaced by a check against the real sha256 of the file on disk).
"""
import os
import sys
import re
import json
import shutil
import hashlib
import io
import contextlib

if os.environ.get("PYTHONHASHSEED") != "0":
    # lark's parse errors list the expected tokens in set order. pin the hash
    # seed so that the transcript is the same from one process to the next
    os.environ["PYTHONHASHSEED"] = "0"
    os.execv(sys.executable, [sys.executable] + sys.argv)

from csvpath import CsvPaths, CsvPath  # noqa: E402

CONFIG = """[csvpath_files]
extensions = txt, csvpath, csvpaths

[csv_files]
extensions = txt, csv, tsv, dat, tab, psv, ssv

[errors]
csvpath = {csvpath_policy}
csvpaths = {csvpaths_policy}

[logging]
csvpath = info
csvpaths = info
log_file = logs/csvpath.log
log_files_to_keep = 100
log_file_size = 52428800

[config]
path = config/config.ini

[cache]
path = cache

[listeners]
[marquez]
base_url = http://localhost:5000

[functions]
imports = config/functions.imports

[results]
archive = archive
transfers = transfers

[inputs]
files = inputs/named_files
csvpaths = inputs/named_paths
on_unmatched_file_fingerprints = halt
"""

DEFAULT_CSVPATH_POLICY = "raise, collect, stop, fail, print"
DEFAULT_CSVPATHS_POLICY = "raise, collect"

TOP = os.getcwd()
WORK = os.path.join(TOP, "work")

OUT = sys.stdout


def emit(s=""):
    OUT.write(f"{s}\n")


# --------------------------------------------------------------------------
# normalisation
# --------------------------------------------------------------------------

RUN_DIR_RE = re.compile(r"\d{4}-\d\d-\d\d_\d\d-\d\d-\d\d(?:\.\d+)?")
RUN_CTX_RE = re.compile(r"([A-Za-z0-9_\-]+/)?(" + RUN_DIR_RE.pattern + ")")
UUID_RE = re.compile(
    r"[0-9a-f]{8}-[0-9a-f]{4}-[0-9a-f]{4}-[0-9a-f]{4}-[0-9a-f]{12}", re.I
)
TS_RE = re.compile(r"\d{4}-\d\d-\d\d[ T]\d\d:\d\d:\d\d(?:\.\d+)?(?:\+00:00|Z)?")
CTIME_RE = re.compile(
    r"(?:Mon|Tue|Wed|Thu|Fri|Sat|Sun) (?:Jan|Feb|Mar|Apr|May|Jun|Jul|Aug|Sep|Oct|Nov|Dec) [ \d]\d \d\d:\d\d:\d\d \d{4}"
)
ADDR_RE = re.compile(r"0x[0-9a-fA-F]+")
TB_LINE_RE = re.compile(r"line \d+, in ")


def run_dir_key(name):
    t, dot, n = name.partition(".")
    return (t, int(n) if dot else -1)


class Norm:
    """maps run dir names to RUN0, RUN1... in run order; scrubs volatile text"""

    def __init__(self, scenario_dir):
        self.scenario_dir = scenario_dir
        self.run_map = {}
        self.keep_traces = False

    def learn_run_dirs(self):
        archive = os.path.join(self.scenario_dir, "archive")
        if not os.path.exists(archive):
            return
        for paths_name in sorted(os.listdir(archive)):
            d = os.path.join(archive, paths_name)
            if not os.path.isdir(d):
                continue
            names = [n for n in os.listdir(d) if RUN_DIR_RE.fullmatch(n)]
            for i, n in enumerate(sorted(names, key=run_dir_key)):
                # the same dir name may be used under two named-paths names. they
                # get the same ordinal only if they sort the same, so qualify
                self.run_map.setdefault((paths_name, n), f"RUN{i}")

    def text(self, s, paths_name=None):
        if s is None:
            return s
        s = f"{s}"

        def _run(m):
            n = m.group(2)
            lead = m.group(1) or ""
            # a run dir name is most reliably resolved by the dir it is under
            if lead and (lead[:-1], n) in self.run_map:
                return lead + self.run_map[(lead[:-1], n)]
            return lead + _run_name(n)

        def _run_name(n):
            if paths_name is not None and (paths_name, n) in self.run_map:
                return self.run_map[(paths_name, n)]
            hits = sorted({v for (p, k), v in self.run_map.items() if k == n})
            if len(hits) == 1:
                return hits[0]
            if len(hits) > 1:
                return "RUN?"
            return "RUNDIRTIME"

        s = s.replace(self.scenario_dir, "<SCN>")
        s = s.replace(TOP, "<TOP>")
        s = RUN_CTX_RE.sub(_run, s)
        s = UUID_RE.sub("<UUID>", s)
        s = TS_RE.sub("<TS>", s)
        s = CTIME_RE.sub("<CTIME>", s)
        s = ADDR_RE.sub("0xX", s)
        s = TB_LINE_RE.sub("line N, in ", s)
        return s

    def obj(self, o, paths_name=None):
        if isinstance(o, dict):
            return {
                self.text(k, paths_name): (
                    "<ELAPSED>"
                    if k in ("lines_time", "last_line_time")
                    and isinstance(v, (int, float))
                    and not isinstance(v, bool)
                    else self.obj(v, paths_name)
                )
                for k, v in o.items()
            }
        if isinstance(o, (list, tuple)):
            return [self.obj(v, paths_name) for v in o]
        if isinstance(o, str):
            return self.text(o, paths_name)
        return o


def sha256_file(path):
    with open(path, "rb") as f:
        return hashlib.sha256(f.read()).hexdigest()


# --------------------------------------------------------------------------
# dumping
# --------------------------------------------------------------------------


def dump_json_file(path, norm, paths_name, indent, full=True):
    try:
        with open(path, "r", encoding="utf-8") as f:
            raw = f.read()
        data = json.loads(raw)
    except Exception as e:  # unreadable == finding, show it
        emit(f"{indent}!! UNREADABLE JSON: {type(e).__name__}: {e}")
        return
    base = os.path.basename(path)
    d = os.path.dirname(path)
    if base == "manifest.json" and isinstance(data, dict):
        fps = data.get("file_fingerprints")
        if isinstance(fps, dict):
            checked = {}
            for k, v in fps.items():
                p = os.path.join(d, k)
                if not os.path.exists(p):
                    checked[k] = "fingerprint of a file that does not exist"
                elif sha256_file(p) == v:
                    checked[k] = "sha256 matches file on disk"
                else:
                    checked[k] = "sha256 DOES NOT match file on disk"
            data["file_fingerprints"] = checked
        # "run" is the run's start time as a dir name, without the .N suffix a
        # run dir gets when another run started in the same second. whether two
        # runs share a second is timing, not behaviour, so show the relation only
        if isinstance(data.get("run"), str) and isinstance(data.get("run_home"), str):
            home = os.path.basename(data["run_home"])
            if data["run"] in (home, home.partition(".")[0]):
                data["run"] = "<name of run_home, with or without its .N suffix>"
    data = norm.obj(data, paths_name)
    if base == "errors.json" and isinstance(data, list) and not norm.keep_traces:
        # the python traceback text is long. outside the scenarios that keep it
        # verbatim it is shown as a digest of the normalised text + its last line
        for e in data:
            if isinstance(e, dict) and isinstance(e.get("trace"), str):
                t = e["trace"]
                last = t.strip().split("\n")[-1]
                e["trace"] = f"<{len(t)} chars sha256 {hashlib.sha256(t.encode()).hexdigest()[:16]} ending: {last}>"
    if not full:
        txt = json.dumps(data, sort_keys=False)
        emit(f"{indent}normalised json sha256 {hashlib.sha256(txt.encode()).hexdigest()[:16]}")
        if base == "errors.json" and isinstance(data, list):
            for e in data:
                emit(
                    f"{indent}error line_count={e.get('line_count')!r} match_count={e.get('match_count')!r}"
                    f" scan_count={e.get('scan_count')!r} error={e.get('error')!r}"
                )
        elif base == "manifest.json" and isinstance(data, dict):
            keys = [
                "status", "all_completed", "all_valid", "error_count", "all_expected_files",
                "completed", "valid", "files_expected", "file_count", "serial",
            ]
            emit(f"{indent}" + " ".join(f"{k}={data[k]!r}" for k in keys if k in data))
        elif base == "vars.json":
            emit(f"{indent}{txt}")
        return
    txt = json.dumps(data, indent=1, sort_keys=False)
    for line in txt.split("\n"):
        emit(f"{indent}{line}")


def dump_text_file(path, norm, paths_name, indent, full=True):
    with open(path, "r", encoding="utf-8", newline="") as f:
        raw = f.read()
    emit(f"{indent}{len(raw)} chars, sha256 {hashlib.sha256(raw.encode()).hexdigest()[:16]}")
    if not full:
        return
    for line in raw.split("\n"):
        emit(f"{indent}|{norm.text(line, paths_name)!r}")


def dump_tree(root, norm, *, contents=True):
    """lists every dir and file under root with normalised names + contents.
    contents: True == full normalised contents; "digest" == a digest of the
    normalised contents plus the fields the property talks about; False == names"""
    if not os.path.exists(root):
        emit(f"  <no {os.path.relpath(root, norm.scenario_dir)} dir>")
        return
    entries = []
    for dirpath, dirnames, filenames in os.walk(root):
        rel = os.path.relpath(dirpath, norm.scenario_dir)
        parts = rel.split(os.sep)
        paths_name = parts[1] if len(parts) > 1 and parts[0] == "archive" else None
        nrel = norm.text(rel, paths_name)
        entries.append((nrel, rel, dirpath, None, paths_name))
        for fn in filenames:
            entries.append(
                (os.path.join(nrel, fn), os.path.join(rel, fn), dirpath, fn, paths_name)
            )
    for nrel, rel, dirpath, fn, paths_name in sorted(entries, key=lambda e: e[0]):
        if fn is None:
            emit(f"  DIR  {nrel}/")
            continue
        path = os.path.join(dirpath, fn)
        emit(f"  FILE {nrel}")
        if not contents:
            continue
        full = contents != "digest"
        if fn.endswith(".json"):
            dump_json_file(path, norm, paths_name, "      ", full)
        else:
            dump_text_file(path, norm, paths_name, "      ", full)


def tree_digest(root):
    """raw digest of names+bytes under root. used to show the stores are unchanged"""
    h = hashlib.sha256()
    n = 0
    if not os.path.exists(root):
        return (0, "absent")
    for dirpath, dirnames, filenames in sorted(os.walk(root)):
        dirnames.sort()
        h.update(os.path.relpath(dirpath, root).encode())
        for fn in sorted(filenames):
            n += 1
            h.update(fn.encode())
            with open(os.path.join(dirpath, fn), "rb") as f:
                h.update(f.read())
    return (n, h.hexdigest())


def describe_exception(e, norm):
    if e is None:
        return "none"
    chain = []
    seen = set()
    x = e
    while x is not None and id(x) not in seen:
        seen.add(id(x))
        chain.append(f"{type(x).__module__}.{type(x).__name__}: {norm.text(x)}")
        x = x.__cause__
    ctx = e.__context__
    ctx = "none" if ctx is None else f"{type(ctx).__name__} (is cause: {ctx is e.__cause__})"
    return " <-cause- ".join(chain) + f" [context: {ctx}; suppress_context: {e.__suppress_context__}]"


def describe_error(err, norm):
    j = err.to_json()
    j = norm.obj(j)
    trace = j.get("trace")
    j["trace"] = None if trace is None else hashlib.sha256(trace.encode()).hexdigest()[:12]
    js = j.get("json")
    j["json"] = None if js is None else hashlib.sha256(js.encode()).hexdigest()[:12]
    j["exception_class"] = getattr(err, "exception_class", None)
    return json.dumps(j)


def dump_results(cp, pathsname, norm):
    try:
        results = cp.results_manager.get_named_results(pathsname)
    except Exception as e:
        emit(f"  in-memory results: {type(e).__name__}")
        return
    emit(f"  in-memory results: {len(results)}")
    for r in results:
        c = r.csvpath
        lm = c.line_monitor
        emit(
            f"   - result {r.identity_or_index!r} run_index={r.run_index} by_line={r.by_line}"
            f" valid={r.is_valid} csvpath.is_valid={c.is_valid} stopped={c.stopped}"
            f" completed={c.completed} errors={r.errors_count} has_errors={r.has_errors()}"
            f" match_count={c.match_count} scan_count={c.scan_count}"
            f" physical_line_number={lm.physical_line_number if lm else None}"
            f" run_dir={norm.text(r.run_dir, pathsname)}"
        )
        emit(f"     variables: {json.dumps(norm.obj(c.variables), sort_keys=True, default=str)}")
        emit(f"     metadata: {json.dumps(norm.obj(c.metadata), sort_keys=True, default=str)}")
        emit(f"     printouts: {json.dumps(norm.obj(r.get_printouts()), sort_keys=True)}")
        emit(f"     unmatched: {json.dumps(r.unmatched)}")
        try:
            ls = r.lines
            if isinstance(ls, list):
                emit(f"     lines(list): {json.dumps(ls)}")
            else:
                emit(
                    f"     lines({type(ls).__name__}) closed={ls.closed} len={len(ls)}"
                    f" read-back={json.dumps(list(ls.next()))}"
                )
        except Exception as e:
            emit(f"     lines: !! {type(e).__name__}: {norm.text(e)}")
        for err in r.errors:
            emit(f"     error: {describe_error(err, norm)}")
    rm = cp.results_manager
    for label, fn in [
        ("is_valid", rm.is_valid),
        ("has_errors", rm.has_errors),
        ("get_number_of_errors", rm.get_number_of_errors),
        ("get_number_of_results", rm.get_number_of_results),
        ("has_lines", rm.has_lines),
        ("get_variables", rm.get_variables),
    ]:
        try:
            v = fn(pathsname)
            emit(f"  results_manager.{label}: {json.dumps(norm.obj(v), sort_keys=True, default=str)}")
        except Exception as e:
            emit(f"  results_manager.{label}: !! {type(e).__name__}: {norm.text(e)}")
    emit(f"  csvpaths.errors: {[describe_error(e, norm) for e in cp.errors]}")
    emit(
        "  coordination after run:"
        f" stop_all={cp._stop_all} fail_all={cp._fail_all} skip_all={cp._skip_all}"
        f" advance_all={cp._advance_all}"
    )


# --------------------------------------------------------------------------
# scenario plumbing
# --------------------------------------------------------------------------

SERIAL = ["collect_paths", "fast_forward_paths", "next_paths", "next_paths_collect"]
BREADTH = [
    "collect_by_line",
    "fast_forward_by_line",
    "next_by_line",
    "next_by_line_collect",
    "collect_by_line_all_agree",
    "next_by_line_collect_unmatched",
]
ALL_METHODS = SERIAL + BREADTH


def run_method(cp, method, pathsname, filename):
    """returns (lines returned to the caller, exception that reached the caller)"""
    got = []
    try:
        if method == "collect_paths":
            r = cp.collect_paths(pathsname=pathsname, filename=filename)
            got.append(("return", r))
        elif method == "fast_forward_paths":
            r = cp.fast_forward_paths(pathsname=pathsname, filename=filename)
            got.append(("return", r))
        elif method == "next_paths":
            for line in cp.next_paths(pathsname=pathsname, filename=filename):
                got.append(list(line))
        elif method == "next_paths_collect":
            for line in cp.next_paths(
                pathsname=pathsname, filename=filename, collect=True
            ):
                got.append(list(line))
        elif method == "collect_by_line":
            r = cp.collect_by_line(pathsname=pathsname, filename=filename)
            got.append(("return", r))
        elif method == "collect_by_line_all_agree":
            r = cp.collect_by_line(
                pathsname=pathsname, filename=filename, if_all_agree=True
            )
            got.append(("return", r))
        elif method == "fast_forward_by_line":
            r = cp.fast_forward_by_line(pathsname=pathsname, filename=filename)
            got.append(("return", r))
        elif method == "next_by_line":
            for line in cp.next_by_line(pathsname=pathsname, filename=filename):
                got.append(list(line))
        elif method == "next_by_line_collect":
            for line in cp.next_by_line(
                pathsname=pathsname, filename=filename, collect=True
            ):
                got.append(list(line))
        elif method == "next_by_line_collect_unmatched":
            for line in cp.next_by_line(
                pathsname=pathsname,
                filename=filename,
                collect=True,
                collect_when_not_matched=True,
            ):
                got.append(list(line))
        else:
            raise ValueError(method)
    except Exception as e:  # pylint: disable=W0718
        return got, e
    return got, None


_scn_count = [0]


def new_scenario_dir(
    csvpath_policy=DEFAULT_CSVPATH_POLICY, csvpaths_policy=DEFAULT_CSVPATHS_POLICY
):
    _scn_count[0] += 1
    d = os.path.join(WORK, f"s{_scn_count[0]:04d}")
    os.makedirs(os.path.join(d, "config"))
    with open(os.path.join(d, "config", "config.ini"), "w", encoding="utf-8") as f:
        f.write(
            CONFIG.format(
                csvpath_policy=csvpath_policy, csvpaths_policy=csvpaths_policy
            )
        )
    with open(os.path.join(d, "config", "functions.imports"), "w") as f:
        f.write("")
    os.chdir(d)
    return d


def write_file(name, rows_text):
    with open(name, "w", encoding="utf-8", newline="") as f:
        f.write(rows_text)


def scenario(
    title,
    *,
    data,
    paths,
    methods,
    followups=("collect_paths",),
    csvpath_policy=DEFAULT_CSVPATH_POLICY,
    csvpaths_policy=DEFAULT_CSVPATHS_POLICY,
    contents=True,
    csvpaths_kwargs=None,
    keep_traces=False,
):
    """one scenario per method: fresh dir, fresh CsvPaths, first run (may
    abort), then the follow-up run(s) on the same instance"""
    for method in methods:
        d = new_scenario_dir(csvpath_policy, csvpaths_policy)
        norm = Norm(d)
        norm.keep_traces = keep_traces
        emit("=" * 100)
        emit(f"SCENARIO {title} :: {method}")
        emit(f"  policies: csvpath=[{csvpath_policy}] csvpaths=[{csvpaths_policy}]")
        emit(f"  data: {data!r}")
        for i, p in enumerate(paths):
            emit(f"  path[{i}]: {p}")
        write_file("data.csv", data)
        cp = CsvPaths(**(csvpaths_kwargs or {}))
        cp.file_manager.add_named_file(name="food", path="data.csv")
        cp.paths_manager.add_named_paths(name="grp", paths=list(paths))
        files_before = tree_digest(os.path.join(d, "inputs", "named_files"))
        paths_before = tree_digest(os.path.join(d, "inputs", "named_paths"))
        runs = [method] + list(followups)
        for n, m in enumerate(runs):
            emit("-" * 60)
            emit(f" RUN {n} using {m}")
            emit("  >>> stdout of the run")
            got, ex = run_method(cp, m, "grp", "food")
            emit("  <<< end stdout of the run")
            norm.learn_run_dirs()
            emit(f"  exception reaching caller: {describe_exception(ex, norm)}")
            emit(f"  returned/yielded ({len(got)}): {json.dumps(got, default=str)}")
            dump_results(cp, "grp", norm)
            fa = tree_digest(os.path.join(d, "inputs", "named_files"))
            pa = tree_digest(os.path.join(d, "inputs", "named_paths"))
            emit(
                f"  named-files store unchanged: {fa == files_before} ({fa[0]} files);"
                f" named-paths store unchanged: {pa == paths_before} ({pa[0]} files)"
            )
            emit("  archive now:")
            dump_tree(os.path.join(d, "archive"), norm, contents=contents)
            tr = os.path.join(d, "transfers")
            if os.path.exists(tr):
                emit("  transfers now:")
                dump_tree(tr, norm, contents=contents)
        emit("  inputs at end:")
        dump_tree(os.path.join(d, "inputs"), norm, contents="digest")
        os.chdir(TOP)


# --------------------------------------------------------------------------
# data + csvpaths
# --------------------------------------------------------------------------


def make_data(bad_line, *, n_lines=8, kind="plain"):
    """n_lines physical lines (line 0 is the header). int(#a) fails on the
    physical line bad_line (None == never)."""
    rows = ["a,b,c"]
    for i in range(1, n_lines):
        a = "oops" if i == bad_line else f"{i - 1}"  # line 1 has a == 0
        b = ["x", "", "y", "x", "z", "", "x"][(i - 1) % 7]
        row = f"{a},{b},c{i}"
        if kind == "ragged":
            if i % 3 == 0:
                row = f"{a},{b}"  # short row
            elif i % 3 == 1:
                row = f"{a},{b},c{i},extra,,"  # long row with empties
        rows.append(row)
    if kind == "blanks" and n_lines > 3:
        # put blank lines in: they are physical lines, so the bad value moves
        out = []
        for i, r in enumerate(rows):
            out.append(r)
            if i in (1, 3):
                out.append("")
        rows = out
    if kind == "quoted":
        rows = [r.replace(",x,", ',"x,1",') for r in rows]
    return "\n".join(rows) + "\n"


BOOM = '~id:boom~ $[1*][ push("seen", #b) @n = int(#a) @after = line_number() print("boom saw line $.csvpath.line_number a=$.headers.a") ]'
BOOM_NOID = '$[1*][ @n = int(#a) print("noid $.csvpath.line_number") ]'
FILLERS = [
    '~id:alpha~ $[*][ @rows = count_lines() yes() ]',
    '~name:beta~ $[1*][ #b == "x" @hits = count() print("beta hit at $.csvpath.line_number") ]',
    '~id:gamma unmatched-mode:keep~ $[*][ #b == "x" ]',
    '~id:delta~ $[2-4][ @last = #a ]',
]


def group(size, boom_at, *, boom=BOOM):
    """size members, the aborting one at index boom_at (None == no aborter)"""
    fill = list(FILLERS)
    out = []
    for i in range(size):
        if i == boom_at:
            out.append(boom)
        else:
            out.append(fill.pop(0))
    return out


# --------------------------------------------------------------------------
# main
# --------------------------------------------------------------------------


def main():
    if os.path.exists(WORK):
        shutil.rmtree(WORK)
    os.makedirs(WORK)

    # ---- A. fully dumped scenarios: every method, 3 members, abort in the middle
    scenario(
        "A1 abort at member 1 of 3, line 3",
        data=make_data(3, n_lines=6),
        paths=group(3, 1),
        methods=ALL_METHODS,
        keep_traces=True,
    )
    # ---- A2. no abort at all (baseline: complete run, all methods), with blanks
    scenario(
        "A2 no abort, blank lines in file",
        data=make_data(None, n_lines=6, kind="blanks"),
        paths=group(3, 1),
        methods=ALL_METHODS,
        followups=(),
    )

    # ---- B. sweep of (group size, member index, line). every archive file is
    #         shown as a digest of its normalised contents + its key fields
    for size in (1, 2, 3, 4):
        for boom_at in range(size):
            for bad_line in (1, 4, 7):
                scenario(
                    f"B sweep size={size} boom_at={boom_at} bad_line={bad_line}",
                    data=make_data(bad_line, n_lines=8),
                    paths=group(size, boom_at),
                    methods=[
                        "collect_paths",
                        "fast_forward_paths",
                        "next_paths_collect",
                        "collect_by_line",
                        "fast_forward_by_line",
                    ],
                    followups=("fast_forward_paths",)
                    if (size + boom_at + bad_line) % 2
                    else ("collect_by_line",),
                    contents="digest",
                )

    # ---- C. edge-case files
    scenario(
        "C1 ragged rows, abort on last line",
        data=make_data(7, n_lines=8, kind="ragged"),
        paths=group(2, 1),
        methods=["collect_paths", "next_paths_collect", "next_by_line_collect"],
    )
    scenario(
        "C2 blank lines, abort after blanks",
        data=make_data(3, n_lines=6, kind="blanks"),
        paths=group(2, 0),
        methods=["collect_paths", "fast_forward_paths", "collect_by_line"],
    )
    scenario(
        "C3 blank lines kept (skip_blank_lines=False)",
        data=make_data(3, n_lines=6, kind="blanks"),
        paths=group(2, 1),
        methods=["collect_paths", "collect_by_line"],
        csvpaths_kwargs={"skip_blank_lines": False},
    )
    scenario(
        "C4 header-only file (abort impossible, nothing to scan from line 1)",
        data="a,b,c\n",
        paths=group(2, 1),
        methods=["collect_paths", "fast_forward_paths", "next_paths", "collect_by_line"],
    )
    scenario(
        "C5 two line file, abort on line 1 (value zero precedes nothing)",
        data=make_data(1, n_lines=2),
        paths=group(2, 1),
        methods=["collect_paths", "next_paths_collect", "fast_forward_by_line"],
    )
    scenario(
        "C6 quoted values with embedded delimiter",
        data=make_data(4, n_lines=6, kind="quoted"),
        paths=group(3, 2),
        methods=["collect_paths", "next_by_line_collect"],
    )
    scenario(
        "C7 abort on the header line itself (scan from 0)",
        data=make_data(None, n_lines=4),
        paths=[
            FILLERS[0],
            '~id:boom0~ $[*][ @n = int(#a) ]',
            FILLERS[1],
        ],
        methods=["collect_paths", "fast_forward_paths", "next_paths", "collect_by_line"],
    )
    scenario(
        "C8 aborting member without an identity (index used as dir name)",
        data=make_data(2, n_lines=5),
        paths=group(3, 1, boom=BOOM_NOID),
        methods=["collect_paths", "fast_forward_paths", "next_by_line"],
    )

    # ---- D. other ways to fail
    scenario(
        "D1 member that does not parse",
        data=make_data(None, n_lines=4),
        paths=[FILLERS[0], "~id:broken~ $[*][ yes( ]", FILLERS[1]],
        methods=["collect_paths", "fast_forward_paths", "next_paths", "collect_by_line"],
    )
    scenario(
        "D2 unknown function name",
        data=make_data(None, n_lines=4),
        paths=[FILLERS[0], "~id:nofunc~ $[*][ nosuchfunction() ]"],
        methods=["collect_paths", "next_paths_collect", "fast_forward_by_line"],
    )
    scenario(
        "D3 errors collected but not raised (no abort), run completes",
        data=make_data(3, n_lines=6),
        paths=group(3, 1),
        methods=ALL_METHODS,
        csvpath_policy="collect, print",
        csvpaths_policy="collect",
        followups=(),
    )
    scenario(
        "D4 config says no raise; the member's validation-mode turns raise on",
        data=make_data(2, n_lines=5),
        paths=[
            FILLERS[0],
            '~id:modal validation-mode:raise, no-print, no-stop~ $[1*][ @n = int(#a) ]',
            FILLERS[1],
        ],
        methods=["collect_paths", "fast_forward_paths", "collect_by_line"],
        csvpath_policy="collect, print, fail",
        csvpaths_policy="collect",
    )
    scenario(
        "D5 config says raise; the member's validation-mode turns raise off",
        data=make_data(2, n_lines=5),
        paths=[
            FILLERS[0],
            '~id:modal validation-mode:no-raise, no-print, no-stop, no-fail~ $[1*][ @n = int(#a) ]',
            FILLERS[1],
        ],
        methods=["collect_paths", "next_paths_collect", "collect_by_line"],
    )
    scenario(
        "D6 quiet policy with raise",
        data=make_data(2, n_lines=5),
        paths=group(2, 0),
        methods=["collect_paths", "next_by_line_collect"],
        csvpath_policy="raise, quiet, collect",
    )
    scenario(
        "D7 raise without collect: the aborting error is not collected",
        data=make_data(2, n_lines=5),
        paths=group(2, 1),
        methods=["collect_paths", "fast_forward_paths", "collect_by_line"],
        csvpath_policy="raise, print",
        csvpaths_policy="raise",
    )
    scenario(
        "D8 two aborters: only the first one is reached",
        data=make_data(2, n_lines=6),
        paths=[
            BOOM,
            FILLERS[0],
            '~id:boom2~ $[1*][ @m = int(#a) ]',
        ],
        methods=["collect_paths", "next_paths", "collect_by_line", "fast_forward_by_line"],
    )

    # ---- E. run coordination + by_line options (exercise next_by_line end to end)
    scenario(
        "E1 stop_all / fail_all / skip_all / advance_all without abort",
        data=make_data(None, n_lines=8),
        paths=[
            '~id:skipper~ $[*][ line_number() == 2 skip_all() ]',
            '~id:advancer~ $[*][ line_number() == 4 advance_all(1) ]',
            '~id:failer~ $[*][ line_number() == 5 fail_all() ]',
            '~id:stopper~ $[*][ line_number() == 6 stop_all() ]',
            '~id:counter~ $[*][ @c = count_lines() yes() ]',
        ],
        methods=[
            "collect_by_line",
            "next_by_line_collect",
            "collect_by_line_all_agree",
            "next_paths_collect",
            "collect_paths",
        ],
    )
    scenario(
        "E2 every member stops itself early (by_line loop breaks), then abort never happens",
        data=make_data(6, n_lines=8),
        paths=[
            '~id:s1~ $[*][ line_number() == 2 stop() ]',
            '~id:s2~ $[*][ line_number() == 3 stop() ]',
        ],
        methods=["collect_by_line", "fast_forward_by_line", "next_by_line_collect"],
    )
    scenario(
        "E3 abort while fail_all and skip_all have been signalled",
        data=make_data(4, n_lines=7),
        paths=[
            '~id:failer~ $[*][ line_number() == 1 fail_all() ]',
            '~id:skipper~ $[*][ line_number() == 2 skip_all() ]',
            BOOM,
            FILLERS[0],
        ],
        methods=["collect_by_line", "next_by_line_collect_unmatched", "collect_paths"],
    )
    scenario(
        "E4 all agree / unmatched collection with an abort",
        data=make_data(5, n_lines=7),
        paths=[FILLERS[2], BOOM, FILLERS[1]],
        methods=[
            "collect_by_line_all_agree",
            "next_by_line_collect_unmatched",
            "next_by_line_collect",
        ],
    )

    # ---- F. transfers, printouts to named printers, files-mode, source-mode
    scenario(
        "F1 transfer-mode (data only) + named printouts + files-mode, abort in a later member",
        data=make_data(4, n_lines=6),
        paths=[
            '~id:mover transfer-mode:data > dest unmatched-mode:keep files-mode:all~ '
            '$[*][ @dest = "moved/data_copy.csv" #b == "x" '
            'print("to default") print("to other $.csvpath.line_number", "other") ]',
            BOOM,
            FILLERS[0],
        ],
        methods=["collect_paths", "next_paths_collect", "fast_forward_paths", "collect_by_line"],
    )
    scenario(
        "F1b transfer of unmatched.csv (on HEAD the transfer runs before unmatched.csv is written: save fails)",
        data=make_data(4, n_lines=6),
        paths=[
            '~id:mover transfer-mode:data > dest, unmatched > udest unmatched-mode:keep files-mode:all~ '
            '$[*][ @dest = "moved/data_copy.csv" @udest = "moved/unmatched_copy.csv" #b == "x" '
            'print("to default") print("to other $.csvpath.line_number", "other") ]',
            BOOM,
            FILLERS[0],
        ],
        methods=["collect_paths", "next_paths_collect", "collect_by_line"],
    )
    scenario(
        "F2 source-mode preceding chain, abort in the consumer",
        data=make_data(None, n_lines=7),
        paths=[
            '~id:producer~ $[*][ or(line_number() == 0, #b == "x", #a == "4") ]',
            '~id:consumer source-mode:preceding~ $[1*][ @n = int(#b) ]',
            FILLERS[0],
        ],
        methods=["collect_paths", "next_paths_collect", "fast_forward_paths", "collect_by_line"],
    )
    scenario(
        "F3 transfer to a variable that does not exist (save itself fails)",
        data=make_data(None, n_lines=4),
        paths=[
            FILLERS[0],
            '~id:badmove transfer-mode:data > nowhere~ $[*][ yes() ]',
            FILLERS[1],
        ],
        methods=["collect_paths", "fast_forward_paths", "collect_by_line"],
    )

    scenario(
        "F4 the aborting member also has a transfer that cannot be done (the save made while aborting fails)",
        data=make_data(2, n_lines=5),
        paths=[
            FILLERS[0],
            '~id:boomove transfer-mode:data > nowhere~ $[1*][ @n = int(#a) ]',
            FILLERS[1],
        ],
        methods=["collect_paths", "fast_forward_paths", "next_paths_collect", "collect_by_line", "next_by_line"],
    )

    # ---- G. many runs on one instance, alternating aborting and clean files
    d = new_scenario_dir()
    norm = Norm(d)
    emit("=" * 100)
    emit("SCENARIO G repeated runs on one instance, two files, two groups")
    write_file("bad.csv", make_data(3, n_lines=6))
    write_file("good.csv", make_data(None, n_lines=6))
    cp = CsvPaths()
    cp.file_manager.add_named_file(name="bad", path="bad.csv")
    cp.file_manager.add_named_file(name="good", path="good.csv")
    cp.paths_manager.add_named_paths(name="grp", paths=group(3, 1))
    cp.paths_manager.add_named_paths(name="solo", paths=group(1, 0))
    before = (
        tree_digest(os.path.join(d, "inputs", "named_files")),
        tree_digest(os.path.join(d, "inputs", "named_paths")),
    )
    plan = [
        ("collect_paths", "grp", "bad"),
        ("collect_paths", "grp", "good"),
        ("next_by_line_collect", "grp", "bad"),
        ("fast_forward_paths", "solo", "bad"),
        ("next_paths_collect", "grp", "bad"),
        ("collect_by_line", "solo", "good"),
        ("fast_forward_by_line", "grp", "bad"),
        ("collect_paths", "solo", "bad"),
        ("collect_paths", "grp", "good"),
    ]
    for n, (m, pn, fn) in enumerate(plan):
        emit("-" * 60)
        emit(f" RUN {n}: {m} paths={pn} file={fn}")
        emit("  >>> stdout of the run")
        got, ex = run_method(cp, m, pn, fn)
        emit("  <<< end stdout of the run")
        norm.learn_run_dirs()
        emit(f"  exception reaching caller: {describe_exception(ex, norm)}")
        emit(f"  returned/yielded ({len(got)}): {json.dumps(got, default=str)}")
        dump_results(cp, pn, norm)
        after = (
            tree_digest(os.path.join(d, "inputs", "named_files")),
            tree_digest(os.path.join(d, "inputs", "named_paths")),
        )
        emit(f"  stores unchanged: {after == before}")
    emit("  archive at end:")
    dump_tree(os.path.join(d, "archive"), norm, contents=True)
    os.chdir(TOP)

    # ---- H. a caller that abandons next_paths / next_by_line part way (generator
    #         closed, no exception): whatever is on disk is shown
    for m in ("next_paths", "next_by_line"):
        d = new_scenario_dir()
        norm = Norm(d)
        emit("=" * 100)
        emit(f"SCENARIO H caller abandons {m} after 2 lines, then runs again")
        write_file("data.csv", make_data(4, n_lines=6))
        cp = CsvPaths()
        cp.file_manager.add_named_file(name="food", path="data.csv")
        cp.paths_manager.add_named_paths(name="grp", paths=group(2, 1))
        gen = getattr(cp, m)(pathsname="grp", filename="food", collect=True)
        got = []
        for line in gen:
            got.append(list(line))
            if len(got) == 2:
                break
        gen.close()
        norm.learn_run_dirs()
        emit(f"  yielded before close: {json.dumps(got)}")
        dump_results(cp, "grp", norm)
        emit("  archive after abandon:")
        dump_tree(os.path.join(d, "archive"), norm, contents=True)
        got, ex = run_method(cp, "collect_paths", "grp", "food")
        norm.learn_run_dirs()
        emit(f"  next run exception: {describe_exception(ex, norm)}")
        dump_results(cp, "grp", norm)
        emit("  archive after next run:")
        dump_tree(os.path.join(d, "archive"), norm, contents=True)
        os.chdir(TOP)

    # ---- I. ResultsManager / ResultSerializer used directly
    d = new_scenario_dir()
    norm = Norm(d)
    emit("=" * 100)
    emit("SCENARIO I direct use of ResultsManager.save and ResultSerializer helpers")
    from csvpath.managers.results.result_serializer import ResultSerializer
    from csvpath.managers.results.results_manager import ResultsManager

    rs = ResultSerializer("archive")
    for pos in [
        None,
        {},
        {"default": []},
        {"default": None},
        {"default": None, "x": ["a"]},
        {"default": [""]},
        {"a": [], "b": [], "c": ["z"]},
        {"a": (), "b": ""},
        {"a": "s"},
    ]:
        emit(f"  _has_printouts({pos!r}) -> {rs._has_printouts(pos)!r}")
    try:
        rs._has_printouts({"a": 5})
    except Exception as e:
        emit(f"  _has_printouts({{'a': 5}}) !! {type(e).__name__}: {e}")
    try:
        rs._has_printouts({"a": [], "b": 0, "c": ["late"]})
    except Exception as e:
        emit(f"  _has_printouts(int after empty) !! {type(e).__name__}: {e}")
    # _save with each kind of `lines`
    for label, lines, unmatched, printouts in [
        ("none", None, None, None),
        ("empty-list", [], [], {}),
        ("list", [["a", "b"], ["1", ""], []], [["u"]], {"default": ["p1", ""], "o": []}),
        ("tuple-rows", (("a",), ("0",)), None, {"default": None}),
    ]:
        rs._save(
            metadata={"k": label},
            runtime_data={"r": 0},
            errors=[],
            variables={"v": 0, "e": "", "n": None},
            lines=lines,
            printouts=printouts,
            paths_name="direct",
            file_name="f",
            identity=label,
            run_time="T",
            run_dir=os.path.join("archive", "direct", "RUNX"),
            run_index=0,
            unmatched=unmatched,
        )
    emit("  archive after direct _save calls:")
    dump_tree(os.path.join(d, "archive"), norm, contents=True)
    rm = ResultsManager(csvpaths=None)
    try:
        rm.save(None)
    except Exception as e:
        emit(f"  save without csvpaths !! {type(e).__name__}: {e}")
    # save the same result twice, and a result whose lines were replaced by a list
    write_file("data.csv", make_data(None, n_lines=5))
    cp = CsvPaths()
    cp.file_manager.add_named_file(name="food", path="data.csv")
    cp.paths_manager.add_named_paths(name="grp", paths=group(2, None))
    got, ex = run_method(cp, "collect_paths", "grp", "food")
    emit(f"  run exception: {describe_exception(ex, norm)}")
    results = cp.results_manager.get_named_results("grp")
    cp.results_manager.save(results[0])
    cp.results_manager.save(results[0])
    results[1].lines = [["replaced", "", "0"], []]
    cp.results_manager.save(results[1])
    results[1].lines = []
    cp.results_manager.save(results[1])
    norm.learn_run_dirs()
    dump_results(cp, "grp", norm)
    emit("  archive after re-saves:")
    dump_tree(os.path.join(d, "archive"), norm, contents=True)
    os.chdir(TOP)

    # ---- J. standalone CsvPath (no CsvPaths): the same aborting csvpath
    d = new_scenario_dir()
    norm = Norm(d)
    emit("=" * 100)
    emit("SCENARIO J standalone CsvPath with the aborting csvpath")
    write_file("data.csv", make_data(3, n_lines=6, kind="blanks"))
    for how in ("collect", "fast_forward", "next"):
        p = CsvPath()
        p.parse(BOOM.replace("$[", "$data.csv["))
        lines = None
        ex = None
        try:
            if how == "collect":
                lines = p.collect()
            elif how == "fast_forward":
                p.fast_forward()
            else:
                lines = []
                for line in p.next():
                    lines.append(line)
        except Exception as e:
            ex = e
        emit(
            f"  {how}: ex={describe_exception(ex, norm)} lines={json.dumps(lines)}"
            f" vars={json.dumps(p.variables, sort_keys=True)} valid={p.is_valid}"
            f" stopped={p.stopped} completed={p.completed} errors={len(p.errors) if p.errors else 0}"
        )
    os.chdir(TOP)
    emit("=" * 100)
    emit("DONE")


if __name__ == "__main__":
    main()
