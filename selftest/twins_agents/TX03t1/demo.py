"""Differential demo for refactoring t1 (Equality: _Assignment named tuple).

Usage:  PYTHONPATH=<csvpath checkout> /venv/bin/python demo.py > out.txt

The script works in a fresh temporary directory (so cache/, logs/ and the
default config/ are always created from scratch) and prints a deterministic
transcript of everything observable: per-line printouts, collected lines,
variables, counters, validity, errors, explanations and exceptions.
"""
import itertools
import os
import sys
import tempfile
import traceback

WORK = tempfile.mkdtemp(prefix="demo_TXC03_t1_")
os.chdir(WORK)

from csvpath import CsvPath  # noqa: E402
from csvpath.matching.matcher import Matcher  # noqa: E402
from csvpath.matching.productions.equality import Equality  # noqa: E402

FILES = {
    "mixed.csv": "a,b,c\n1,x,10\n2,x,5\n\n3,y\n4,,0\n5,z,7,extra\n6,z,7\n",
    "nums.csv": "n,up,down,flat\n1,1,9,4\n2,2,8,4\n3,3,7,4\n4,2,8,4\n5,0,0,0\n6,,,\n7,5,5,5\n",
    "bools.csv": "id,flag\n1,true\n2,false\n3,\n4,0\n5,1\n6,nope\n7,None\n",
    "headeronly.csv": "a,b,c\n",
    "blanktail.csv": "a,b,c\n1,x,3\n2,y,4\n\n",
    "empty.csv": "",
}
for name, content in FILES.items():
    with open(name, "w", encoding="utf-8") as f:
        f.write(content)


def show_errors(path):
    for e in path.errors or []:
        msg = e.message if e.message is not None else f"{e.error}"
        print(
            f"    error: line={e.line_count} scan={e.scan_count} match={e.match_count} "
            f"class={type(e.error).__name__} msg={msg!r}"
        )


def run(csvpath_str, *, method="collect", again=False):
    print(f"--- {method}: {csvpath_str}")
    path = CsvPath()
    try:
        path.parse(csvpath_str)
        if method == "collect":
            lines = path.collect()
            print(f"    lines: {lines}")
        elif method == "fast_forward":
            path.fast_forward()
        else:
            for line in path.next():
                print(
                    f"    next: {line} vars={path.variables} "
                    f"scan={path.scan_count} match={path.match_count}"
                )
    except Exception as ex:  # pylint: disable=W0718
        print(f"    EXCEPTION {type(ex).__name__}: {ex}")
    print(f"    variables: {path.variables}")
    print(
        f"    scan_count={path.scan_count} match_count={path.match_count} "
        f"valid={path.is_valid} stopped={path.stopped} frozen={path.is_frozen}"
    )
    show_errors(path)
    if again:
        # variables after the run are frozen. setting must be refused, getting
        # a stack gives a tuple.
        path.set_variable("after", value="the fact")
        print(f"    after-run set ignored: {'after' not in path.variables}")
        for k in list(path.variables.keys()):
            print(f"    after-run get {k}: {path.get_variable(k)!r}")
    return path


PRINT = (
    'print("  > ln=$.csvpath.line_number lines=$.csvpath.count_lines '
    "scans=$.csvpath.count_scans matches=$.csvpath.count_matches "
    'x=$.variables.x y=$.variables.y")'
)

#
# 1. every combination of the assignment qualifiers, with and without a
#    tracking value, over several files. the match part has a second
#    component so that onmatch has something to agree with.
#
QUALS = [
    "latch",
    "onchange",
    "onmatch",
    "asbool",
    "nocontrib",
    "notnone",
    "increase",
    "decrease",
]
print("=== SECTION 1: qualifier combinations")
for n in range(0, len(QUALS) + 1):
    for combo in itertools.combinations(QUALS, n):
        q = "".join(f".{c}" for c in combo)
        if n in (0, 1, 2, 8):
            targets = [
                ("nums.csv", "#up", '#flat == "4"'),
                ("mixed.csv", "#b", "#c"),
            ]
        else:
            targets = [("nums.csv", "#down", 'not(#n == "4")')]
        for fname, rhs, other in targets:
            run(f"${fname}[*][ @x{q} = {rhs} {other} {PRINT} ]")
            run(f"${fname}[*][ @x.trk{q} = {rhs} {other} ]")

#
# 2. numeric increase / decrease with ints, zero, None and type clashes
#
print("=== SECTION 2: increase / decrease")
for q in ["increase", "decrease", "increase.nocontrib", "decrease.notnone"]:
    for col in ["up", "down", "flat", "n"]:
        run(f"$nums.csv[*][ @x.{q} = int(#{col}) {PRINT} ]")
        run(f"$nums.csv[1-5][ @x.{q} = #{col} @y = @x ]")
        run(f"$nums.csv[*][ @x.k.{q} = float(#{col}) ]")
# type clash: int then str under increase -> TypeError inside the comparison
run("$nums.csv[*][ @x.increase = int(#n) @x.increase = #up ]")
run("$nums.csv[*][ @x.decrease = int(#n) @x.decrease = #flat ]")
run("$nums.csv[*][ @x = 0 @x.increase = int(#up) @y.decrease = 0 ]")
run('$nums.csv[*][ @x = "" @x.increase = #up @y.increase = none() ]')

#
# 3. count() / has_matches() imply onmatch; assignments depending on earlier
#    components of the same line; when/do; OR logic; return-mode
#
print("=== SECTION 3: dependent assignments, count, when/do, modes")
run(f'$mixed.csv[*][ @x = count() @y = has_matches() #b == "x" {PRINT} ]')
run(f'$mixed.csv[*][ #b == "z" @x = count() @y.onmatch = count_lines() {PRINT} ]')
run(f"$mixed.csv[*][ @x = #a @y = @x @z = add(@y, 1) @w.onchange = @z {PRINT} ]")
run(f"$mixed.csv[*][ @y = @x @x = #a {PRINT} ]")
run(f'$mixed.csv[*][ #b == "x" -> @x = #c  @y.latch = @x {PRINT} ]')
run(f'$mixed.csv[2-5][ @x.latch = line_number() @y.onchange = #b {PRINT} ]')
run(f'~ logic-mode: OR ~ $mixed.csv[*][ @x.onchange = #b #a == "1" {PRINT} ]')
run(f'~ logic-mode: OR ~ $mixed.csv[*][ @x.onmatch = #a #c == "7" @y.latch = #b {PRINT} ]')
run(f'~ logic-mode: OR ~ $nums.csv[*][ @x.increase = int(#up) @y.notnone = #down {PRINT} ]')
run(f'~ return-mode: no-matches ~ $mixed.csv[*][ @x.onchange = #b {PRINT} ]')
run(f"$bools.csv[*][ @x.asbool = #flag {PRINT} ]")
run(f"$bools.csv[*][ @x.asbool.latch = #flag @y.asbool.onchange = #flag {PRINT} ]")
run(f"$bools.csv[*][ @x.f.asbool = #flag @y.notnone = #flag {PRINT} ]")
run(f"$headeronly.csv[*][ @x = #a {PRINT} ]")
run(f"$blanktail.csv[*][ @x.onchange = #b @y.increase = int(#c) {PRINT} ]")
run(f"$empty.csv[*][ @x = #a {PRINT} ]")
run("$nofile.csv[*][ @x = #a ]")
run(f'$mixed.csv[*][ @x = #a skip(#b == "y") @y = #a {PRINT} ]')
run(f'$mixed.csv[*][ @x = #a stop(#a == "3") @y = #a {PRINT} ]')
run(f'$mixed.csv[*][ @x.onmatch = #a last() -> @y = "done" {PRINT} ]')

#
# 4. other ways of running: next(), fast_forward(), repeated runs, frozen
#
print("=== SECTION 4: next / fast_forward / after the run")
run("$mixed.csv[*][ @x.onchange = #b @y.k = #a ]", method="next")
run("$nums.csv[*][ @x.increase = int(#up) @y.latch = #n ]", method="fast_forward", again=True)
run('$mixed.csv[*][ push("st", #a) @x.onmatch = #a #b ]', method="collect", again=True)
for _ in range(2):
    run(f"$nums.csv[1*][ @x.decrease.onmatch = int(#down) @y.up.increase = int(#up) {PRINT} ]")

#
# 5. the assignment implementation called directly, the way the unit tests
#    do, over a grid of flags and values. prints the vote, the variable
#    and the explanation trail.
#
print("=== SECTION 5: _do_assignment_new_impl grid")
VALUES = [None, 0, 1, 2, "", "a", "b", False, True, 1.5, [], [1]]
FLAGS = ["onchange", "latch", "onmatch", "asbool", "nocontrib", "notnone", "increase", "decrease"]
grid = 0
for AND in (True, False):
    path = CsvPath()
    matcher = Matcher(csvpath=path, data="[yes()]")
    matcher.AND = AND
    eq = Equality(matcher=matcher)
    eq.matcher = matcher
    for nflags in (0, 1, 2):
        for on in itertools.combinations(FLAGS, nflags):
            for cur, new in itertools.product(VALUES, VALUES):
                for tracking in (None, "t"):
                    for lm in (True, False):
                        if lm is False and "onmatch" not in on:
                            continue
                        path.variables.clear()
                        matcher.explaination = []
                        if cur is not None:
                            path.set_variable("v", value=cur, tracking=tracking)
                        args = {f: (f in on) for f in FLAGS}
                        args.update(
                            {
                                "noqualifiers": nflags == 0,
                                "count": False,
                                "current_value": cur,
                                "new_value": new,
                                "line_matches": lm,
                            }
                        )
                        try:
                            ret = eq._do_assignment_new_impl(
                                name="v", tracking=tracking, args=args
                            )
                        except Exception as ex:  # pylint: disable=W0718
                            ret = f"EXC {type(ex).__name__}: {ex}"
                        why = [
                            (w.get_action(None), w.get_because(), w.get_result())
                            for w in matcher.explaination
                        ]
                        grid += 1
                        print(
                            f"AND={AND} on={','.join(on)} cur={cur!r} new={new!r} trk={tracking} "
                            f"lm={lm} -> {ret!r} vars={path.variables!r} why={why}"
                        )
print(f"grid cases: {grid}")

# missing keys in args must fail the same way
path = CsvPath()
matcher = Matcher(csvpath=path, data="[yes()]")
eq = Equality(matcher=matcher)
for drop in FLAGS + ["noqualifiers", "new_value", "current_value", "line_matches"]:
    args = {f: False for f in FLAGS}
    args.update({"noqualifiers": True, "count": False, "current_value": 1, "new_value": 2, "line_matches": None})
    del args[drop]
    try:
        r = eq._do_assignment_new_impl(name="v", tracking=None, args=args)
        print(f"drop {drop}: {r} {path.variables}")
    except Exception as ex:  # pylint: disable=W0718
        print(f"drop {drop}: EXC {type(ex).__name__}: {ex} {path.variables}")
# bad names go through to set_variable's checks
for nm in (None, "", "  "):
    args = {f: False for f in FLAGS}
    args.update({"noqualifiers": True, "count": False, "current_value": None, "new_value": 2, "line_matches": None})
    try:
        r = eq._do_assignment_new_impl(name=nm, tracking=None, args=args)
        print(f"name {nm!r}: {r} {path.variables}")
    except Exception as ex:  # pylint: disable=W0718
        print(f"name {nm!r}: EXC {type(ex).__name__} {path.variables}")
for trk in ("", " ", 0, False):
    args = {f: False for f in FLAGS}
    args.update({"noqualifiers": True, "count": False, "current_value": None, "new_value": 2, "line_matches": None})
    try:
        r = eq._do_assignment_new_impl(name="w", tracking=trk, args=args)
        print(f"tracking {trk!r}: {r} {path.variables}")
    except Exception as ex:  # pylint: disable=W0718
        print(f"tracking {trk!r}: EXC {type(ex).__name__} {path.variables}")

print("=== files left in the working directory")
for root, dirs, files in sorted(os.walk(".")):
    dirs.sort()
    for f in sorted(files):
        if f.endswith(".log"):
            continue
        print(os.path.join(root, f))
print("done")
