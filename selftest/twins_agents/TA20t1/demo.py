#!/usr/bin/env python
"""Differential demonstration for refactoring t1 (property C20).

Exercises CsvPaths._load_csvpath -- in particular the source-mode: preceding
branch -- through collect_paths / fast_forward_paths / next_paths /
*_by_line and through results-reference replays, and prints a deterministic
transcript of everything observable.

Run with cwd = an empty scratch directory:
    mkdir /tmp/demo_TWC20_1 && cd /tmp/demo_TWC20_1 && \
        PYTHONPATH=<tree> /venv/bin/python <this file>
The script creates ./config/config.ini itself (offline config, no listeners).
"""
import contextlib
import io
import json
import logging
import os
import re
import shutil
import sys
import time

CONFIG = """[csvpath_files]
extensions = txt, csvpath, csvpaths

[csv_files]
extensions = txt, csv, tsv, dat, tab, psv, ssv

[errors]
csvpath = raise, collect, stop, fail, print
csvpaths = raise, collect

[logging]
csvpath = info
csvpaths = info
log_file = logs/csvpath.log
log_files_to_keep = 100
log_file_size = 52428800

[config]
path = config/config.ini

[cache]
path = cache

[listeners]
[marquez]
base_url = http://localhost:5000

[functions]
imports = config/functions.imports

[results]
archive = archive
transfers = transfers

[inputs]
files = inputs/named_files
csvpaths = inputs/named_paths
on_unmatched_file_fingerprints = halt

"""

CWD = os.getcwd()
if os.path.exists(os.path.join(CWD, "csvpath", "csvpaths.py")):
    sys.exit("do not run the demo inside the source tree")
for d in ("archive", "cache", "logs", "inputs", "transfers", "config", "data"):
    shutil.rmtree(os.path.join(CWD, d), ignore_errors=True)
os.makedirs("config")
with open("config/config.ini", "w", encoding="utf-8") as fh:
    fh.write(CONFIG)
with open("config/functions.imports", "w", encoding="utf-8") as fh:
    fh.write("")
os.makedirs("data")

from csvpath import CsvPaths  # noqa: E402

FILES = {
    "plain": "a,b,c\n1,x,10\n2,y,20\n3,x,30\n4,z,40\n5,x,50\n6,y,60\n",
    "blanks": "a,b,c\n1,x,10\n\n2,y,20\n\n\n3,x,30\n,,\n4,x,0\n",
    "ragged": "a,b,c\n1,x\n2,y,20,extra\n3\n4,x,40\n5,x,50,e1,e2\n",
    "empties": "a,b,c\n1,,10\n2,x,\n,x,30\n0,x,0\n5,\"\",50\n",
    "quoted": 'a,b,c\n1,"x, y",10\n2,"say ""hi""",20\n3,x,"3\n0"\n4,x,40\n',
    "headeronly": "a,b,c\n",
    "empty": "",
}
for n, text in FILES.items():
    with open(f"data/{n}.csv", "w", encoding="utf-8", newline="") as fh:
        fh.write(text)

OUT = io.StringIO()


def say(*args):
    print(*args, file=OUT)


_RUN = re.compile(r"\d{4}-\d{2}-\d{2}_\d{2}-\d{2}-\d{2}(?:\.\d+)?")
_TS = re.compile(r"\d{4}-\d{2}-\d{2}[ T]\d{2}:\d{2}:\d{2}(?:[.,]\d+)?(?:\+00:00|Z)?")
_UUID = re.compile(r"[0-9a-f]{8}-[0-9a-f]{4}-[0-9a-f]{4}-[0-9a-f]{4}-[0-9a-f]{12}")
_ADDR = re.compile(r" at 0x[0-9a-f]+")


def normalise(text: str) -> str:
    seen = {}

    def run(m):
        k = m.group(0)
        if k not in seen:
            seen[k] = f"<RUN-{len(seen) + 1}>"
        return seen[k]

    text = text.replace(CWD, "<CWD>")
    text = _RUN.sub(run, text)
    text = _TS.sub("<TS>", text)
    text = _UUID.sub("<UUID>", text)
    text = _ADDR.sub(" at 0x..", text)
    return text


def new_paths() -> CsvPaths:
    cp = CsvPaths()
    for n in FILES:
        cp.file_manager.add_named_file(name=n, path=f"data/{n}.csv")
    return cp


def show_exception(label, ex):
    say(f"  {label}: {type(ex).__name__}: {ex}")


# keys whose values are clock readings, random ids, durations or hashes of
# files that contain those: not behaviour, dropped from the transcript
VOLATILE = {
    "time",
    "time_completed",
    "time_started",
    "uuid",
    "named_paths_uuid",
    "run_uuid",
    "named_file_last_change",
    "run_time",
    "run_started_at",
    "lines_time",
    "last_line_time",
    "trace",
}
STABLE_FINGERPRINTS = ("data.csv", "unmatched.csv", "vars.json")


def scrub(o):
    if isinstance(o, dict):
        out = {}
        for k, v in o.items():
            if k in VOLATILE:
                continue
            if k == "file_fingerprints" and isinstance(v, dict):
                v = {f: h for f, h in v.items() if f in STABLE_FINGERPRINTS}
            out[k] = scrub(v)
        return out
    if isinstance(o, list):
        return [scrub(_) for _ in o]
    return o


def show_result(i, r):
    cpath = r.csvpath
    say(f"  result[{i}] identity={r.identity_or_index!r} paths_name={r.paths_name!r} file_name={r.file_name!r}")
    say(f"    data_from_preceding={cpath.data_from_preceding} source_mode_preceding={r.source_mode_preceding}")
    say(f"    scanner.filename={cpath.scanner.filename if cpath.scanner else None}")
    say(f"    data_file_path={r.data_file_path}")
    say(f"    source-mode-source={cpath.metadata.get('source-mode-source')!r}")
    say(f"    metadata={json.dumps(cpath.metadata, sort_keys=True, default=str)}")
    say(f"    headers={cpath.headers}")
    say(f"    is_valid={r.is_valid} stopped={cpath.stopped} match_count={cpath.match_count}")
    say(f"    variables={json.dumps(cpath.variables, default=str)}")
    try:
        lines = list(r.lines.next()) if hasattr(r.lines, "next") else list(r.lines)
    except Exception as ex:  # pylint: disable=W0718
        lines = f"{type(ex).__name__}: {ex}"
    say(f"    len(lines)={len(r.lines)} lines={lines}")
    say(f"    unmatched={r.unmatched}")
    say(f"    errors={[(e.line_count, e.match_count, type(e.error).__name__, str(e.error)) for e in r.errors]}")
    say(f"    printouts={json.dumps(r.get_printouts(), default=str)}")


def show_results(cp, name):
    try:
        rs = cp.results_manager.get_named_results(name)
    except Exception as ex:  # pylint: disable=W0718
        show_exception(f"get_named_results({name!r})", ex)
        return
    say(f"  named results {name!r}: {len(rs)}")
    for i, r in enumerate(rs):
        show_result(i, r)
    rm = cp.results_manager
    say(f"  get_variables={json.dumps(rm.get_variables(name), default=str)}")
    say(f"  has_lines={rm.has_lines(name)} is_valid={rm.is_valid(name)} n={rm.get_number_of_results(name)} has_errors={rm.has_errors(name)}")
    last = rm.get_last_named_result(name=name)
    say(f"  last={None if last is None else last.identity_or_index!r}")
    say(f"  csvpaths.errors={[(type(e.error).__name__, str(e.error)) for e in cp.errors]}")


def show_archive():
    say("  -- archive listing --")
    for root, dirs, files in os.walk("archive"):
        dirs.sort()
        for f in sorted(files):
            p = os.path.join(root, f)
            size = os.path.getsize(p) if f.endswith(".csv") else "-"
            say(f"  {p} ({size})")
            if f in ("data.csv", "unmatched.csv"):
                with open(p, "r", encoding="utf-8", newline="") as fh:
                    say(f"      content={fh.read()!r}")
            elif f.endswith(".json"):
                with open(p, "r", encoding="utf-8") as fh:
                    try:
                        m = json.load(fh)
                    except Exception as ex:  # pylint: disable=W0718
                        say(f"      unreadable json {type(ex).__name__}")
                        continue
                say(f"      json={json.dumps(scrub(m), default=str)}")
            elif f == "printouts.txt":
                with open(p, "r", encoding="utf-8") as fh:
                    say(f"      content={fh.read()!r}")


def reset_archive():
    shutil.rmtree("archive", ignore_errors=True)


# ---------------------------------------------------------------------------
# generated chains: 2-4 filter csvpaths, source-mode preceding on a suffix
# ---------------------------------------------------------------------------
# header indexes rather than names: data.csv carries no header row, so a
# source-mode: preceding member sees its predecessor's first line as headers
FILTERS = [
    '#1 == "x"',
    "gt(#0, 1)",
    'not(#2 == "0")',
    "lt(#0, 5)",
    "yes()",
    "above(length(#1), 0)",
]


def chain(n, first_preceding, offset=0, collect=None):
    paths = []
    for i in range(n):
        mode = "\n  source-mode: preceding" if i >= first_preceding else ""
        filt = FILTERS[(i + offset) % len(FILTERS)]
        extra = f"\n    {collect}" if collect and i == 0 else ""
        paths.append(
            f"""~ id: m{i}{mode}
  validation-mode: no-raise, no-stop, print ~
$[*][
    {filt}
    @seen_{i} = count()
    push("as", #0)
    @last_b = #1{extra}
    print.once("m{i} reads $.csvpath.file_name headers $.csvpath.headers")
]"""
        )
    return paths


_LAST_START = [0]


def fresh_second():
    """run dirs are named for the second the run starts in; two runs in the same
    second get a .N suffix, which is timing dependent (and such names cannot be
    used in a reference). every run of the demo starts in a second of its own."""
    while int(time.time()) <= _LAST_START[0]:
        time.sleep(0.02)
    _LAST_START[0] = int(time.time())


def run_method(cp, method, pathsname, filename):
    fresh_second()
    if method == "collect":
        cp.collect_paths(pathsname=pathsname, filename=filename)
    elif method == "ff":
        cp.fast_forward_paths(pathsname=pathsname, filename=filename)
    elif method == "next":
        got = []
        for line in cp.next_paths(pathsname=pathsname, filename=filename):
            got.append(line)
        say(f"  next_paths yielded {got}")
    elif method == "collect_by_line":
        got = cp.collect_by_line(pathsname=pathsname, filename=filename)
        say(f"  collect_by_line returned {got}")
    elif method == "ff_by_line":
        cp.fast_forward_by_line(pathsname=pathsname, filename=filename)
    elif method == "next_by_line":
        got = []
        for line in cp.next_by_line(pathsname=pathsname, filename=filename):
            got.append(line)
        say(f"  next_by_line yielded {got}")


def scenario_chain(title, paths, filename, method="collect", runs=1, archive=True):
    say(f"=== {title}: file={filename} method={method} runs={runs}")
    reset_archive()
    cp = new_paths()
    cp.paths_manager.add_named_paths(name="grp", paths=paths)
    for k in range(runs):
        say(f" -- run {k + 1}")
        try:
            run_method(cp, method, "grp", filename)
        except Exception as ex:  # pylint: disable=W0718
            show_exception("run raised", ex)
        show_results(cp, "grp")
    if archive:
        show_archive()
    return cp


def main():
    # 1. all suffix placements for chains of 2-4 over the plain file
    for n in (2, 3, 4):
        for first in range(1, n + 1):  # first == n means no member is preceding
            scenario_chain(
                f"chain n={n} preceding-from={first}",
                chain(n, first),
                "plain",
                archive=(n == 3),
            )
    # 2. every file kind through a 3-chain with preceding on all but the first
    for fname in FILES:
        scenario_chain(f"files {fname}", chain(3, 1, offset=1), fname)
    # 3. first member is itself source-mode preceding (no predecessor in this run)
    scenario_chain("first member preceding", chain(2, 0), "plain", runs=2)
    # 4. other serial methods and repeated runs
    scenario_chain("ff chain", chain(3, 1), "blanks", method="ff", runs=2)
    scenario_chain("next chain", chain(3, 2, offset=2), "ragged", method="next")
    scenario_chain("collect x3", chain(2, 1, offset=3), "empties", runs=3)
    # 5. breadth-first runs refuse source-mode preceding
    for m in ("collect_by_line", "ff_by_line", "next_by_line"):
        scenario_chain(f"by_line {m}", chain(2, 1), "plain", method=m, archive=False)
    scenario_chain("by_line no preceding", chain(2, 2), "plain", method="collect_by_line", archive=False)
    # 6. a predecessor that collects a subset of the headers
    scenario_chain(
        "collect subset",
        chain(3, 1, offset=4, collect="collect(2, 0)"),
        "plain",
    )
    # 7. predecessor that matches nothing / errors out
    scenario_chain(
        "predecessor matches nothing",
        [
            "~ id: none ~ $[*][ no() ]",
            "~ id: after\n source-mode: preceding ~ $[*][ yes() @n = count() ]",
        ],
        "plain",
    )
    scenario_chain(
        "predecessor has a bad function",
        [
            "~ id: bad\n validation-mode: no-raise, no-stop, print ~ $[*][ nosuchfunction() ]",
            "~ id: after\n source-mode: preceding\n validation-mode: no-raise, print ~ $[*][ yes() @n = count() ]",
        ],
        "plain",
    )
    # 8. replays using results references as the file name and csvpaths
    #    references as the named-paths name
    say("=== replays")
    reset_archive()
    cp = new_paths()
    cp.paths_manager.add_named_paths(name="grp", paths=chain(4, 1))
    run_method(cp, "collect", "grp", "plain")
    run_method(cp, "collect", "grp", "blanks")
    replays = [
        ("$grp.results.202:last.m0", "$grp.csvpaths.m1:from"),
        ("$grp.results.202:first.m1", "$grp.csvpaths.m2:from"),
        ("$grp.results.202:last.m2", "$grp.csvpaths.m3"),
        ("$grp.results.202:first.m0", "grp"),
        ("$grp.results.202:last.m0", "$grp.csvpaths.m2:to"),
        ("$grp.results.1999:last.m0", "grp"),
        ("$grp.results.202:last.nope", "grp"),
        ("$grp.results.202:middle.m0", "grp"),
        ("$nogrp.results.202:last.m0", "grp"),
        ("$grp.variables.202:last.m0", "grp"),
        ("$grp.results.202:last.m0", "$grp.variables.m1:from"),
        ("$grp.results.202:last.m0", "$grp.csvpaths.m1:upto"),
    ]
    # exact run-dir names (":last" re-resolves to the replay's own, still
    # empty, run dir inside _load_csvpath -- see notes.md)
    rundirs = sorted(os.listdir("archive/grp"))
    say(f"  run dirs before replays: {rundirs}")
    replays = [
        (f"$grp.results.{rundirs[0]}.m0", "$grp.csvpaths.m1:from"),
        (f"$grp.results.{rundirs[-1]}.m0", "$grp.csvpaths.m1:from"),
        (f"$grp.results.{rundirs[-1]}.m1", "$grp.csvpaths.m3:from"),
        (f"$grp.results.{rundirs[0]}.m3", "grp"),
    ] + replays
    for filename, pathsname in replays:
        say(f" -- replay filename={filename} pathsname={pathsname}")
        for method in ("collect", "ff"):
            try:
                run_method(cp, method, pathsname, filename)
            except Exception as ex:  # pylint: disable=W0718
                show_exception(f"{method} raised", ex)
            for name in ("grp", pathsname):
                show_results(cp, name)
    show_archive()
    # 9. direct _load_csvpath calls, including by_line and a pathsname reference
    say("=== direct _load_csvpath")
    cp.paths_manager.add_named_paths(
        name="dg",
        paths=["~ id: x ~ $[*][ gt(#0, 2) ]", "~ id: y ~ $[*][ lt(#0, 3) ]"],
    )
    run_method(cp, "collect", "dg", "plain")
    show_results(cp, "dg")
    # a group that is known but has no results: no predecessor can be found
    cp.results_manager.named_results["hollow"] = []
    for by_line in (False, True):
        for pathsname in (
            "dg",
            "$dg.csvpaths.y:from",
            "$dg",
            "grp",
            "hollow",
            "$hollow.csvpaths.a:from",
            "unknown",
            "",
            None,
        ):
            for text in (
                "~ id: d0 ~ $[*][ yes() ]",
                "~ id: d1\n source-mode: preceding ~ $[1*][ yes() ]",
                "~ source-mode: preceding ~ $[*][ yes() ]",
                "~ source-mode: default ~ $[*][ yes() ]",
            ):
                c = cp.csvpath()
                try:
                    cp._load_csvpath(
                        csvpath=c,
                        path=text,
                        file="data/plain.csv",
                        pathsname=pathsname,
                        filename="plain",
                        by_line=by_line,
                    )
                    say(
                        f"  by_line={by_line} pathsname={pathsname} id={c.identity!r} -> file={c.scanner.filename} scan={c.scan!r} sms={c.metadata.get('source-mode-source')!r}"
                    )
                    say(f"      collect()={c.collect()} vars={c.variables}")
                except Exception as ex:  # pylint: disable=W0718
                    show_exception(f"by_line={by_line} pathsname={pathsname} id={c.identity!r}", ex)


if __name__ == "__main__":
    logging.disable(logging.CRITICAL)
    # library printouts (print_default, error policy "print") are interleaved
    # with the transcript in the order they happen
    with contextlib.redirect_stdout(OUT), contextlib.redirect_stderr(OUT):
        try:
            main()
        except BaseException as ex:  # pylint: disable=W0718
            say(f"DEMO ABORTED: {type(ex).__name__}: {ex}")
            import traceback

            say(traceback.format_exc())
    # run-dir names are normalised per scenario (the archive is emptied between
    # scenarios so the same second may or may not recur)
    for section in re.split(r"(?m)^(?==== )", OUT.getvalue()):
        sys.stdout.write(normalise(section))
