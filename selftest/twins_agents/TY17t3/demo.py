#!/usr/bin/env python
"""Differential demonstration for property C17 (parsing is unambiguous and
layout-insensitive).

The script is standalone: it creates its own working files (CSV data and an
offline ./config/config.ini) in the current directory, exercises the match
parser, the transformer, the name/qualifier splitter and the scan/match
splitter through pre-existing public features only, and prints a deterministic
transcript of everything observable.

Run it in an empty temp directory:
    cd /tmp/demo_X && PYTHONPATH=<tree under test> /venv/bin/python demo.py
"""
import glob
import hashlib
import itertools
import json
import os
import re
import shutil
import sys
import time

CONFIG = """[csvpath_files]
extensions = txt, csvpath, csvpaths

[csv_files]
extensions = txt, csv, tsv, dat, tab, psv, ssv

[errors]
csvpath = raise, collect, stop, fail, print
csvpaths = raise, collect

[logging]
csvpath = info
csvpaths = info
log_file = logs/csvpath.log
log_files_to_keep = 100
log_file_size = 52428800

[config]
path = config/config.ini

[cache]
path = cache

[listeners]
[marquez]
base_url = http://localhost:5000

[functions]
imports = config/functions.imports

[results]
archive = archive
transfers = transfers

[inputs]
files = inputs/named_files
csvpaths = inputs/named_paths
on_unmatched_file_fingerprints = halt
"""

DATA = {
    # blank line, empty values, zero, short row, long row, quoted comma
    "f.csv": 'a,b,c\n1,x,3.5\n\n2,,0\n3,y\n4,z,-7,extra\n0,"q, r",\n',
    # header with a space, trailing blank line
    "g.csv": "first name,n,when\nAda,10,2024-01-02\nBob,-3,\n,0,2023-12-31\nCyd,2.50,x\n\n",
    # header only
    "h.csv": "a,b,c\n",
    # completely empty
    "e.csv": "",
}

for d in ("config", "archive", "inputs", "cache", "logs", "transfers"):
    shutil.rmtree(d, ignore_errors=True)
os.makedirs("config")
with open("config/config.ini", "w", encoding="utf-8") as fh:
    fh.write(CONFIG)
with open("config/functions.imports", "w", encoding="utf-8") as fh:
    fh.write("")
for fname, text in DATA.items():
    with open(fname, "w", encoding="utf-8") as fh:
        fh.write(text)

from csvpath import CsvPath, CsvPaths  # noqa: E402  pylint: disable=C0413
from csvpath.util.printer import Printer  # noqa: E402  pylint: disable=C0413
from csvpath.matching.lark_parser import LarkParser  # noqa: E402
from csvpath.matching.matcher import Matcher  # noqa: E402
from csvpath.matching.functions.function_factory import FunctionFactory  # noqa: E402
from csvpath.matching.util.expression_utility import ExpressionUtility  # noqa: E402


import csvpath as _pkg  # noqa: E402  pylint: disable=C0413

# which tree is under test goes to stderr so the stdout transcript is comparable
print("csvpath imported from", os.path.dirname(_pkg.__file__), file=sys.stderr)


def out(*args):
    print(*args)
    sys.stdout.flush()


def section(title):
    out()
    out("=" * 8, title, "=" * 8)


def exc_text(e):
    """deterministic rendering of an exception. lark prints the set of
    expected terminals in hash order so only the first line is kept."""
    first = f"{e}".strip().split("\n")[0]
    extra = ""
    if hasattr(e, "line") and hasattr(e, "column"):
        extra = f" @line={getattr(e, 'line')} col={getattr(e, 'column')}"
    return f"{type(e).__name__}: {first}{extra}"


class Capture(Printer):
    """collects everything print() emits, with the printout name"""

    def __init__(self):
        self.lines = []

    @property
    def last_line(self):
        return self.lines[-1] if self.lines else None

    @property
    def lines_printed(self):
        return len(self.lines)

    def print(self, string):
        self.print_to(None, string)

    def print_to(self, name, string):
        self.lines.append((name, string))


# ----------------------------------------------------------------------
# 1. name / qualifier splitting
# ----------------------------------------------------------------------
section("1. ExpressionUtility.get_name_and_qualifiers")
NAMES = [
    "a",
    "a.b",
    "a.b.c",
    "count.onmatch.nocontrib.mine",
    "a.",
    "a..b",
    ".a",
    ".",
    "",
    " ",
    " a ",
    "a. b .c",
    '"a b"',
    '"a b".onmatch',
    '"a.b".x."y.z".w',
    'x."a b"',
    'x."a b".y',
    '""',
    '"',
    '"a',
    'a"b"c',
    '" "',
    '"a"."b"',
    "0",
    "0.0",
    "-1.x",
    "日本.語",
    "a\n.b",
    None,
    5,
]
for n in NAMES:
    try:
        r = ExpressionUtility.get_name_and_qualifiers(n)
        out(f"{n!r} -> {r!r}")
    except Exception as e:  # pylint: disable=W0718
        out(f"{n!r} !! {exc_text(e)}")
# the returned qualifier lists must be independent objects
r1 = ExpressionUtility.get_name_and_qualifiers("v.onmatch.x")
r2 = ExpressionUtility.get_name_and_qualifiers("v.onmatch.x")
r1[1].append("mutated")
out("independent lists:", r1, r2, r1[1] is r2[1])

# every string over a small alphabet, so that no combination of quotes, dots,
# blanks and letters is left out. the full outcome list is digested; the
# outcome classes are counted and a sample is shown.
section("1a. get_name_and_qualifiers, exhaustive over a small alphabet")


def exhaustive(alphabet, maxlen, fn):
    outcomes = []
    for n in range(0, maxlen + 1):
        for tup in itertools.product(alphabet, repeat=n):
            text = "".join(tup)
            try:
                outcomes.append((text, "ok", repr(fn(text))))
            except Exception as e:  # pylint: disable=W0718
                outcomes.append((text, type(e).__name__, f"{e}"))
    return outcomes


def summarise(outcomes, every):
    counts = {}
    for _, kind, _r in outcomes:
        counts[kind] = counts.get(kind, 0) + 1
    out("inputs:", len(outcomes), "outcome classes:", sorted(counts.items()))
    digest = hashlib.sha256(repr(outcomes).encode("utf-8")).hexdigest()
    out("sha256 of all outcomes:", digest)
    for o in outcomes[::every]:
        out("  sample", repr(o))


summarise(
    exhaustive('a."b ', 7, ExpressionUtility.get_name_and_qualifiers),
    997,
)

section("1b. FunctionFactory.get_name_and_qualifier")
for n in ["count", "count.onmatch", "count.onmatch.x", "count.", "count. x ", ".x"]:
    out(f"{n!r} -> {FunctionFactory.get_name_and_qualifier(n)!r}")

# ----------------------------------------------------------------------
# 2. scan / match splitting
# ----------------------------------------------------------------------
section("2. CsvPath._find_scan_and_match_parts")
SPLITS = [
    None,
    5,
    b"$f[*][yes()]",
    "",
    "   ",
    "$f.csv[*]",
    "$f.csv[*]   ",
    "$f.csv[*][yes()]",
    "  $f.csv[*]   [yes()]  ",
    "$f.csv[*]\n[yes()]\n",
    "\n\t$f.csv[ 1* ]\n\n[\n yes()\n]\n",
    "$f.csv[*]x[yes()]",
    "$f.csv[*][yes()",
    "$f.csv[*][yes()] x",
    "$f.csv[*][",
    "$f.csv[*]]",
    "$f.csv[*] ]",
    "no brackets at all",
    "]",
    "]]",
    "] [",
    "][]",
    "[]",
    "[][]",
    "$[*][]",
    "$[1-3][ #a == \"]\" ]",
    "$[*][ regex(#a, /[a-z]+/) ]",
    "$f.csv[*] ~ c ~ [yes()]",
    "~ outer ~ $f.csv[*][yes()]",
    "$f.csv[*][yes()] ~ trailing ~",
]
for s in SPLITS:
    try:
        r = CsvPath()._find_scan_and_match_parts(s)  # pylint: disable=W0212
        out(f"{s!r} -> {r!r}")
    except Exception as e:  # pylint: disable=W0718
        out(f"{s!r} !! {exc_text(e)}")

section("2a. _find_scan_and_match_parts, exhaustive over a small alphabet")
_splitter = CsvPath()
summarise(
    exhaustive(
        "[]x \n", 7, _splitter._find_scan_and_match_parts  # pylint: disable=W0212
    ),
    997,
)

# ----------------------------------------------------------------------
# 3. raw parse trees
# ----------------------------------------------------------------------
section("3. LarkParser.parse raw trees")
MATCH_PARTS = [
    "[]",
    "[ ]",
    "[yes()]",
    "[ yes() no() ]",
    '[ #a == "x" ]',
    '[ #"first name" == "Ada" ]',
    "[ #0 == 1 ]",
    "[ @v = -1.50 ]",
    "[ @v = +3 ]",
    "[ @v = .5 ]",
    "[ @v = 0 ]",
    "[ @v.onmatch.latch = #a ]",
    '[ #a -> @x = "y" ]',
    '[ #a == "1" -> print("hi") ]',
    "[ $p.variables.x ]",
    "[ $p.headers.a -> stop() ]",
    "[ @v = $p.variables.x ]",
    "[ regex(#b, /^[a-z]{1,2}\\/x$/) ]",
    "[ regex(/a b/, #b) ]",
    "[ add(1, subtract(2, multiply(3, divide(4, 5)))) ]",
    "[ or(#a == 1, @b == #c, not(empty(#c))) ]",
    "[ ~ a comment ~ ]",
    "[ ~one~ yes() ~two~ no() ~three~ ]",
    "[ count.onmatch.mine() ]",
    '[ print("a ~ b") ]',
    '[ print("]") ]',
    '[ @a = "" ]',
    "[ yes() ",
    "yes()",
    "[ yes( ]",
    "[ #a = 1 ]",
    "[ @a == ]",
    "[ 5 ]",
    '[ "x" ]',
    "[ @a.b.c.d == #x.y ]",
    "[ @v = 1e5 ]",
    "[ ~ unterminated ]",
]
for m in MATCH_PARTS:
    try:
        lp = LarkParser()
        tree = lp.parse(m)
        out(f"{m!r} -> {tree}")
        out("   tree attr is result:", lp.tree is tree)
    except Exception as e:  # pylint: disable=W0718
        out(f"{m!r} !! {exc_text(e)}")
# one parser object reused for several inputs, including after a failure
lp = LarkParser()
for m in ["[yes()]", "[ nope( ]", "[yes()]", "[ @a = 1 ]", "[yes()]"]:
    try:
        out(f"reused {m!r} -> {lp.parse(m)}")
    except Exception as e:  # pylint: disable=W0718
        out(f"reused {m!r} !! {exc_text(e)}")
out("parser classes:", type(lp.parser).__name__, type(LarkParser().parser).__name__)

# the grammar text is a public class attribute: a parser created after it is
# replaced must use the replacement, and the original again once restored
section("3b. LarkParser.GRAMMAR replaced and restored")
ORIGINAL = LarkParser.GRAMMAR
for label, grammar in [
    ("original", ORIGINAL),
    ("fat arrow", ORIGINAL.replace('WHEN: "->"', 'WHEN: "=>"')),
    ("original again", ORIGINAL),
]:
    LarkParser.GRAMMAR = grammar
    try:
        for m in ["[ #a -> stop() ]", "[ #a => stop() ]"]:
            try:
                out(f"{label}: {m!r} -> {LarkParser().parse(m)}")
            except Exception as e:  # pylint: disable=W0718
                out(f"{label}: {m!r} !! {exc_text(e)}")
    finally:
        LarkParser.GRAMMAR = ORIGINAL
# many parsers and matchers for the same text give equal, independent trees
trees = [LarkParser().parse('[ @a = 1 #b == "x" -> print("y") ]') for _ in range(25)]
out("25 parses equal:", all(t == trees[0] for t in trees))
out("25 parses distinct objects:", len({id(t) for t in trees}) == 25)
ms = [
    Matcher(csvpath=None, data='[ @a = 1 #b == "x" -> print("y") ]', line=None)
    for _ in range(25)
]
out(
    "25 matchers equal dumps:",
    len({m.dump_all_expressions_to_json() for m in ms}) == 1,
    "distinct expression objects:",
    len({id(m.expressions[0][0]) for m in ms}) == 25,
)

# ----------------------------------------------------------------------
# 4. component trees, and the same AST in many layouts
# ----------------------------------------------------------------------
section("4. component trees across layouts")
# each AST is a list of match components; layouts differ only in what is put
# between the components (and around the match part)
ASTS = [
    ["yes()"],
    ["@n = count()", '#b == "x"', 'print("hi $.variables.n")'],
    ['#"first name" == "Ada"', "@x.onmatch = #n", "gt(#n, -1.5)"],
    ["@v = -1.50", "@w = +3", "@z = 0", "@e = \"\"", "@f = .5"],
    ["regex(#b, /^[xyz]$/)", "@hit.onmatch = count.mine()"],
    ["regex(#b, /a b\\/c/)"],
    ['#a == "1" -> @one = "first"', "#c -> @c.notnone = #c", "no() -> fail()"],
    ["add(1, subtract(2, multiply(3, divide(4, 5))))"],
    ["or(#a == 1, @b == #c, not(empty(#c)))", "and(yes(), in(#b, \"x|y\"))"],
    ["@t.latch = #a", "@u.increase = #a", "tally(#b)", "last() -> print(\"done\")"],
    ["$p.variables.x", "@r = $p.variables.x.y"],
    ["concat(\"a b\", \"  \", #b, \"~\")", "length(\" x \")"],
    ["count_lines.nocontrib() == 2 -> skip()", "above(#a, 0)"],
    ["push(\"s\", #a)", "pop.onmatch(\"s\")", "stack(\"s\")"],
    ["@deep = int(round(float(add(#a, 0.5)), 0))"],
    ["count.onmatch.nocontrib.mine()"],
]
SEPARATORS = [
    " ",
    "\n",
    "   \n\t  ",
    " ~ a comment ~ ",
    "~c~",
    "\n~ multi\n line comment ~\n",
]


def layouts(components):
    for sep in SEPARATORS:
        yield "[" + sep.join(components) + "]"
        yield "[ " + sep.join(components) + " ]"
        yield "[\n" + sep.join(components) + "\n]"
        yield "[~lead~" + sep.join(components) + "~trail~]"


def walk(o):
    """the component tree through attributes that exist today: class, name,
    qualifiers, operator, literal value (with its type) and children in order"""
    if o is None:
        return None
    d = [type(o).__name__, o.name, list(o.qualifiers), o.qualified_name]
    if hasattr(o, "op"):
        d.append(("op", o.op))
    if type(o).__name__ == "Term":
        d.append(("value", type(o.value).__name__, o.value))
    d.append([walk(c) for c in o.children])
    return d


def describe_matcher(m):
    return (
        " ".join(m.dump_all_expressions_to_json().split()),
        [walk(e[0]) for e in m.expressions],
        [str(e[0]) for e in m.expressions],
        [[str(c) for c in e[0].children] for e in m.expressions],
        [e[1] for e in m.expressions],
    )


for ast in ASTS:
    ref = None
    same = 0
    diffs = []
    count = 0
    for lay in layouts(ast):
        count += 1
        try:
            p = CsvPath()
            p.set_printers([Capture()])
            m = p.parse(f"$f.csv[*]{lay}", disposably=True)
            d = describe_matcher(m)
        except Exception as e:  # pylint: disable=W0718
            d = exc_text(e)
        if ref is None:
            ref = d
            out(f"AST {ast!r}")
            if isinstance(d, tuple):
                out("   json:", d[0])
                out("   walk:", d[1])
                out("   str:", d[2])
                out("   children:", d[3])
                out("   activation:", d[4])
            else:
                out("   !!", d)
        if d == ref:
            same += 1
        else:
            diffs.append(lay)
    out(f"   layouts: {count} same-as-first: {same} different: {diffs!r}")

# Matcher built directly, without a CsvPath
section("4b. Matcher without a CsvPath")
for m in ['[ @a = 1 #b == "x" -> print("y") ]', "[~only a comment~]", "[]", "", None]:
    try:
        mm = Matcher(csvpath=None, data=m, line=None, headers=None)
        out(f"{m!r} -> {describe_matcher(mm)!r}")
        out("   ", re.sub(r"0x[0-9a-f]+", "0x<addr>", str(mm)).replace("\n", " | "))
    except Exception as e:  # pylint: disable=W0718
        out(f"{m!r} !! {exc_text(e)}")

# ----------------------------------------------------------------------
# 5. runs: same AST in different layouts gives the same results
# ----------------------------------------------------------------------
section("5. runs across layouts")


def run(path, method="collect"):
    p = CsvPath()
    cap = Capture()
    p.set_printers([cap])
    res = {}
    try:
        if method == "collect":
            res["lines"] = p.collect(path)
        elif method == "fast_forward":
            p.fast_forward(path)
            res["lines"] = None
        else:
            p.parse(path)
            res["lines"] = list(p.next())
    except Exception as e:  # pylint: disable=W0718
        res["exception"] = exc_text(e)
    res["variables"] = p.variables
    res["is_valid"] = p.is_valid
    res["stopped"] = p.stopped
    res["errors"] = (
        None
        if p.errors is None
        else [(e.line_count, f"{e.error}".split("\n")[0]) for e in p.errors]
    )
    res["printed"] = cap.lines
    res["metadata"] = p.metadata
    res["scan"] = p.scan
    res["match"] = p.match
    try:
        res["headers"] = p.headers
    except Exception as e:  # pylint: disable=W0718
        res["headers"] = exc_text(e)
    try:
        lm = p.line_monitor
        res["counts"] = (
            lm.physical_line_number,
            lm.data_line_number,
            p.match_count,
            p.scan_count,
        )
    except Exception as e:  # pylint: disable=W0718
        res["counts"] = exc_text(e)
    if p.matcher is not None:
        res["tree"] = [walk(e[0]) for e in p.matcher.expressions]
    return res


def show(res, indent="   "):
    for k, v in res.items():
        out(f"{indent}{k}: {v!r}")


RUNS = [
    ("f.csv", "*", ["yes()"]),
    ("f.csv", "*", ["@n = count()", '#b == "x"', 'print("hi $.variables.n")']),
    ("f.csv", "1*", ["@c.notnone = #c", "@n.onmatch = count()", "not(empty(#b))"]),
    ("f.csv", "*", ["gt(#a, 0)", "@v = -1.50", "@z = 0", '@e = ""', "@s = add(@v, #a)"]),
    ("f.csv", "*", ["regex(#b, /^[xyz]$/)", "@hit.onmatch = count.mine()"]),
    ("f.csv", "*", ["#c == 0 -> @zero = line_number()", "#3 -> @extra = #3"]),
    ("f.csv", "2-5", ["tally(#b)", "@l = count_lines()", "last() -> print(\"done $.csvpath.count_lines\")"]),
    ("f.csv", "*", ["or(#a == 1, #b == \"y\", not(#c))", "push(\"as\", #a)"]),
    ("f.csv", "*", ["#a == 3 -> fail()", "#a == 4 -> stop()"]),
    ("f.csv", "*", ["@deep = int(round(float(add(#a, 0.5)), 0))"]),
    ("f.csv", "*", ["add(\"five\", #a)"]),
    ("f.csv", "*", ["nosuchfunction(#a)"]),
    ("f.csv", "*", ["#nosuchheader"]),
    ("g.csv", "*", ['#"first name" == "Ada"']),
    ("g.csv", "*", ["@who = #\"first name\"", "above(#n, -3)", "@last.onmatch = #when"]),
    ("g.csv", "1*", ["@t = sum(#n)", "@m = max(#n)", "empty(#when) -> @blank = count_lines()"]),
    ("h.csv", "*", ["@n = count()", "yes()"]),
    ("e.csv", "*", ["@n = count()", "yes()"]),
    ("missing.csv", "*", ["yes()"]),
]
RUN_SEPARATORS = [" ", "\n", " ~ between ~ ", "\n\t ~x~\n"]
for fname, scan, ast in RUNS:
    out(f"RUN {fname} [{scan}] {ast!r}")
    ref = None
    same = 0
    total = 0
    for sep in RUN_SEPARATORS:
        for outer in ["", "~ an outer comment without settings ~ ", "~first~\n\n"]:
            for gap in ["", " ", "\n  "]:
                path = f"{outer}${fname}[{scan}]{gap}[ {sep.join(ast)} ]"
                res = run(path)
                total += 1
                # the stored comment, scan and match strings legitimately
                # differ by layout; everything else must not
                md = res.pop("metadata")
                mt = res.pop("match")
                if ref is None:
                    ref = res
                    show(res)
                    out(f"   metadata(first): {md!r}")
                    out(f"   match(first): {mt!r}")
                if res == ref:
                    same += 1
                else:
                    out("   DIFFERENT for", repr(path))
                    show(res, indent="      ")
    out(f"   layouts: {total} same-as-first: {same}")

section("5b. other run methods, repeated runs, error cases")
P = '$f.csv[*][ @n = count() #b == "x" -> print("b is x at $.csvpath.line_number") above(#a, 0) ]'
for method in ["collect", "fast_forward", "next", "collect", "collect"]:
    out(method)
    show(run(P, method))
BAD = [
    None,
    "",
    "$f.csv[*]",
    "$f.csv[*][",
    "$f.csv[*][ yes( ]",
    "$f.csv[*][ yes() ] trailing",
    "$f.csv[*][ #a = 1 ]",
    "$f.csv[*][ @a == ]",
    "$f.csv[*][ 5 ]",
    "$f.csv[*][ @v = 1e5 ]",
    "$f.csv[*][ @.x = 1 ]",
    "$f.csv[*][ #\"\" ]",
    "$f.csv[x][ yes() ]",
    "f.csv[*][ yes() ]",
    "$f.csv[*][ count(1, 2, 3) ]",
    "$f.csv[*][ yes() ]]",
    "$f.csv[*][ [yes()] ]",
    "$f.csv[*][ print(\"a\"b\") ]",
]
for b in BAD:
    out(f"BAD {b!r}")
    r = run(b)
    show({k: r[k] for k in ("lines", "exception", "is_valid", "errors", "printed") if k in r})

# a collect with a limit and a second instance interleaved with the first
section("5c. interleaved instances")
p1 = CsvPath()
p1.set_printers([Capture()])
p2 = CsvPath()
p2.set_printers([Capture()])
p1.parse('$f.csv[*][ @n = count() #a == "1" ]')
p2.parse('$g.csv[*][ @n = count() ~c~ above(#n, 0) ]')
g1 = p1.next()
g2 = p2.next()
seq = []
for g in (g1, g2, g2, g1, g2):
    try:
        seq.append(next(g))
    except StopIteration:
        seq.append("<stop>")
out(seq, p1.variables, p2.variables)

# ----------------------------------------------------------------------
# 6. named-paths group run with the archive
# ----------------------------------------------------------------------
section("6. CsvPaths group run")
TS = re.compile(r"\d{4}-\d{2}-\d{2}_\d{2}-\d{2}-\d{2}([_.]\d+)?")
VOLATILE = {
    "run_time",
    "lines_time",
    "last_line_time",
    "run_started_at",
    "time",
    "uuid",
    "time_completed",
    "named_paths_uuid",
    "file_fingerprints",
    "at",
    "trace",
}


def norm(s):
    return TS.sub("<RUN>", s)


def scrub(o):
    if isinstance(o, dict):
        return {k: ("<volatile>" if k in VOLATILE else scrub(v)) for k, v in o.items()}
    if isinstance(o, list):
        return [scrub(_) for _ in o]
    if isinstance(o, str):
        return norm(o)
    return o


GROUP = [
    '$[*][ @n = count() #b == "x" -> print("x seen") ]',
    '~id:two~ $[*][@n=count()\n#b=="x"->print("x seen")]',
    '~ id:three\n ~ $[*]\n[ ~c~ @n = count() ~c~ #b == "x" -> print("x seen") ~c~ ]',
    '~ id:four ~ $[1*][ #"a" == 3 -> fail()  @c.notnone = #c last() -> print("$.csvpath.count_matches matches") ]',
]
cp = CsvPaths()
cp.file_manager.add_named_file(name="f", path="f.csv")
cp.paths_manager.add_named_paths(name="p", paths=GROUP)
for rep in (1, 2):
    out(f"-- collect_paths run {rep}")
    time.sleep(1.2)  # run directories are named by the second
    cp.collect_paths(filename="f", pathsname="p")
    for r in cp.results_manager.get_named_results("p"):
        out(
            "result",
            r.csvpath.identity,
            "lines:",
            list(r.lines.next()) if hasattr(r.lines, "next") else r.lines,
            "valid:",
            r.is_valid,
            "vars:",
            r.csvpath.variables,
            "printouts:",
            r.printouts,
            "errors:",
            r.errors_count,
        )
out("-- fast_forward_paths")
time.sleep(1.2)
cp.fast_forward_paths(filename="f", pathsname="p")
for r in cp.results_manager.get_named_results("p"):
    out("result", r.csvpath.identity, "valid:", r.is_valid, "vars:", r.csvpath.variables)

out("-- archive listing")
files = sorted(glob.glob("archive/**/*", recursive=True))
runs = sorted({TS.search(f).group(0) for f in files if TS.search(f)})
out("number of run dirs:", len(runs))
names = {r: f"<RUN{i}>" for i, r in enumerate(runs)}
for f in files:
    if os.path.isfile(f):
        shown = f
        for r, nm in names.items():
            shown = shown.replace(r, nm)
        out(shown)
out("-- archive contents")
for f in files:
    if not os.path.isfile(f):
        continue
    shown = f
    for r, nm in names.items():
        shown = shown.replace(r, nm)
    base = os.path.basename(f)
    with open(f, "r", encoding="utf-8") as fh:
        text = fh.read()
    if base in ("data.csv", "unmatched.csv", "printouts.txt"):
        out(f"## {shown}")
        out(text)
    elif base.endswith(".json"):
        out(f"## {shown}")
        try:
            out(json.dumps(scrub(json.loads(text)), indent=1, sort_keys=True))
        except Exception as e:  # pylint: disable=W0718
            out("unparseable:", exc_text(e), repr(text[:80]))
out("-- named paths file")
with open("inputs/named_paths/p/group.csvpaths", "r", encoding="utf-8") as fh:
    out(fh.read())
out("done")
