"""Differential demonstration for property C07:
   "collect(), next() and fast_forward() are the same run".

Run in an empty scratch directory:

    mkdir /tmp/demo && cd /tmp/demo && PYTHONPATH=<csvpath tree> python demo.py > out.txt

The script is self-contained. It writes its own ./config/config.ini (offline:
no OpenLineage listeners), its own data files, and prints a deterministic
transcript of everything observable about each run: returned lines, variables,
counters, validity, stop/frozen state, errors, printouts, unmatched lines and
(for CsvPaths runs) the listing and contents of ./archive with run directory
timestamps normalised.
"""
import io
import json
import os
import re
import shutil
import sys
import contextlib

HERE = os.getcwd()

CONFIG = """[csvpath_files]
extensions = txt, csvpath, csvpaths

[csv_files]
extensions = txt, csv, tsv, dat, tab, psv, ssv

[errors]
csvpath = raise, collect, stop, fail, print
csvpaths = raise, collect

[logging]
csvpath = info
csvpaths = info
log_file = logs/csvpath.log
log_files_to_keep = 100
log_file_size = 52428800

[config]
path = config/config.ini

[cache]
path = cache

[listeners]
[marquez]
base_url = http://localhost:5000

[functions]
imports = config/functions.imports

[results]
archive = archive
transfers = transfers

[inputs]
files = inputs/named_files
csvpaths = inputs/named_paths
on_unmatched_file_fingerprints = halt
"""

FILES = {
    "basic.csv": "a,b,c\n1,0,x\n2,,y\n3,5,\n4,0,z\n5,7,w\n6,0,\n",
    "blanks.csv": "a,b,c\n1,0,x\n\n2,,y\n\n\n3,5,z\n\n",
    "ragged.csv": "a,b,c\n1\n2,3\n4,5,6,7\n,,\n8,9,10\n",
    "lastblank.csv": "a,b,c\n1,2,3\n4,5,6\n\n",
    "header_only.csv": "a,b,c\n",
    "one.csv": "a,b,c",
    "pipes.psv": "a|b|c\n1|'x|y'|0\n2||\n3|q|9\n",
}

#
# csvpaths. {f} is replaced by the data file path.
#
PATHS = [
    ("yes", "${f}[*][yes()]"),
    ("no", "${f}[*][no()]"),
    ("from1", "${f}[1*][yes()]"),
    ("range", "${f}[1-3][yes()]"),
    ("these", "${f}[1+3+5][yes()]"),
    ("single", "${f}[2][yes()]"),
    ("eq", '${f}[*][#b == "0"]'),
    ("count_var", "${f}[1*][@c = count() @l = line_number() @s = count_scans()]"),
    ("print", '${f}[1*][print("line $.csvpath.line_number match $.csvpath.count_matches a=$.headers.a")]'),
    ("stop", '${f}[*][@n = count_lines() stop(#a == "3")]'),
    ("stop_when", '${f}[1*][#b == "5" -> stop() @seen = line_number()]'),
    ("skip", '${f}[1*][skip(#b == "0") @kept = line_number() push("as", #a)]'),
    ("advance", '${f}[1*][@l = line_number() #a == "1" -> advance(2) push("seen", #a)]'),
    ("advance_all", '${f}[*][line_number() == 1 -> advance(100) push("seen", line_number())]'),
    ("last", '${f}[*][last() -> print("last line is $.csvpath.line_number") last.nocontrib() -> @final = line_number() tally(#b)]'),
    ("fail", '${f}[1*][#b == "0" -> fail() @v = count()]'),
    ("fail_stop", '${f}[1*][@v = count() #a == "4" -> fail_and_stop()]'),
    ("print_stop_last", '${f}[*][print("at $.csvpath.line_number") last() -> print("done") stop(#a == "5")]'),
    ("collect_fn", '${f}[1*][collect("a", 2)]'),
    ("collect_bad", "${f}[1*][collect(7)]"),
    ("no_matches_mode", '~ return-mode: no-matches ~ ${f}[1*][#b == "0" @m = count()]'),
    ("unmatched_keep", '~ unmatched-mode: keep ~ ${f}[1*][#b == "0" @m = count()]'),
    ("or_mode", '~ logic-mode: OR ~ ${f}[1*][#b == "0" #c == "y"]'),
    ("no_run", "~ run-mode: no-run ~ ${f}[*][yes() @x = count()]"),
    ("onmatch", '~ id: onm ~ ${f}[1*][#b == "0" @hits.onmatch = count() print.onmatch("hit $.csvpath.count_matches")]'),
    ("err_raise", '${f}[1*][@d = divide(#a, #b)]'),
    ("err_quiet", '~ validation-mode: no-raise, no-print, no-stop, no-fail ~ ${f}[1*][@d = int(#c) @n = count()]'),
    ("err_stop_fail", '~ validation-mode: no-raise, print, stop, fail ~ ${f}[1*][@n = count_lines() @d = int(#c)]'),
    ("empty_fn", '${f}[*][empty(#c) @e = count() last() -> @end = count_lines()]'),
    ("counter_zero", '${f}[1*][@z = subtract(#a, #a) @t.increase = int(#a) #b == "0"]'),
]

SECTION_COUNT = 0


def say(*a):
    print(*a)


def section(title):
    global SECTION_COUNT
    SECTION_COUNT += 1
    say("")
    say("=" * 78)
    say(f"[{SECTION_COUNT}] {title}")
    say("=" * 78)


class Capture:
    """a printer that records everything printed by the csvpath"""

    def __init__(self):
        self.out = []

    @property
    def last_line(self):
        return self.out[-1] if self.out else None

    @property
    def lines_printed(self):
        return len(self.out)

    def print(self, string):
        self.print_to(None, string)

    def print_to(self, name, string):
        self.out.append((name, string))


_TS = re.compile(r"\d{4}-\d{2}-\d{2}_\d{2}-\d{2}-\d{2}(_\d+|\.\d+)?")
_TS2 = re.compile(r"\d{4}-\d{2}-\d{2}[ T]\d{2}:\d{2}:\d{2}(\.\d+)?(\+00:00|Z)?")


def norm(s):
    s = f"{s}"
    s = s.replace(HERE, "<cwd>")
    s = _TS.sub("<run>", s)
    s = _TS2.sub("<time>", s)
    # lark lists the expected terminals in set (hash-seed dependent) order
    i = s.find("Expected one of")
    if i > -1:
        s = s[:i] + "<expected terminals>"
    return s


def j(o):
    try:
        return norm(json.dumps(o, sort_keys=True, default=str))
    except TypeError:
        return norm(repr(o))


def errors_of(p):
    out = []
    errs = p.errors
    if errs is None:
        return None
    for e in errs:
        out.append(
            {
                "line": e.line_count,
                "match": e.match_count,
                "scan": e.scan_count,
                "class": e.error.__class__.__name__ if e.error else None,
                "error": norm(e.error),
                "message": norm(e.message),
                "datum": norm(e.datum),
                "filename": norm(e.filename),
            }
        )
    return out


def state(p, cap, label):
    say(f"  -- state after {label}")
    say("     variables:", j(p.variables))
    say("     scan_count:", p.scan_count, "match_count:", p.match_count)
    say("     current counts:", p.current_scan_count, p.current_match_count)
    say("     is_valid:", p.is_valid, "stopped:", p.stopped, "is_frozen:", p.is_frozen)
    say("     advance_count:", p.advance_count, "collecting:", p.collecting)
    try:
        say("     completed:", p.completed)
    except Exception as ex:  # pylint: disable=W0718
        say("     completed raised:", type(ex).__name__, norm(ex))
    say("     has_errors:", p.has_errors(), "errors:", j(errors_of(p)))
    say("     printouts:", j(cap.out), "last_line:", j(cap.last_line))
    say("     unmatched:", j(p.unmatched))
    say("     lines attr:", type(p.lines).__name__)
    say("     limit_collection_to:", j(p.limit_collection_to))
    say("     identity:", j(p.identity), "metadata:", j(p.metadata))
    try:
        lm = p.line_monitor
        say("     line_monitor:", norm(lm.dump()) if lm else None)
    except Exception as ex:  # pylint: disable=W0718
        say("     line_monitor raised:", type(ex).__name__, norm(ex))
    say("     run_started:", p.run_started_at is not None)
    say("     timing set:", p.total_iteration_time != -1, p.rows_time != -1)
    say("     matcher built:", p.matcher is not None)


def new_path(**kw):
    from csvpath import CsvPath

    cap = Capture()
    p = CsvPath(print_default=False, **kw)
    p.add_printer(cap)
    return p, cap


def guarded(label, fn):
    """runs fn capturing any stray stdout/stderr and exceptions"""
    so, se = io.StringIO(), io.StringIO()
    ret = None
    with contextlib.redirect_stdout(so), contextlib.redirect_stderr(se):
        try:
            ret = ("ok", fn())
        except Exception as ex:  # pylint: disable=W0718
            ret = ("raised", f"{type(ex).__name__}: {norm(ex)}")
    if so.getvalue():
        say(f"  [{label} stdout] {j(so.getvalue())}")
    if se.getvalue():
        say(f"  [{label} stderr] {j(se.getvalue())}")
    return ret


def run_three(name, path, **kw):
    say("")
    say(f"--- {name}: {path}  {kw if kw else ''}")
    #
    # collect
    #
    p, cap = new_path(**kw)
    r = guarded("collect", lambda: p.parse(path).collect())
    say("  collect ->", r[0], j(r[1]))
    state(p, cap, "collect()")
    collected = r[1] if r[0] == "ok" else []
    #
    # next
    #
    p, cap = new_path(**kw)
    got = []

    def donext():
        p.parse(path)
        for line in p.next():
            got.append(line[:])
        return got

    r = guarded("next", donext)
    say("  next    ->", r[0], j(r[1]), "partial:", j(got) if r[0] != "ok" else "")
    state(p, cap, "next()")
    say("  same lines collect/next:", collected == got)
    #
    # fast_forward
    #
    p, cap = new_path(**kw)
    r = guarded("fast_forward", lambda: p.parse(path).fast_forward())
    say("  ff      ->", r[0], j(r[1]))
    state(p, cap, "fast_forward()")
    #
    # collect(nexts=n)
    #
    for n in list(range(0, len(collected) + 2)):
        p, cap = new_path(**kw)
        r = guarded(f"collect(nexts={n})", lambda: p.parse(path).collect(nexts=n))
        say(f"  collect(nexts={n}) ->", r[0], j(r[1]))
        if r[0] == "ok":
            say("    is prefix:", r[1] == collected[: max(n, 1)])
        state(p, cap, f"collect(nexts={n})")
    #
    # interrupted next(): take the first line only, then drop the generator
    #
    p, cap = new_path(**kw)

    def first_only():
        p.parse(path)
        g = p.next()
        try:
            first = next(g)
        except StopIteration:
            first = "<<no lines>>"
        g.close()
        return first

    r = guarded("next-first", first_only)
    say("  first of next() ->", r[0], j(r[1]))
    state(p, cap, "first of next()")


class Sink:
    """any object with append() may be passed as collect(lines=...)"""

    def __init__(self):
        self.got = []

    def append(self, line):
        self.got.append(("appended", line))

    def __len__(self):
        return len(self.got)


def odd_calls():
    basic = "basic.csv"
    #
    # the csvpath string passed to the run methods rather than parse()
    #
    for m in ["collect", "fast_forward", "next"]:
        p, cap = new_path()
        path = f'${basic}[1*][@c = count() #b == "0"]'
        if m == "next":
            r = guarded(m, lambda: [_[:] for _ in p.next(path)])
        else:
            r = guarded(m, lambda: getattr(p, m)(path))
        say(f"  {m}(csvpath) ->", r[0], j(r[1]))
        state(p, cap, f"{m}(csvpath)")
    #
    # run methods with no csvpath at all
    #
    for m in ["collect", "fast_forward", "next"]:
        p, cap = new_path()
        if m == "next":
            r = guarded(m, lambda: list(p.next()))
        else:
            r = guarded(m, lambda: getattr(p, m)())
        say(f"  {m}() unparsed ->", r[0], j(r[1]))
    #
    # bad and unusual nexts
    #
    for n in [-2, -100, -1, 0, 1, 2, 2.5, 1.0, 0.5, True, False, None, "2", 10**6]:
        p, cap = new_path()
        path = f'${basic}[1*][@c = count() push("a", #a)]'
        r = guarded("nexts", lambda: p.parse(path).collect(nexts=n))
        say(f"  collect(nexts={n!r}) ->", r[0], j(r[1]))
        say("     vars:", j(p.variables), "collecting:", p.collecting, "frozen:", p.is_frozen,
            "lines attr:", type(p.lines).__name__, "stopped:", p.stopped)
    #
    # our own sink for lines
    #
    for n in [-1, 2]:
        p, cap = new_path()
        s = Sink()
        r = guarded("sink", lambda: p.parse(f'${basic}[1*][#b == "0"]').collect(lines=s, nexts=n))
        say(f"  collect(lines=Sink, nexts={n}) -> same object:", r[1] is s, "got:", j(s.got))
        say("     p.lines is sink:", p.lines is s)
        state(p, cap, "collect(lines=Sink)")
    #
    # a list as the sink
    #
    p, cap = new_path()
    mine = [["pre-existing"]]
    r = guarded("list-sink", lambda: p.parse(f'${basic}[1*][#b == "0"]').collect(lines=mine))
    say("  collect(lines=list) -> same object:", r[1] is mine, j(mine), "p.lines:", j(p.lines))
    #
    # returned lines are copies: changing them does not change a re-run
    #
    p, cap = new_path()
    r = guarded("copy", lambda: p.parse(f"${basic}[1-2][yes()]").collect())
    r[1][0][0] = "changed"
    say("  changed copy:", j(r[1]))
    #
    # repeated runs on the same instance
    #
    p, cap = new_path()
    path = f'${basic}[1*][@c = count() #b == "0" print("m $.csvpath.count_matches")]'
    r = guarded("rep1", lambda: p.parse(path).collect())
    say("  first run  ->", r[0], j(r[1]))
    state(p, cap, "first run")
    r = guarded("rep2", lambda: p.collect())
    say("  second run ->", r[0], j(r[1]))
    state(p, cap, "second run")
    r = guarded("rep3", lambda: p.fast_forward())
    say("  third run (ff) ->", r[0], j(r[1]))
    state(p, cap, "third run")
    r = guarded("rep4", lambda: [_[:] for _ in p.next()])
    say("  fourth run (next) ->", r[0], j(r[1]))
    state(p, cap, "fourth run")
    #
    # continuing after collect(nexts=n)
    #
    p, cap = new_path()
    path = f'${basic}[1*][@c = count() push("a", #a) last() -> print("end")]'
    r = guarded("part1", lambda: p.parse(path).collect(nexts=2))
    say("  collect(nexts=2) ->", r[0], j(r[1]))
    state(p, cap, "collect(nexts=2)")
    r = guarded("part2", lambda: p.collect(nexts=1))
    say("  then collect(nexts=1) ->", r[0], j(r[1]))
    state(p, cap, "collect(nexts=1) again")
    r = guarded("part3", lambda: p.collect())
    say("  then collect() ->", r[0], j(r[1]))
    state(p, cap, "collect() again")
    #
    # direct use of the variables api before, during and after freezing
    #
    p, cap = new_path()
    p.parse(f"${basic}[*][yes()]")
    p.set_variable("v", value=0)
    p.set_variable("t", value="", tracking=0)
    p.set_variable("l", value=[1, 2])
    say("  get unfrozen:", j(p.get_variable("l")), j(p.get_variable("nope", set_if_none=[])),
        j(p.get_variable("tt", tracking="k", set_if_none=0)), j(p.get_variable("t", tracking=0)))
    say("  vars:", j(p.variables), "frozen:", p.is_frozen)
    p.fast_forward()
    say("  frozen after ff:", p.is_frozen)
    p.set_variable("v", value=99)
    p.set_variable("new", value=1, tracking="x")
    say("  get frozen:", j(p.get_variable("l")), type(p.get_variable("l")).__name__,
        j(p.get_variable("nope2", set_if_none=[])),
        j(p.get_variable("tt2", tracking="k", set_if_none=0)))
    say("  vars:", j(p.variables))
    p.is_frozen = False
    p.set_variable("v", value=100)
    say("  unfrozen again:", p.is_frozen, j(p.variables))
    p.is_frozen = 0
    say("  is_frozen set to 0 returns:", repr(p.is_frozen))
    p.is_frozen = "yes"
    p.set_variable("v", value=101)
    say("  is_frozen set to 'yes' returns:", repr(p.is_frozen), j(p.variables))
    for bad in [None, "", "  "]:
        p.is_frozen = False
        r = guarded("badname", lambda: p.set_variable(bad, value=1))
        say(f"  set_variable({bad!r}) unfrozen ->", r[0], j(r[1]))
        p.is_frozen = True
        r = guarded("badname", lambda: p.set_variable(bad, value=1))
        say(f"  set_variable({bad!r}) frozen ->", r[0], j(r[1]))
    #
    # direct use of advance, stop, limit_collection and the counters
    #
    p, cap = new_path()
    p.parse(f"${basic}[*][yes()]")
    say("  advance_count:", p.advance_count)
    for ff in [2, 0, -1, 3, 1000, None]:
        r = guarded("advance", lambda: p.advance(ff))
        say(f"  advance({ff}) ->", r[0], j(r[1]), "advance_count:", p.advance_count)
    p.advance_count = 2
    r = guarded("adv-collect", p.collect)
    say("  collect with advance_count=2 ->", r[0], j(r[1]), "advance_count:", p.advance_count)
    state(p, cap, "preset advance")
    p, cap = new_path()
    p.parse(f"${basic}[*][yes()]")
    p.stop()
    r = guarded("stopped-collect", p.collect)
    say("  collect when already stopped ->", r[0], j(r[1]))
    state(p, cap, "already stopped")
    p, cap = new_path()
    p.parse(f"${basic}[*][yes()]")
    for lim in [[], [0], [2, 0], [0, 0], [5], [None], [-1]]:
        p.limit_collection_to = lim
        r = guarded("limit", lambda: p.limit_collection(["p", "q", "r"]))
        say(f"  limit_collection to {lim} ->", r[0], j(r[1]))
        r = guarded("limit", lambda: p.limit_collection([]))
        say(f"  limit_collection of [] to {lim} ->", r[0], j(r[1]))
    p.limit_collection_to = [1]
    r = guarded("limit-collect", p.collect)
    say("  collect limited to [1] ->", r[0], j(r[1]))
    p, cap = new_path()
    p.parse(f"${basic}[*][yes()]")
    p.limit_collection_to = [9]
    r = guarded("limit-collect", p.collect)
    say("  collect limited to [9] ->", r[0], j(r[1]))
    state(p, cap, "limit [9]")
    p, cap = new_path()
    p.parse(f'${basic}[1*][#b == "0"]')
    for i in range(3):
        p.raise_match_count_if()
        say("  raise_match_count_if ->", p.match_count)
    #
    # _consider_line driven by hand, the way CsvPaths' by-line methods do
    #
    for cw in [False, True]:
        p, cap = new_path()
        p.parse(f'$blanks.csv[1*][#b == "0" @n = count()]')
        p.collect_when_not_matched = cw
        outs = []
        for line in [["a", "b", "c"], ["1", "0", "x"], [], ["2", "", "y"], [], [], ["3", "5", "z"], []]:
            p.track_line(line)
            outs.append(p._consider_line(line))
        say(f"  by hand (collect_when_not_matched={cw}):", outs)
        state(p, cap, "by hand")
    #
    # skip_blank_lines=False and other constructor settings
    #
    run_three("noskip_blanks", "$blanks.csv[*][yes() @n = count()]", skip_blank_lines=False)
    run_three("noskip_lastblank", '$lastblank.csv[*][last() -> print("L") @n = count()]', skip_blank_lines=False)
    run_three("pipes", '$pipes.psv[1*][@b = #b empty(#c)]', delimiter="|", quotechar="'")
    #
    # missing file, bad csvpaths
    #
    for path in ["$nope.csv[*][yes()]", "$basic.csv[*]", "$basic.csv[*][yes(]", "basic.csv[*][yes()]", "", None,
                 "$basic.csv[*][nosuchfunction()]", "$[*][yes()]"]:
        for m in ["collect", "fast_forward", "next"]:
            p, cap = new_path()
            if m == "next":
                r = guarded(m, lambda: list(p.next(path)))
            else:
                r = guarded(m, lambda: getattr(p, m)(path))
            say(f"  {m}({path!r}) ->", r[0], j(r[1]))
            say("     frozen:", p.is_frozen, "stopped:", p.stopped, "valid:", p.is_valid, "errors:", j(errors_of(p)))


def tree(root):
    out = []
    for dirpath, dirnames, filenames in os.walk(root):
        dirnames.sort()
        for f in sorted(filenames):
            out.append(os.path.join(dirpath, f))
    return out


def show_archive(name):
    root = os.path.join("archive", name)
    if not os.path.exists(root):
        say("  no archive for", name)
        return
    runs = sorted(os.listdir(root))
    idx = 0
    for run in runs:
        rp = os.path.join(root, run)
        if not os.path.isdir(rp):
            say("  file:", norm(rp))
            continue
        idx += 1
        for f in tree(rp):
            rel = os.path.relpath(f, rp)
            say(f"  run#{idx}/{rel}")
            base = os.path.basename(f)
            with open(f, "r", encoding="utf-8") as fh:
                txt = fh.read()
            if base in ("data.csv", "unmatched.csv", "printouts.txt", "vars.json"):
                say("      " + j(txt))
            elif base == "errors.json":
                try:
                    es = json.loads(txt)
                    slim = [
                        {k: norm(e.get(k)) for k in ("line_count", "match_count", "scan_count", "error", "message", "datum")}
                        for e in es
                    ]
                    say("      " + j(slim))
                except Exception as ex:  # pylint: disable=W0718
                    say("      unreadable errors.json", type(ex).__name__)
            elif base == "meta.json":
                try:
                    m = json.loads(txt)
                    rt = m.get("runtime_data", {})
                    keep = {
                        k: rt.get(k)
                        for k in (
                            "count_lines", "count_matches", "count_scans", "stopped", "valid", "completed",
                            "lines_collected", "unmatched_available", "number_of_errors", "scan_part", "match_part",
                            "lines_time", "total_lines", "line_monitor",
                        )
                        if k in rt
                    }
                    keep.pop("lines_time", None)
                    say("      runtime_data keys:", j(sorted(rt.keys())))
                    say("      " + j(keep))
                except Exception as ex:  # pylint: disable=W0718
                    say("      unreadable meta.json", type(ex).__name__)
            elif base == "manifest.json":
                try:
                    m = json.loads(txt)
                    keep = {
                        k: m.get(k)
                        for k in ("all_completed", "all_valid", "error_count", "all_expected_files", "valid", "completed",
                                  "files_expected", "number_of_files_expected", "number_of_files_generated")
                        if k in m
                    }
                    say("      manifest keys:", j(sorted(m.keys())) if isinstance(m, dict) else "list")
                    say("      " + j(keep))
                except Exception as ex:  # pylint: disable=W0718
                    say("      unreadable manifest.json", type(ex).__name__)


def result_state(cp, name):
    try:
        rs = cp.results_manager.get_named_results(name)
    except Exception as ex:  # pylint: disable=W0718
        say("  get_named_results raised", type(ex).__name__, norm(ex))
        return
    for i, r in enumerate(rs):
        p = r.csvpath
        try:
            ln = len(r.lines) if r.lines is not None else None
        except Exception as ex:  # pylint: disable=W0718
            ln = f"{type(ex).__name__}"
        try:
            data = [l for l in r.lines.next()] if r.lines is not None and hasattr(r.lines, "next") else None
        except Exception as ex:  # pylint: disable=W0718
            data = f"{type(ex).__name__}"
        say(f"  result {i} id={p.identity!r}: lines={ln} data={j(data)}")
        say("     variables:", j(r.variables), "valid:", r.is_valid, "stopped:", p.stopped, "frozen:", p.is_frozen)
        say("     counts:", p.scan_count, p.match_count, "advance:", p.advance_count, "collecting:", p.collecting)
        say("     errors:", j([{"line": e.line_count, "msg": norm(e.message), "cls": e.error.__class__.__name__} for e in (r.errors or [])]))
        say("     printouts:", j(r.printouts) if hasattr(r, "printouts") else None)
        say("     unmatched:", j(r.unmatched))


GROUP = [
    '~ id: all ~ $[*][yes()]',
    '~ id: zeros unmatched-mode: keep ~ $[1*][#b == "0" @z = count() print("zero at $.csvpath.line_number")]',
    '~ id: stopper ~ $[1*][@n = count_lines() stop(#a == "3") push("as", #a)]',
    '~ id: advancer ~ $[1*][#a == "1" -> advance(2) @l = line_number() last() -> print("adv last")]',
    '~ id: failer validation-mode: no-raise, no-print ~ $[1*][#b == "5" -> fail() @d = int(#c)]',
    '~ id: skipper return-mode: no-matches ~ $[1*][skip(#c == "y") #b == "0"]',
    '~ id: picker ~ $[1*][collect("c", "a") last() -> @total = count()]',
    '~ id: norun run-mode: no-run ~ $[*][yes()]',
]


def groups():
    from csvpath import CsvPaths

    for fname in ["basic.csv", "blanks.csv", "ragged.csv", "lastblank.csv"]:
        for method in [
            "collect_paths",
            "fast_forward_paths",
            "next_paths",
            "collect_by_line",
            "fast_forward_by_line",
            "next_by_line",
        ]:
            name = f"g_{method}_{fname.split('.')[0]}"
            say("")
            say(f"--- CsvPaths.{method} on {fname} as {name}")
            cp = CsvPaths()
            so = io.StringIO()
            with contextlib.redirect_stdout(so), contextlib.redirect_stderr(io.StringIO()):
                try:
                    cp.file_manager.add_named_file(name="f", path=fname)
                    cp.paths_manager.add_named_paths(name=name, paths=GROUP)
                    m = getattr(cp, method)
                    if method.startswith("next"):
                        got = [(_[:] if isinstance(_, list) else _) for _ in m(filename="f", pathsname=name)]
                    else:
                        got = m(filename="f", pathsname=name)
                    outcome = ("ok", got)
                except Exception as ex:  # pylint: disable=W0718
                    outcome = ("raised", f"{type(ex).__name__}: {norm(ex)}")
            say("  ->", outcome[0], j(outcome[1]))
            say("  stdout:", j(so.getvalue()))
            result_state(cp, name)
            show_archive(name)


def main():
    for d in ["archive", "cache", "logs", "inputs", "transfers", "config"]:
        if os.path.exists(d):
            shutil.rmtree(d)
    os.makedirs("config")
    with open("config/config.ini", "w", encoding="utf-8") as f:
        f.write(CONFIG)
    with open("config/functions.imports", "w", encoding="utf-8") as f:
        f.write("")
    for name, content in FILES.items():
        with open(name, "w", encoding="utf-8") as f:
            f.write(content)

    for fname in ["basic.csv", "blanks.csv", "ragged.csv", "lastblank.csv", "header_only.csv", "one.csv"]:
        section(f"collect / next / fast_forward / collect(nexts=n) on {fname}")
        for name, path in PATHS:
            run_three(f"{fname}:{name}", path.replace("{f}", fname))

    section("odd calls, direct api use, constructor settings, bad input")
    odd_calls()

    section("CsvPaths groups and the archive")
    groups()

    say("")
    say("END OF TRANSCRIPT")


if __name__ == "__main__":
    main()
