#!/usr/bin/env python
"""Differential demonstration for property C09 ("the archived results of a run
say what the run did").

The script is standalone: it makes its own scratch working directory, writes an
offline ./config/config.ini, a handful of CSV files (quotes, delimiters,
embedded newlines, blank lines, ragged rows, empty values, zeros, empty file)
and several named-paths groups, runs them through all six CsvPaths run methods
(some repeatedly) and prints a deterministic transcript of everything
observable: lines returned, variables, validity, errors, printouts and the
complete contents of ./archive and ./transfers (run-dir names, timestamps,
uuids, timings and the scratch dir normalised). It also re-checks the property
itself against the bytes on disk.

usage:  PYTHONPATH=<csvpath checkout> python demo.py > transcript.txt
"""
import csv
import hashlib
import io
import json
import os
import re
import shutil
import sys
import tempfile

WORK = tempfile.mkdtemp(prefix="demo_TYC09_")
os.chdir(WORK)

CONFIG = """[csvpath_files]
extensions = txt, csvpath, csvpaths

[csv_files]
extensions = txt, csv, tsv, dat, tab, psv, ssv

[errors]
csvpath = collect, fail, print
csvpaths = collect

[logging]
csvpath = info
csvpaths = info
log_file = logs/csvpath.log
log_files_to_keep = 100
log_file_size = 52428800

[config]
path = config/config.ini

[cache]
path = cache

[listeners]
[marquez]
base_url = http://localhost:5000

[functions]
imports = config/functions.imports

[results]
archive = archive
transfers = transfers

[inputs]
files = inputs/named_files
csvpaths = inputs/named_paths
on_unmatched_file_fingerprints = halt
"""
os.makedirs("config")
with open("config/config.ini", "w", encoding="utf-8") as f:
    f.write(CONFIG)
with open("config/functions.imports", "w", encoding="utf-8") as f:
    f.write("")

import csvpath as _csvpath_pkg  # noqa: E402
from csvpath import CsvPaths  # noqa: E402
from csvpath.util.line_spooler import (  # noqa: E402
    LineSpooler,
    CsvLineSpooler,
    ListLineSpooler,
)
from csvpath.managers.results.result_serializer import ResultSerializer  # noqa: E402
from csvpath.managers.results.result_registrar import ResultRegistrar  # noqa: E402
from csvpath.managers.results.results_registrar import ResultsRegistrar  # noqa: E402

# ---------------------------------------------------------------- inputs

FILES = {
    "plain": "a,b,c\n1,x,0\n2,,0.0\n3,x,\n4,y,7\n0,0,0\n",
    "tricky": (
        "a,b,c\n"
        '1,"he said ""hi""",x\n'
        '2,"comma, inside",y\n'
        "\n"
        '3,"line\nbreak",z\n'
        "4,ragged\n"
        "5,too,many,cells,here\n"
        '6,"",\n'
        "   \n"
        "7,'single',\"semi;colon\"\n"
        "\n"
    ),
    "headeronly": "a,b,c\n",
    "empty": "",
    "blanktail": "a,b,c\n1,2,3\n\n\n",
    "semi": "a;b;c\n1;'x;y';0\n2;'it''s';\n3;;z\n",
}

GROUPS = {
    "basic": ["$[*][yes()]", '~id:two~ $[*][#a=="3"]'],
    "noids": ['$[1*][#b == "x"]', "$[*][no()]", "$[0][yes()]"],
    "vars": [
        """~ id:counter ~ $[*][ @c = count() @z = 0 @e = "" @f = 1.5 push("as", #a) yes() ]""",
        """~ id:tally ~ $[1*][ tally(#b) @last.onmatch = line_number() #a ]""",
    ],
    "stopfail": [
        """~ id:stopper ~ $[*][ @n = count_lines() stop(@n == 3) ]""",
        """~ id:failer ~ $[*][ #a == "3" -> fail() yes() ]""",
        """~ id:both ~ $[*][ #a == "2" -> fail_and_stop() ]""",
        """~ id:skipper ~ $[*][ skip(#a == "2") @seen = count() ]""",
    ],
    "prints": [
        """~ id:printer ~ $[*][ print("line $.csvpath.line_number a=$.headers.a b=$.headers.b") ]""",
        """~ id:silent print-mode: no-default ~ $[1-2][ print("only here $.csvpath.count_matches") ]""",
        """~ id:nothing ~ $[*][ yes() ]""",
    ],
    "errs": [
        """~ id:adder validation-mode: no-raise, no-stop, print ~ $[*][ @s = add(#a, #b) ]""",
        """~ id:divider validation-mode: no-raise, no-stop, no-print, fail ~ $[1*][ @d = divide(#a, #c) ]""",
        """~ id:fine ~ $[*][ yes() ]""",
    ],
    "unmatched": [
        """~ id:um unmatched-mode: keep files-mode: all ~ $[*][ #b == "x" print("m $.csvpath.line_number") ]""",
        """~ id:um2 unmatched-mode: keep files-mode: data, unmatched ~ $[*][ no() ]""",
        """~ id:um3 unmatched-mode: no-keep files-mode: printouts ~ $[*][ yes() ]""",
    ],
    "transfer": [
        """~ id:tr transfer-mode: data > out ~ $[*][ @out = "t/out.csv" yes() ]""",
        """~ id:tr2 unmatched-mode: keep transfer-mode: data > d, data > e ~ $[*][ @d = "d2.csv" @e = "sub/e2.csv" #a == "1" ]""",
    ],
    # known behaviour of HEAD: unmatched.csv is transferred before it is written,
    # so this group always raises FileNotFoundError out of save()
    "transfer_um": [
        """~ id:ok ~ $[*][ yes() ]""",
        """~ id:tru unmatched-mode: keep transfer-mode: unmatched > u ~ $[*][ @u = "sub/u2.csv" #a == "1" ]""",
    ],
    "transfer_bad": [
        """~ id:novar transfer-mode: data > missing ~ $[*][ yes() ]""",
    ],
    "transfer_dots": [
        """~ id:dots transfer-mode: data > out ~ $[*][ @out = "../x.csv" yes() ]""",
    ],
    "preceding": [
        """~ id:first ~ $[*][ or(#a == "a", #a == "1", #a == "3", #a == "5") ]""",
        """~ id:second source-mode: preceding ~ $[*][ @n = count() yes() ]""",
        """~ id:third source-mode: preceding ~ $[*][ no() ]""",
        """~ id:fourth source-mode: preceding ~ $[*][ yes() ]""",
    ],
    "norun": [
        """~ id:skipme run-mode: no-run ~ $[*][ yes() ]""",
        """~ id:runme ~ $[*][ yes() ]""",
    ],
    "raiser": [
        """~ id:ok ~ $[*][ yes() ]""",
        """~ id:boom validation-mode: raise, no-stop ~ $[*][ @s = add(#a, #b) ]""",
        """~ id:never ~ $[*][ yes() ]""",
    ],
}

METHODS = [
    "collect_paths",
    "fast_forward_paths",
    "next_paths",
    "collect_by_line",
    "fast_forward_by_line",
    "next_by_line",
]

# ---------------------------------------------------------------- normalising

SRC_ROOT = os.path.dirname(os.path.dirname(os.path.abspath(_csvpath_pkg.__file__)))

SUBS = [
    (re.compile(re.escape(WORK)), "<WORK>"),
    (re.compile(re.escape(SRC_ROOT)), "<SRC>"),
    (re.compile(r"\d{4}-\d\d-\d\d_\d\d-\d\d-\d\d(\.\d+)?"), "<RUN>"),
    (re.compile(r"\d{4}-\d\d-\d\d_"), "<DATE>_"),
    (
        re.compile(r"\d{4}-\d\d-\d\d[ T]\d\d:\d\d:\d\d(\.\d+)?(\+00:00)?"),
        "<TIME>",
    ),
    (
        re.compile(r"[A-Z][a-z]{2} [A-Z][a-z]{2} [ \d]\d \d\d:\d\d:\d\d \d{4}"),
        "<CTIME>",
    ),
    (
        re.compile(
            r"[0-9a-f]{8}-[0-9a-f]{4}-[0-9a-f]{4}-[0-9a-f]{4}-[0-9a-f]{12}", re.I
        ),
        "<UUID>",
    ),
    (re.compile(r'("(?:lines_time|last_line_time)": )[0-9.e-]+'), r"\1<SECS>"),
    # meta.json and errors.json embed times, so their digests vary run to run;
    # check_property() compares every digest with the bytes on disk instead
    (
        re.compile(r'("(?:meta|errors)\.json": ")[0-9a-f]{64}'),
        r"\1<SHA256 checked against disk>",
    ),
    (re.compile(r", line \d+, in "), ", line <N>, in "),
    (re.compile(r" object at 0x[0-9a-f]+"), " object at 0x<ADDR>"),
]


def norm(s: str) -> str:
    for rx, to in SUBS:
        s = rx.sub(to, s)
    return s


def out(*args) -> None:
    print(norm(" ".join(str(a) for a in args)))


def run_sort_key(name: str):
    t, dot, n = name.partition(".")
    return (t, int(n) if dot else -1)


def sha(path: str) -> str:
    with open(path, "rb") as fh:
        return hashlib.sha256(fh.read()).hexdigest()


# ---------------------------------------------------------------- dumping


def result_lines(result):
    ls = result.lines
    if isinstance(ls, LineSpooler) and not isinstance(ls, ListLineSpooler):
        return [list(_) for _ in ls.next()]
    if isinstance(ls, ListLineSpooler):
        return [list(_) for _ in ls.sink]
    return None if ls is None else [list(_) for _ in ls]


def dump_memory(cp, group):
    try:
        results = cp.results_manager.get_named_results(group)
    except Exception as e:  # pylint: disable=W0718
        out("  no in-memory results:", type(e).__name__)
        return []
    out("  in-memory results:", len(results))
    rm = cp.results_manager
    out(
        "  manager: valid=%s has_lines=%s has_errors=%s n=%s"
        % (
            rm.is_valid(group),
            rm.has_lines(group),
            rm.has_errors(group),
            rm.get_number_of_results(group),
        )
    )
    out("  manager variables:", json.dumps(rm.get_variables(group), sort_keys=True))
    for r in results:
        p = r.csvpath
        out("  - identity_or_index:", repr(r.identity_or_index), "run_index:", r.run_index)
        out(
            "    is_valid=%s completed=%s stopped=%s by_line=%s preceding=%s"
            % (r.is_valid, p.completed, p.stopped, r.by_line, r.source_mode_preceding)
        )
        out("    instance_dir:", r.instance_dir)
        out("    variables:", json.dumps(r.variables, sort_keys=True, default=str))
        out("    errors_count:", r.errors_count, "has_errors:", r.has_errors())
        for e in r.errors:
            j = e.to_json()
            out(
                "      error: line=%s match=%s scan=%s error=%r message=%r datum=%r file=%r"
                % (
                    j["line_count"],
                    j["match_count"],
                    j["scan_count"],
                    j["error"],
                    j["message"],
                    j["datum"],
                    j["filename"],
                )
            )
        out("    printouts:", json.dumps(r.get_printouts()))
        out("    lines_printed:", r.lines_printed, "last_line:", repr(r.last_line))
        ls = r.lines
        out(
            "    lines container:",
            type(ls).__name__,
            "closed=%s" % getattr(ls, "closed", None),
            "len=%s" % (len(ls) if ls is not None else None),
        )
        out("    lines:", json.dumps(result_lines(r)))
        out("    len(result):", len(r))
        out("    unmatched:", json.dumps(r.unmatched))
        out("    str:", end_of(lambda r=r: " ".join(str(r).split())))
    return results


def dump_tree(root):
    if not os.path.exists(root):
        out("  (no %s directory)" % root)
        return
    for base, dirs, files in os.walk(root):
        dirs.sort(key=run_sort_key)
        files.sort()
        rel = os.path.relpath(base, ".")
        out("  [dir] %s" % rel)
        for fn in files:
            path = os.path.join(base, fn)
            with open(path, "rb") as fh:
                data = fh.read()
            out("  [file] %s (%s)" % (os.path.join(rel, fn), "empty" if not data else "bytes"))
            text = data.decode("utf-8")
            for ln in text.splitlines(keepends=True):
                out("      | " + repr(ln)[1:-1])


def check_property(cp, group, results, delimiter, quotechar):
    """re-derive the statement of C09 from disk and memory and say OK / MISMATCH"""
    problems = []
    if not results:
        out("  property check: no results to check")
        return
    run_dir = results[0].run_dir
    try:
        with open(os.path.join(run_dir, "manifest.json"), encoding="utf-8") as fh:
            rman = json.load(fh)
    except Exception as e:  # pylint: disable=W0718
        out("  property check: cannot read run manifest:", type(e).__name__)
        return
    if rman.get("status") != "complete":
        problems.append("run status is %r" % rman.get("status"))
    if rman.get("all_valid") != all(r.csvpath.is_valid for r in results):
        problems.append("all_valid")
    if rman.get("all_completed") != all(r.csvpath.completed for r in results):
        problems.append("all_completed")
    if rman.get("error_count") != sum(len(r.errors) for r in results):
        problems.append("error_count")
    for r in results:
        d = os.path.join(run_dir, r.identity_or_index)
        tag = r.identity_or_index
        for need in ("meta.json", "vars.json", "errors.json", "manifest.json"):
            if not os.path.exists(os.path.join(d, need)):
                problems.append("%s: missing %s" % (tag, need))
        try:
            with open(os.path.join(d, "vars.json"), encoding="utf-8") as fh:
                if json.load(fh) != json.loads(json.dumps(r.variables)):
                    problems.append("%s: vars.json" % tag)
            with open(os.path.join(d, "errors.json"), encoding="utf-8") as fh:
                if json.load(fh) != json.loads(
                    json.dumps([e.to_json() for e in r.errors])
                ):
                    problems.append("%s: errors.json" % tag)
            with open(os.path.join(d, "manifest.json"), encoding="utf-8") as fh:
                man = json.load(fh)
        except Exception as e:  # pylint: disable=W0718
            problems.append("%s: unreadable json %s" % (tag, type(e).__name__))
            continue
        if man.get("valid") != r.csvpath.is_valid:
            problems.append("%s: valid" % tag)
        if man.get("completed") != r.csvpath.completed:
            problems.append("%s: completed" % tag)
        fps = man.get("file_fingerprints") or {}
        on_disk = sorted(
            f
            for f in os.listdir(d)
            if f != "manifest.json" and os.path.isfile(os.path.join(d, f))
        )
        if sorted(fps) != on_disk:
            problems.append("%s: fingerprint names %s != %s" % (tag, sorted(fps), on_disk))
        for k, v in fps.items():
            if os.path.exists(os.path.join(d, k)) and sha(os.path.join(d, k)) != v:
                problems.append("%s: fingerprint of %s" % (tag, k))
        # printouts in order
        pos = r.get_printouts()
        ppath = os.path.join(d, "printouts.txt")
        expected = ""
        for k, v in pos.items():
            expected += "---- PRINTOUT: %s\n" % k
            for s in v:
                expected += "%s\n" % s
        has = any(v for v in pos.values())
        if has != os.path.exists(ppath):
            problems.append("%s: printouts.txt existence" % tag)
        elif has:
            with open(ppath, encoding="utf-8") as fh:
                if fh.read() != expected:
                    problems.append("%s: printouts.txt content" % tag)
        # data.csv / unmatched.csv parse back
        for fname, mem in (("data.csv", result_lines(r)), ("unmatched.csv", r.unmatched)):
            path = os.path.join(d, fname)
            if os.path.exists(path):
                with open(path, newline="", encoding="utf-8") as fh:
                    back = [
                        row
                        for row in csv.reader(
                            fh, delimiter=delimiter, quotechar=quotechar
                        )
                    ]
                if back != [[str(c) for c in row] for row in (mem or [])]:
                    problems.append("%s: %s does not parse back" % (tag, fname))
            elif mem:
                problems.append("%s: %s missing but %s lines in memory" % (tag, fname, len(mem)))
    out("  property check:", "OK" if not problems else "MISMATCH " + "; ".join(problems))


# ---------------------------------------------------------------- running


def new_paths(delimiter=",", quotechar='"'):
    cp = CsvPaths(delimiter=delimiter, quotechar=quotechar)
    for name in FILES:
        cp.file_manager.add_named_file(name=name, path=os.path.join("data", name + ".csv"))
    for name, paths in GROUPS.items():
        cp.paths_manager.add_named_paths(name=name, paths=paths)
    return cp


def run(cp, method, group, file, delimiter=",", quotechar='"', **kw):
    out("")
    out("=" * 78)
    out("RUN method=%s group=%s file=%s %s" % (method, group, file, kw if kw else ""))
    ret = None
    raised = False
    try:
        m = getattr(cp, method)
        ret = m(pathsname=group, filename=file, **kw)
        if method.startswith("next"):
            ret = [list(_) for _ in ret]
        out("  returned:", json.dumps(ret))
    except Exception as e:  # pylint: disable=W0718
        raised = True
        out("  raised:", type(e).__name__, str(e).split("\n")[0][:200])
    results = dump_memory(cp, group)
    if raised:
        out("  property check: n/a, the run did not return normally")
    else:
        check_property(cp, group, results, delimiter, quotechar)
    return results


def reset_outputs():
    for d in ("archive", "transfers"):
        if os.path.exists(d):
            shutil.rmtree(d)
        os.makedirs(d)


def main():
    os.makedirs("data")
    for name, content in FILES.items():
        with open(os.path.join("data", name + ".csv"), "w", encoding="utf-8", newline="") as fh:
            fh.write(content)

    # ---- 1. every group x every method on the plain file
    out("#" * 78)
    out("# SECTION 1: all groups, all six methods, plain file")
    for group in GROUPS:
        reset_outputs()
        cp = new_paths()
        for method in METHODS:
            if group in ("preceding", "transfer") and "by_line" in method:
                # exercised separately below; by_line refuses source-mode preceding
                pass
            kw = {}
            if method in ("next_paths", "next_by_line"):
                kw = {"collect": True}
            run(cp, method, group, "plain", **kw)
        out("")
        out("ARCHIVE after group %s" % group)
        dump_tree("archive")
        dump_tree("transfers")

    # ---- 2. awkward files
    out("#" * 78)
    out("# SECTION 2: awkward files")
    for file in ("tricky", "headeronly", "empty", "blanktail"):
        reset_outputs()
        cp = new_paths()
        for group in ("basic", "vars", "unmatched", "prints", "stopfail", "preceding"):
            for method in ("collect_paths", "next_paths", "collect_by_line", "fast_forward_paths"):
                kw = {"collect": True} if method == "next_paths" else {}
                run(cp, method, group, file, **kw)
        out("")
        out("ARCHIVE after file %s" % file)
        dump_tree("archive")

    # ---- 3. another dialect
    out("#" * 78)
    out("# SECTION 3: semicolon delimiter, single-quote quotechar")
    reset_outputs()
    cp = new_paths(delimiter=";", quotechar="'")
    for group in ("basic", "unmatched", "preceding"):
        for method in ("collect_paths", "collect_by_line", "next_paths"):
            kw = {"collect": True} if method == "next_paths" else {}
            run(cp, method, group, "semi", delimiter=";", quotechar="'", **kw)
    dump_tree("archive")

    # ---- 4. by_line options and repeated runs on one instance
    out("#" * 78)
    out("# SECTION 4: by_line options; repeated runs; reuse of one CsvPaths")
    reset_outputs()
    cp = new_paths()
    run(cp, "collect_by_line", "basic", "plain", if_all_agree=True)
    run(cp, "collect_by_line", "basic", "plain", if_all_agree=False, collect_when_not_matched=True)
    run(cp, "next_by_line", "stopfail", "tricky", collect=True, if_all_agree=True)
    run(cp, "next_by_line", "stopfail", "tricky", collect=False)
    for _ in range(3):
        run(cp, "collect_paths", "vars", "plain")
    dump_tree("archive")

    # ---- 5. direct use of the pieces
    out("#" * 78)
    out("# SECTION 5: registrar / serializer / spooler used directly")
    reset_outputs()
    cp = new_paths()
    results = run(cp, "collect_paths", "unmatched", "tricky")
    rs = ResultSerializer(cp.config.archive_path)
    for r in results:
        rr = ResultRegistrar(csvpaths=cp, result=r, result_serializer=rs)
        out("  registrar for", r.identity_or_index)
        out("    result_path:", rr.result_path)
        out("    manifest_path:", rr.manifest_path)
        out("    archive_name:", rr.archive_name)
        out("    completed:", rr.completed, "all_expected_files:", rr.all_expected_files)
        out(
            "    has_file:",
            [(t, rr.has_file(t)) for t in ("data.csv", "unmatched.csv", "printouts.txt", "nope", "")],
        )
        fps = rr.file_fingerprints
        out("    file_fingerprints keys:", list(fps.keys()))
        out(
            "    file_fingerprints match disk:",
            all(sha(os.path.join(rr.result_path, k)) == v for k, v in fps.items()),
        )
        for k, v in fps.items():
            if k != "meta.json":
                out("      %s %s" % (k, v))
        out("    _fingerprint(missing):", rr._fingerprint(os.path.join(rr.result_path, "zzz")))
        man = rr.manifest
        out("    manifest keys:", list(man.keys()))
        out("    manifest == fingerprints:", man["file_fingerprints"] == fps)
        out("    named_paths_manifest status:", rr.named_paths_manifest["status"])
        out(
            "    specific manifest same:",
            cp.results_manager.get_specific_named_result_manifest("unmatched", r.identity_or_index)
            == man,
        )
        # files-mode variations evaluated against the same directory
        keep = r.csvpath.all_expected_files
        for efs in (
            None,
            [],
            ["data"],
            ["unmatched"],
            ["printouts"],
            ["all"],
            ["no-data"],
            ["no-unmatched"],
            ["no-printouts"],
            [" data ", "no-printouts"],
            ["vars", "errors", "meta"],
            ["bogus"],
        ):
            r.csvpath.all_expected_files = efs
            out("    all_expected_files for %r -> %s" % (efs, rr.all_expected_files))
        r.csvpath.all_expected_files = keep
    # a registrar for a result whose instance dir does not exist yet
    r0 = results[0]
    fresh = os.path.join("archive", "unmatched", "fresh_run")
    keep_dir = r0.run_dir
    r0.run_dir = fresh
    rr = ResultRegistrar(csvpaths=cp, result=r0, result_serializer=rs)
    # elements that are not strings blow up before (5) or after (bytes) the
    # strip(); either way before any file is looked for, so no dir is made
    keep = r0.csvpath.all_expected_files
    for efs in ([5], [b"data"], ["data", None], 7):
        r0.csvpath.all_expected_files = efs
        out(
            "  fresh all_expected_files for %r ->" % (efs,),
            end_of(lambda: rr.all_expected_files),
            "; dir exists:",
            os.path.exists(fresh),
        )
        if os.path.exists(fresh):
            shutil.rmtree(fresh)
    r0.csvpath.all_expected_files = keep
    out("  fresh dir exists before:", os.path.exists(fresh))
    out("  fresh all_expected_files:", rr.all_expected_files)
    out("  fresh dir exists after:", os.path.exists(os.path.join(fresh, r0.identity_or_index)))
    out("  fresh file_fingerprints:", rr.file_fingerprints)
    out("  fresh manifest:", rr.manifest, "then", rr.manifest)
    out("  fresh named_paths_manifest:", rr.named_paths_manifest)
    r0.run_dir = keep_dir
    results_reg = ResultsRegistrar(
        csvpaths=cp, run_dir=keep_dir, pathsname="unmatched", results=results
    )
    out(
        "  results registrar: all_valid=%s all_completed=%s error_count=%s all_expected_files=%s"
        % (
            results_reg.all_valid(),
            results_reg.all_completed(),
            results_reg.error_count(),
            results_reg.all_expected_files(),
        )
    )
    out("  results registrar manifest status:", results_reg.manifest["status"])
    dump_tree("archive")

    # spooler on its own
    out("")
    out("  -- CsvLineSpooler directly")
    reset_outputs()
    cp = new_paths()
    results = run(cp, "fast_forward_paths", "basic", "plain")
    r = results[0]
    sp = CsvLineSpooler(r)
    out("  bytes before:", sp.bytes_written(), "len:", len(sp), "closed:", sp.closed)
    out("  next() before any data:", list(sp.next()))
    rows = [
        ["1", "plain", "x"],
        ["2", 'q"uote', "com,ma"],
        ["3", "new\nline", ""],
        [],
        [""],
        [0, 0.0, None, True],
        ("tu", "ple"),
        "str",
        ["trail ", " lead", "\t"],
    ]
    for row in rows:
        sp.append(row)
        out("  appended %r -> len=%s" % (row, len(sp)))
    for bad in (5, None):
        try:
            sp.append(bad)
            out("  appended", repr(bad))
        except Exception as e:  # pylint: disable=W0718
            out("  append(%r) raised %s: %s; len=%s" % (bad, type(e).__name__, e, len(sp)))
    sp.close()
    out("  closed:", sp.closed, "sink:", sp.sink, "bytes:", sp.bytes_written(), "len:", len(sp))
    out("  read back:", json.dumps([list(_) for _ in sp.next()]))
    sp.close()
    out("  closed twice:", sp.closed)
    # spooler with nowhere to write
    class _NoScanner:  # pylint: disable=R0903
        csvpath = None
        run_dir = "nowhere"

    sp2 = CsvLineSpooler(_NoScanner())
    try:
        sp2.append(["x"])
    except Exception as e:  # pylint: disable=W0718
        out("  append with no csvpath raised", type(e).__name__, str(e)[:60])
    out("  sp2 bytes_written raises:", end_of(lambda: sp2.bytes_written()))
    sp2.close()
    out("  sp2 closed:", sp2.closed)
    lsp = ListLineSpooler(lines=[])
    lsp.append(["a"])
    lsp.close()
    out("  list spooler:", lsp.sink, len(lsp), lsp.closed, lsp.bytes_written())
    dump_tree("archive")

    # ---- 6. manager error cases
    out("#" * 78)
    out("# SECTION 6: results manager edge cases")
    reset_outputs()
    cp = new_paths()
    rm = cp.results_manager
    for fn in (
        lambda: rm.get_named_results("nope"),
        lambda: rm.get_number_of_results("nope"),
        lambda: rm.remove_named_results("nope"),
        lambda: rm.clean_named_results("nope"),
        lambda: rm.get_specific_named_result_manifest("nope", "x"),
        lambda: rm.list_named_results(),
    ):
        out("  ->", end_of(fn))
    results = run(cp, "collect_paths", "basic", "plain")
    out("  list_named_results:", rm.list_named_results())
    out("  specific:", rm.get_specific_named_result("basic", "two").identity_or_index)
    out("  specific none:", rm.get_specific_named_result("basic", "zzz"))
    out("  specific manifest none:", rm.get_specific_named_result_manifest("basic", "zzz"))
    out("  last:", rm.get_last_named_result(name="basic").identity_or_index)
    out("  metadata:", json.dumps(rm.get_metadata("basic"), sort_keys=True, default=str))
    r = results[0]
    keep_f, keep_p = r._file_name, r._paths_name
    r._file_name = None
    out("  add without file name ->", end_of(lambda: rm.add_named_result(r)))
    r._file_name = keep_f
    r._paths_name = None
    out("  add without paths name ->", end_of(lambda: rm.add_named_result(r)))
    r._paths_name = keep_p
    out("  n results still:", rm.get_number_of_results("basic"))
    keep_cs = rm._csvpaths
    rm._csvpaths = None
    out("  save without csvpaths ->", end_of(lambda: rm.save(r)))
    rm._csvpaths = keep_cs
    # saving again is idempotent on disk apart from times
    rm.save(r)
    rm.save(results[1])
    rm.complete_run(run_dir=r.run_dir, pathsname="basic", results=results)
    check_property(cp, "basic", results, ",", '"')
    # re-adding the same results (set_named_results) re-registers their start
    rm.set_named_results({"basic": list(results)})
    out("  after set_named_results n:", rm.get_number_of_results("basic"))
    run_name = os.path.basename(r.run_dir)
    for ref in (
        "$basic.results.%s.two" % run_name,
        "$basic.results.%s:last.two" % run_name[:11],
        "$basic.results.%s:first.0" % run_name[:11],
        "$basic.results.%s.nope" % run_name,
        "$nope.results.%s.two" % run_name,
        "$basic.results.1999-01-:last.two",
    ):
        out("  data_file_for_reference(%s) ->" % ref, end_of(lambda ref=ref: rm.data_file_for_reference(ref)))
    dump_tree("archive")
    out("")
    out("DONE")


def end_of(fn):
    try:
        return "returned %r" % (fn(),)
    except Exception as e:  # pylint: disable=W0718
        return "raised %s: %s" % (type(e).__name__, " ".join(str(e).split())[:160])


if __name__ == "__main__":
    try:
        main()
    finally:
        os.chdir("/")
        shutil.rmtree(WORK, ignore_errors=True)
